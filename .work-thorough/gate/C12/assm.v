Require Erbium.Props.C12.
Goal True. idtac "@@BEGIN C12_broadcast_bit". Abort.
Print Assumptions Erbium.Props.C12.C12_broadcast_bit.
Goal True. idtac "@@BEGIN C12_destination". Abort.
Print Assumptions Erbium.Props.C12.C12_destination.
Goal True. idtac "@@BEGIN C12_frame_valid". Abort.
Print Assumptions Erbium.Props.C12.C12_frame_valid.
Goal True. idtac "@@BEGIN C12_roundtrip". Abort.
Print Assumptions Erbium.Props.C12.C12_roundtrip.
Goal True. idtac "@@END". Abort.

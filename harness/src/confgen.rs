#![allow(dead_code)]
//! Abstract erbium configurations (the part DHCP reads) and requests, shared
//! by the harnesses of C11 and C02: generator, token codec (grammar in
//! coq/Model/ConfTokens.v), YAML renderer, loader through the real string
//! loader, and conversion to a real `DHCPRequest`.
use crate::util::*;
use erbium::dhcp;
use erbium::dhcp::dhcppkt;
use erbium::dhcp::dhcppkt::verif as hk;
use std::fmt::Write as _;
use std::net::Ipv4Addr;

#[derive(Clone, Debug)]
pub enum Val {
    Bytes(Vec<u8>),
    Ip(u32),
    IpList(Vec<u32>),
    U8(u8),
    U16(u16),
    U32(u32),
    Domains(Vec<Vec<u8>>),
    Routes(Vec<(u8, u32, u32)>),
}

#[derive(Clone, Debug)]
pub enum AItem {
    Addr(u32),
    Range(u32, u32),
    Subnet(u32, u8),
}

#[derive(Clone, Debug, Default)]
pub struct CPolicy {
    pub sn: Option<(u32, u8)>,
    pub ch: Option<Vec<u8>>,
    pub mo: Vec<(u8, Option<Val>)>,
    pub ao: Vec<(u8, Option<Val>)>,
    pub ad: Vec<AItem>,
    pub kids: Vec<CPolicy>,
}

#[derive(Clone, Debug)]
pub enum Dns {
    Self4,
    Self6,
    V4(u32),
    V6,
}
#[derive(Clone, Debug)]
pub enum Pfx {
    P4(u32, u8),
    P6,
}

#[derive(Clone, Debug, Default)]
pub struct Conf {
    pub dns: Option<Vec<Dns>>,
    pub search: Vec<Vec<u8>>,
    pub portal: Option<Vec<u8>>,
    pub addresses: Vec<Pfx>,
    pub policies: Vec<CPolicy>,
}

#[derive(Clone, Debug)]
pub struct Req {
    pub serverip: u32,
    pub mtu: Option<u32>,
    pub router: Option<u32>,
    pub chaddr: Vec<u8>,
    pub opts: Vec<(u8, Vec<u8>)>,
}

// ---------------------------------------------------------------- option table
#[derive(Clone, Copy, PartialEq, Eq, Debug)]
pub enum Ty {
    Str,
    Ip,
    IpList,
    I32,
    U8,
    U16,
    Bool,
    Sec16,
    Sec32,
    Hw,
    Domains,
    Routes,
}

/// (name in erbium.conf, option code, value type) -- a working subset of dhcppkt.rs OPT_INFO
pub const OPTS: &[(&str, u8, Ty)] = &[
    ("netmask", 1, Ty::Ip),
    ("time-offset", 2, Ty::I32),
    ("routers", 3, Ty::IpList),
    ("time-servers", 4, Ty::IpList),
    ("dns-servers", 6, Ty::IpList),
    ("host-name", 12, Ty::Str),
    ("domain-name", 15, Ty::Str),
    ("forward", 19, Ty::Bool),
    ("max-reassembly", 21, Ty::Sec16),
    ("default-ttl", 23, Ty::U8),
    ("mtu-timeout", 24, Ty::Sec32),
    ("mtu", 26, Ty::U16),
    ("mtu-subnet", 27, Ty::Bool),
    ("broadcast", 28, Ty::Ip),
    ("arp-timeout", 35, Ty::Sec32),
    ("tcp-ttl", 37, Ty::U16),
    ("ntp-servers", 42, Ty::IpList),
    ("netbios-type", 46, Ty::U8),
    ("lease-time", 51, Ty::Sec32),
    ("class-id", 60, Ty::Str),
    ("client-id", 61, Ty::Hw),
    ("user-class", 77, Ty::Str),
    ("tz-name", 101, Ty::Str),
    ("captive-portal", 114, Ty::Str),
    ("dns-searches", 119, Ty::Domains),
    ("routes", 121, Ty::Routes),
    ("wpad-url", 252, Ty::Str),
];

pub fn opt_by_code(code: u8) -> Option<&'static (&'static str, u8, Ty)> {
    OPTS.iter().find(|o| o.1 == code)
}

// ---------------------------------------------------------------- tokens
pub fn put_bytes(t: &mut Toks, b: &[u8]) {
    t.bytes(b);
}
fn put_val(t: &mut Toks, v: &Val) {
    match v {
        Val::Bytes(b) => {
            t.n(0).bytes(b);
        }
        Val::Ip(x) => {
            t.n(1).n(*x as u64);
        }
        Val::IpList(l) => {
            t.n(2).n(l.len() as u64);
            for x in l {
                t.n(*x as u64);
            }
        }
        Val::U8(v) => {
            t.n(3).n(*v as u64);
        }
        Val::U16(v) => {
            t.n(4).n(*v as u64);
        }
        Val::U32(v) => {
            t.n(5).n(*v as u64);
        }
        Val::Domains(l) => {
            t.n(6).n(l.len() as u64);
            for d in l {
                t.bytes(d);
            }
        }
        Val::Routes(l) => {
            t.n(7).n(l.len() as u64);
            for (len, net, hop) in l {
                t.n(*len as u64).n(*net as u64).n(*hop as u64);
            }
        }
    }
}
fn put_optents(t: &mut Toks, l: &[(u8, Option<Val>)]) {
    t.n(l.len() as u64);
    for (code, v) in l {
        t.n(*code as u64);
        match v {
            None => {
                t.n(0);
            }
            Some(v) => {
                t.n(1);
                put_val(t, v);
            }
        }
    }
}
pub fn put_policy(t: &mut Toks, p: &CPolicy) {
    match p.sn {
        None => {
            t.n(0);
        }
        Some((n, l)) => {
            t.n(1).n(n as u64).n(l as u64);
        }
    }
    match &p.ch {
        None => {
            t.n(0);
        }
        Some(b) => {
            t.n(1).bytes(b);
        }
    }
    put_optents(t, &p.mo);
    put_optents(t, &p.ao);
    t.n(p.ad.len() as u64);
    for a in &p.ad {
        match a {
            AItem::Addr(x) => {
                t.n(0).n(*x as u64);
            }
            AItem::Range(s, e) => {
                t.n(1).n(*s as u64).n(*e as u64);
            }
            AItem::Subnet(n, l) => {
                t.n(2).n(*n as u64).n(*l as u64);
            }
        }
    }
    t.n(p.kids.len() as u64);
    for k in &p.kids {
        put_policy(t, k);
    }
}
pub fn put_conf(t: &mut Toks, c: &Conf) {
    match &c.dns {
        None => {
            t.n(0);
        }
        Some(l) => {
            t.n(1).n(l.len() as u64);
            for d in l {
                match d {
                    Dns::Self4 => {
                        t.n(0);
                    }
                    Dns::Self6 => {
                        t.n(1);
                    }
                    Dns::V4(x) => {
                        t.n(2).n(*x as u64);
                    }
                    Dns::V6 => {
                        t.n(3);
                    }
                }
            }
        }
    }
    t.n(c.search.len() as u64);
    for d in &c.search {
        t.bytes(d);
    }
    match &c.portal {
        None => {
            t.n(0);
        }
        Some(b) => {
            t.n(1).bytes(b);
        }
    }
    t.n(c.addresses.len() as u64);
    for a in &c.addresses {
        match a {
            Pfx::P4(n, l) => {
                t.n(4).n(*n as u64).n(*l as u64);
            }
            Pfx::P6 => {
                t.n(6);
            }
        }
    }
    t.n(c.policies.len() as u64);
    for p in &c.policies {
        put_policy(t, p);
    }
}
pub fn put_req(t: &mut Toks, r: &Req) {
    t.n(r.serverip as u64);
    for o in [r.mtu, r.router] {
        match o {
            None => {
                t.n(0);
            }
            Some(v) => {
                t.n(1).n(v as u64);
            }
        }
    }
    t.bytes(&r.chaddr);
    t.n(r.opts.len() as u64);
    for (c, b) in &r.opts {
        t.n(*c as u64).bytes(b);
    }
}

/// cursor over a token vector (replay)
pub struct Cur<'a>(pub &'a [u64], pub usize);
impl<'a> Cur<'a> {
    pub fn n(&mut self) -> Option<u64> {
        let v = self.0.get(self.1).copied();
        self.1 += 1;
        v
    }
    pub fn bytes(&mut self) -> Option<Vec<u8>> {
        let k = self.n()? as usize;
        if self.1 + k > self.0.len() {
            return None;
        }
        let v = self.0[self.1..self.1 + k].iter().map(|&x| x as u8).collect();
        self.1 += k;
        Some(v)
    }
}
fn get_val(c: &mut Cur) -> Option<Val> {
    Some(match c.n()? {
        0 => Val::Bytes(c.bytes()?),
        1 => Val::Ip(c.n()? as u32),
        2 => {
            let k = c.n()?;
            let mut l = vec![];
            for _ in 0..k {
                l.push(c.n()? as u32);
            }
            Val::IpList(l)
        }
        3 => Val::U8(c.n()? as u8),
        4 => Val::U16(c.n()? as u16),
        5 => Val::U32(c.n()? as u32),
        6 => {
            let k = c.n()?;
            let mut l = vec![];
            for _ in 0..k {
                l.push(c.bytes()?);
            }
            Val::Domains(l)
        }
        7 => {
            let k = c.n()?;
            let mut l = vec![];
            for _ in 0..k {
                l.push((c.n()? as u8, c.n()? as u32, c.n()? as u32));
            }
            Val::Routes(l)
        }
        _ => return None,
    })
}
fn get_optents(c: &mut Cur) -> Option<Vec<(u8, Option<Val>)>> {
    let k = c.n()?;
    let mut l = vec![];
    for _ in 0..k {
        let code = c.n()? as u8;
        let v = match c.n()? {
            0 => None,
            1 => Some(get_val(c)?),
            _ => return None,
        };
        l.push((code, v));
    }
    Some(l)
}
pub fn get_policy(c: &mut Cur) -> Option<CPolicy> {
    let sn = match c.n()? {
        0 => None,
        1 => Some((c.n()? as u32, c.n()? as u8)),
        _ => return None,
    };
    let ch = match c.n()? {
        0 => None,
        1 => Some(c.bytes()?),
        _ => return None,
    };
    let mo = get_optents(c)?;
    let ao = get_optents(c)?;
    let k = c.n()?;
    let mut ad = vec![];
    for _ in 0..k {
        ad.push(match c.n()? {
            0 => AItem::Addr(c.n()? as u32),
            1 => AItem::Range(c.n()? as u32, c.n()? as u32),
            2 => AItem::Subnet(c.n()? as u32, c.n()? as u8),
            _ => return None,
        });
    }
    let k = c.n()?;
    let mut kids = vec![];
    for _ in 0..k {
        kids.push(get_policy(c)?);
    }
    Some(CPolicy { sn, ch, mo, ao, ad, kids })
}
pub fn get_conf(c: &mut Cur) -> Option<Conf> {
    let dns = match c.n()? {
        0 => None,
        1 => {
            let k = c.n()?;
            let mut l = vec![];
            for _ in 0..k {
                l.push(match c.n()? {
                    0 => Dns::Self4,
                    1 => Dns::Self6,
                    2 => Dns::V4(c.n()? as u32),
                    3 => Dns::V6,
                    _ => return None,
                });
            }
            Some(l)
        }
        _ => return None,
    };
    let k = c.n()?;
    let mut search = vec![];
    for _ in 0..k {
        search.push(c.bytes()?);
    }
    let portal = match c.n()? {
        0 => None,
        1 => Some(c.bytes()?),
        _ => return None,
    };
    let k = c.n()?;
    let mut addresses = vec![];
    for _ in 0..k {
        addresses.push(match c.n()? {
            4 => Pfx::P4(c.n()? as u32, c.n()? as u8),
            6 => Pfx::P6,
            _ => return None,
        });
    }
    let k = c.n()?;
    let mut policies = vec![];
    for _ in 0..k {
        policies.push(get_policy(c)?);
    }
    Some(Conf { dns, search, portal, addresses, policies })
}
pub fn get_req(c: &mut Cur) -> Option<Req> {
    let serverip = c.n()? as u32;
    let mut two = [None, None];
    for slot in two.iter_mut() {
        *slot = match c.n()? {
            0 => None,
            1 => Some(c.n()? as u32),
            _ => return None,
        };
    }
    let chaddr = c.bytes()?;
    let k = c.n()?;
    let mut opts = vec![];
    for _ in 0..k {
        let code = c.n()? as u8;
        opts.push((code, c.bytes()?));
    }
    Some(Req { serverip, mtu: two[0], router: two[1], chaddr, opts })
}

// ---------------------------------------------------------------- YAML (flow style = JSON)
fn ip(x: u32) -> String {
    Ipv4Addr::from(x).to_string()
}
fn qs(b: &[u8]) -> String {
    let mut s = String::from("\"");
    for &c in b {
        match c {
            b'"' => s.push_str("\\\""),
            b'\\' => s.push_str("\\\\"),
            0x20..=0x7e => s.push(c as char),
            _ => write!(s, "\\x{:02x}", c).unwrap(),
        }
    }
    s.push('"');
    s
}
fn hw(b: &[u8]) -> String {
    format!("\"{}\"", b.iter().map(|x| format!("{:02x}", x)).collect::<Vec<_>>().join(":"))
}
fn render_val(code: u8, v: &Val) -> String {
    let ty = opt_by_code(code).map(|o| o.2);
    match v {
        Val::Bytes(b) => {
            if ty == Some(Ty::Hw) {
                hw(b)
            } else {
                qs(b)
            }
        }
        Val::Ip(x) => format!("\"{}\"", ip(*x)),
        Val::IpList(l) => format!("[{}]", l.iter().map(|x| format!("\"{}\"", ip(*x))).collect::<Vec<_>>().join(", ")),
        Val::U8(v) => {
            if ty == Some(Ty::Bool) {
                (if *v != 0 { "true" } else { "false" }).to_string()
            } else {
                v.to_string()
            }
        }
        Val::U16(v) => v.to_string(),
        Val::U32(v) => {
            if ty == Some(Ty::I32) {
                (*v as i32).to_string()
            } else {
                v.to_string()
            }
        }
        Val::Domains(l) => format!("[{}]", l.iter().map(|d| qs(d)).collect::<Vec<_>>().join(", ")),
        Val::Routes(l) => format!(
            "[{}]",
            l.iter()
                .map(|(len, net, hop)| format!("{{\"prefix\": \"{}/{}\", \"next-hop\": \"{}\"}}", ip(*net), len, ip(*hop)))
                .collect::<Vec<_>>()
                .join(", ")
        ),
    }
}
fn render_policy(p: &CPolicy, out: &mut String) {
    let mut f: Vec<String> = vec![];
    if let Some((n, l)) = p.sn {
        f.push(format!("\"match-subnet\": \"{}/{}\"", ip(n), l));
    }
    if let Some(ch) = &p.ch {
        f.push(format!("\"match-hardware-address\": {}", hw(ch)));
    }
    for (pre, l) in [("match", &p.mo), ("apply", &p.ao)] {
        for (code, v) in l.iter() {
            let name = opt_by_code(*code).map(|o| o.0).unwrap_or("unknown-option");
            f.push(format!(
                "\"{}-{}\": {}",
                pre,
                name,
                match v {
                    None => "null".to_string(),
                    Some(v) => render_val(*code, v),
                }
            ));
        }
    }
    for a in &p.ad {
        f.push(match a {
            AItem::Addr(x) => format!("\"apply-address\": \"{}\"", ip(*x)),
            AItem::Range(s, e) => format!("\"apply-range\": {{\"start\": \"{}\", \"end\": \"{}\"}}", ip(*s), ip(*e)),
            AItem::Subnet(n, l) => format!("\"apply-subnet\": \"{}/{}\"", ip(*n), l),
        });
    }
    if !p.kids.is_empty() {
        let mut s = String::from("\"policies\": [");
        for (i, k) in p.kids.iter().enumerate() {
            if i > 0 {
                s.push_str(", ");
            }
            render_policy(k, &mut s);
        }
        s.push(']');
        // the order of the keys of a YAML mapping carries no meaning: write `policies:` before the
        // match-/apply- keys for about half of the policies (a pure function of the policy, so that
        // a replayed case renders the same text)
        let h = p.ad.len() + 3 * p.kids.len() + p.ao.len() + p.sn.map(|(n, l)| (n as usize >> 4) + l as usize).unwrap_or(1);
        if h % 2 == 0 {
            f.insert(0, s);
        } else {
            f.push(s);
        }
    }
    out.push('{');
    out.push_str(&f.join(", "));
    out.push('}');
}
pub fn render_yaml(c: &Conf) -> String {
    let mut f: Vec<String> = vec![];
    if let Some(l) = &c.dns {
        f.push(format!(
            "\"dns-servers\": [{}]",
            l.iter()
                .map(|d| match d {
                    Dns::Self4 => "\"$self4\"".to_string(),
                    Dns::Self6 => "\"$self6\"".to_string(),
                    Dns::V4(x) => format!("\"{}\"", ip(*x)),
                    Dns::V6 => "\"2001:db8::53\"".to_string(),
                })
                .collect::<Vec<_>>()
                .join(", ")
        ));
    }
    if !c.search.is_empty() {
        f.push(format!("\"dns-search\": [{}]", c.search.iter().map(|d| qs(d)).collect::<Vec<_>>().join(", ")));
    }
    if let Some(p) = &c.portal {
        f.push(format!("\"captive-portal\": {}", qs(p)));
    }
    if !c.addresses.is_empty() {
        f.push(format!(
            "\"addresses\": [{}]",
            c.addresses
                .iter()
                .map(|a| match a {
                    // a prefix may be written with host bits set (e.g. the router's own address);
                    // it names the same subnet.  Done for about a third of the prefixes, as a pure
                    // function of the prefix.
                    Pfx::P4(n, l) => {
                        let hostmask: u32 = if *l >= 32 { 0 } else { u32::MAX >> *l };
                        let written = if (*n >> 8).wrapping_add(*l as u32) % 3 == 0 { *n | ((*n >> 5).wrapping_mul(2654435761) & hostmask) } else { *n };
                        format!("\"{}/{}\"", ip(written), l)
                    }
                    Pfx::P6 => "\"2001:db8::/64\"".to_string(),
                })
                .collect::<Vec<_>>()
                .join(", ")
        ));
    }
    let mut s = String::from("\"dhcp-policies\": [");
    for (i, k) in c.policies.iter().enumerate() {
        if i > 0 {
            s.push_str(", ");
        }
        render_policy(k, &mut s);
    }
    s.push(']');
    f.push(s);
    format!("{{{}}}\n", f.join(",\n "))
}

// ---------------------------------------------------------------- the real side
pub fn runtime() -> tokio::runtime::Runtime {
    tokio::runtime::Builder::new_current_thread().enable_all().build().expect("tokio runtime")
}
/// Load through erbium's own loader (string-loader hook).  None = rejected (or panicked: Err).
pub fn load(rt: &tokio::runtime::Runtime, yaml: &str) -> Result<Option<erbium::config::SharedConfig>, ()> {
    let _ = rt;
    match catch(|| erbium::config::verif_load_config_from_string(yaml)) {
        None => Err(()),
        Some(Ok(c)) => Ok(Some(c)),
        Some(Err(_)) => Ok(None),
    }
}
pub fn mk_request(r: &Req) -> dhcp::DHCPRequest {
    let mut options = dhcppkt::DhcpOptions::default();
    for (c, b) in &r.opts {
        options.other.insert(hk::mk_option(*c), b.clone());
    }
    dhcp::DHCPRequest {
        pkt: dhcppkt::Dhcp {
            op: hk::mk_op(1),
            htype: hk::mk_htype(1),
            hlen: r.chaddr.len() as u8,
            hops: 0,
            xid: 0x1234_5678,
            secs: 0,
            flags: 0,
            ciaddr: Ipv4Addr::UNSPECIFIED,
            yiaddr: Ipv4Addr::UNSPECIFIED,
            siaddr: Ipv4Addr::UNSPECIFIED,
            giaddr: Ipv4Addr::UNSPECIFIED,
            chaddr: r.chaddr.clone(),
            sname: vec![],
            file: vec![],
            options,
        },
        serverip: Ipv4Addr::from(r.serverip),
        ifindex: 1,
        if_mtu: r.mtu,
        if_router: r.router.map(Ipv4Addr::from),
    }
}
pub fn err_code(e: &dhcp::DhcpError) -> u64 {
    use dhcp::DhcpError::*;
    match e {
        NoPolicyConfigured => 1,
        NoLeasesConfigured => 2,
        PoolError(dhcp::pool::Error::NoAssignableAddress) => 3,
        OtherServer(_) => 4,
        PoolError(_) => 5,
        UnknownMessageType(_) | ParseError(_) => 6,
        InternalError(_) => 9,
    }
}
/// `0 yiaddr n (code bytes)*` | `1 e` | `2`
pub fn put_outcome(t: &mut Toks, r: Option<Result<dhcppkt::Dhcp, dhcp::DhcpError>>) {
    match r {
        None => {
            t.n(2);
        }
        Some(Err(e)) => {
            t.n(1).n(err_code(&e));
        }
        Some(Ok(m)) => {
            t.n(0).ip4(m.yiaddr);
            let mut opts: Vec<(u8, &Vec<u8>)> = m.options.other.iter().map(|(k, v)| (hk::option_raw(k), v)).collect();
            opts.sort_by_key(|(k, _)| *k);
            t.n(opts.len() as u64);
            for (k, v) in opts {
                t.n(k as u64).bytes(v);
            }
        }
    }
}

// ---------------------------------------------------------------- generator
pub const MACS: [[u8; 6]; 4] = [
    [0x00, 0x00, 0x5e, 0x00, 0x53, 0x01],
    [0x00, 0x00, 0x5e, 0x00, 0x53, 0x02],
    [0x00, 0x00, 0x5e, 0x00, 0x53, 0xf0],
    [0x02, 0xaa, 0xbb, 0xcc, 0xdd, 0xee],
];
const WORDS: [&str; 6] = ["alpha", "beta.example", "printer", "x", "erbium-test", "a.b.c"];
const DOMS: [&str; 5] = ["example.com", "example.org", "lan", "a.b.c.d", "corp.example.net"];

pub struct World {
    /// the prefixes this configuration knows about (network, len)
    pub nets: Vec<(u32, u8)>,
    pub lens: (u8, u8),
    /// the receiving address of the request the policies are generated for (set by the caller
    /// after `gen_req`): lets match-subnet use the /30, /31, /32 around it
    pub sip: Option<u32>,
}

pub fn mask(len: u8) -> u32 {
    if len == 0 {
        0
    } else {
        u32::MAX << (32 - len as u32)
    }
}

pub fn gen_net(r: &mut Rng, lo: u8, hi: u8) -> (u32, u8) {
    let len = r.range(lo as u64, hi as u64) as u8;
    let base: u32 = *r.pick(&[0x0a00_0000u32, 0xc000_0200, 0xc633_6400, 0xcb00_7100, 0xac10_0000, 0x6440_0000]);
    let base = base & mask(len.min(8)); // keep inside the first octet's block for short prefixes
    let inner = (r.next() as u32) & !mask(len.min(8));
    ((base | inner) & mask(len), len)
}
pub fn addr_in(r: &mut Rng, net: (u32, u8)) -> u32 {
    let size = 1u64 << (32 - net.1 as u32);
    // boundaries are interesting: first/last three, else random
    let off = match r.below(8) {
        0 => 0,
        1 => 1,
        2 => 2,
        3 => size - 1,
        4 => size - 2,
        5 => size - 3,
        _ => r.below(size),
    };
    net.0.wrapping_add(off as u32)
}

pub fn gen_val(r: &mut Rng, w: &World, ty: Ty) -> Val {
    let some_ip = |r: &mut Rng| -> u32 {
        if r.chance(1, 2) && !w.nets.is_empty() {
            let n = *r.pick(&w.nets);
            let a = addr_in(r, n);
            if a == 0 {
                1
            } else {
                a
            }
        } else {
            *r.pick(&[0x0808_0808u32, 0xc000_0235, 0x0100_0001, 0xffff_ff00, 0xe000_0001])
        }
    };
    match ty {
        Ty::Str => Val::Bytes(r.pick(&WORDS).as_bytes().to_vec()),
        Ty::Hw => Val::Bytes(r.pick(&MACS)[..].to_vec()),
        Ty::Ip => Val::Ip(some_ip(r)),
        Ty::IpList => {
            let k = r.below(4);
            Val::IpList((0..k).map(|_| some_ip(r)).collect())
        }
        Ty::I32 => Val::U32(*r.pick(&[0u32, 1, 3600, (-3600i32) as u32, i32::MAX as u32, i32::MIN as u32, u32::MAX])),
        Ty::U8 => Val::U8(*r.pick(&[0u8, 1, 64, 255])),
        Ty::Bool => Val::U8(r.below(2) as u8),
        Ty::U16 | Ty::Sec16 => Val::U16(*r.pick(&[0u16, 1, 576, 1500, 9000, 65535])),
        Ty::Sec32 => Val::U32(*r.pick(&[0u32, 1, 60, 3600, 86400, 0x0100_0000, u32::MAX])),
        Ty::Domains => {
            let k = r.below(3);
            Val::Domains((0..k).map(|_| r.pick(&DOMS).as_bytes().to_vec()).collect())
        }
        Ty::Routes => {
            let k = r.range(1, 2);
            Val::Routes(
                (0..k)
                    .map(|_| {
                        let n = gen_net(r, 8, 32);
                        (n.1, n.0, some_ip(r))
                    })
                    .collect(),
            )
        }
    }
}

/// options a client may send that policies match on: (code, candidate values)
pub fn match_pool() -> Vec<(u8, Vec<Vec<u8>>)> {
    vec![
        (12, vec![b"alpha".to_vec(), b"printer".to_vec()]),
        (60, vec![b"x".to_vec(), b"erbium-test".to_vec()]),
        (77, vec![b"alpha".to_vec()]),
        // values whose encoding ends in zero octets included: they are values like any other
        (23, vec![vec![64], vec![1], vec![0]]),
        (37, vec![vec![5, 0], vec![0, 64], vec![0, 0]]),
        (28, vec![vec![10, 1, 0, 0], vec![10, 1, 0, 255]]),
        (61, vec![MACS[0].to_vec(), MACS[3].to_vec()]),
    ]
}

pub struct GenCfg {
    pub depth: u32,
    pub width: u64,
    pub addr_items: bool,
    /// probability (num of 8) that a policy has conditions
    pub cond8: u64,
}

pub fn gen_policy(r: &mut Rng, w: &World, g: &GenCfg, depth: u32, server_net: Option<(u32, u8)>) -> CPolicy {
    let mut p = CPolicy::default();
    let mp = match_pool();
    if r.below(8) < g.cond8 {
        // conditions
        if r.chance(1, 2) {
            // a subnet: mostly one the server is in
            p.sn = Some(match (server_net, r.below(6)) {
                // every prefix length 8..32 around the receiving address, with emphasis on the
                // boundary lengths 30, 31, 32 (netmask / broadcast defaults of a /31 and a /32)
                (_, 0..=1) if w.sip.is_some() && r.chance(2, 3) => {
                    let sip = w.sip.unwrap();
                    let l = match r.below(8) {
                        0..=2 => 32,
                        3..=4 => 31,
                        5 => 30,
                        _ => r.range(8, 32) as u8,
                    };
                    // mostly the block the address is in, sometimes the neighbouring one
                    let a = if r.chance(1, 6) && l > 8 { sip ^ (1u32 << (32 - l as u32)) } else { sip };
                    (a & mask(l), l)
                }
                (Some(n), 0..=2) => n,
                (Some(n), 3) if n.1 < 30 => {
                    // a more specific half of it
                    let l = n.1 + 1;
                    (n.0 | (if r.chance(1, 2) { 1u32 << (32 - l as u32) } else { 0 }), l)
                }
                (Some(n), 4) if n.1 > 8 => {
                    let l = n.1 - 1;
                    (n.0 & mask(l), l)
                }
                _ => {
                    if !w.nets.is_empty() && r.chance(2, 3) {
                        *r.pick(&w.nets)
                    } else {
                        gen_net(r, w.lens.0, w.lens.1)
                    }
                }
            });
        }
        if r.chance(1, 3) {
            p.ch = Some(r.pick(&MACS)[..].to_vec());
        }
        let k = if p.sn.is_none() && p.ch.is_none() { r.range(1, 2) } else { r.below(2) };
        for _ in 0..k {
            let (code, vals) = r.pick(&mp).clone();
            if p.mo.iter().any(|(c, _)| *c == code) {
                continue;
            }
            let v = if r.chance(1, 3) {
                None
            } else {
                let b = r.pick(&vals).clone();
                Some(match opt_by_code(code).unwrap().2 {
                    Ty::U8 => Val::U8(b[0]),
                    Ty::U16 => Val::U16(u16::from_be_bytes([b[0], b[1]])),
                    Ty::Ip => Val::Ip(u32::from_be_bytes([b[0], b[1], b[2], b[3]])),
                    _ => Val::Bytes(b),
                })
            };
            p.mo.push((code, v));
        }
    }
    // options to apply
    let k = r.below(4);
    for _ in 0..k {
        let o = match r.below(10) {
            0 => opt_by_code(1).unwrap(),
            1 => opt_by_code(28).unwrap(),
            2 => opt_by_code(6).unwrap(),
            3 => opt_by_code(119).unwrap(),
            4 => opt_by_code(114).unwrap(),
            5 => opt_by_code(*r.pick(&[3u8, 26])).unwrap(),
            6 => opt_by_code(252).unwrap(), // a code >= 128
            _ => r.pick(OPTS),
        };
        if p.ao.iter().any(|(c, _)| *c == o.1) {
            continue;
        }
        let v = if r.chance(1, 4) { None } else { Some(gen_val(r, w, o.2)) };
        p.ao.push((o.1, v));
    }
    if g.addr_items && r.chance(1, 2) {
        gen_addr_items(r, w, &mut p, server_net);
    }
    if depth < g.depth {
        let k = match r.below(4) {
            0 => 0,
            _ => r.range(1, g.width),
        };
        for _ in 0..k {
            p.kids.push(gen_policy(r, w, g, depth + 1, server_net));
        }
        // a condition-less sub-policy none of whose descendants can match, in front of its
        // siblings: it must be skipped (not applied, and not stop the scan)
        if depth + 2 <= g.depth && r.chance(1, 4) {
            p.kids.insert(0, gen_decoy(r, w, false));
        }
    }
    p
}

/// a hardware address no generated client uses
pub const DECOY_MAC: [u8; 6] = [0x02, 0xde, 0xc0, 0xde, 0xc0, 0xde];

/// condition-less policy whose descendants all fail (with options that would show if it were applied)
pub fn gen_decoy(r: &mut Rng, w: &World, nested: bool) -> CPolicy {
    let mut p = CPolicy::default();
    let mut leaf = |r: &mut Rng| {
        let mut q = CPolicy { ch: Some(DECOY_MAC.to_vec()), ..Default::default() };
        let o = r.pick(OPTS);
        q.ao.push((o.1, Some(gen_val(r, w, o.2))));
        q
    };
    for code in [6u8, 252, 28] {
        if r.chance(1, 2) {
            let o = opt_by_code(code).unwrap();
            p.ao.push((o.1, if r.chance(1, 4) { None } else { Some(gen_val(r, w, o.2)) }));
        }
    }
    let k = r.below(3);
    for _ in 0..k {
        let q = leaf(r);
        p.kids.push(q);
    }
    if nested && r.chance(1, 2) {
        // one more condition-less level
        let mut mid = CPolicy::default();
        mid.kids.push(leaf(r));
        p.kids.push(mid);
    }
    p
}

pub fn gen_addr_items(r: &mut Rng, w: &World, p: &mut CPolicy, server_net: Option<(u32, u8)>) {
    let net = match (server_net, r.below(4)) {
        (Some(n), 0..=2) => n,
        _ => {
            if w.nets.is_empty() {
                gen_net(r, w.lens.0, w.lens.1)
            } else {
                *r.pick(&w.nets)
            }
        }
    };
    // at most one of each key: YAML keeps one value per key
    if r.chance(1, 2) {
        p.ad.push(AItem::Addr(addr_in(r, net)));
    }
    if r.chance(1, 2) {
        let a = addr_in(r, net);
        let span = *r.pick(&[0u32, 1, 2, 7, 30, 200]);
        match r.below(8) {
            0 => p.ad.push(AItem::Range(a, a)),
            1 => p.ad.push(AItem::Range(a.wrapping_add(span).max(1), a)), // start > end (or equal)
            _ => p.ad.push(AItem::Range(a, a.saturating_add(span))),
        }
    }
    if r.chance(1, 3) || p.ad.is_empty() {
        // a subnet: the net itself or a smaller block inside
        // mostly a smaller block inside the net, so that the enclosing pool is not emptied
        let l = if r.chance(1, 4) { net.1 } else { r.range((net.1 + 1).clamp(16, 30) as u64, 30) as u8 };
        let l = l.clamp(16, 30).max(net.1);
        let l = l.min(30);
        let inner = (r.next() as u32) & !mask(net.1) & mask(l);
        p.ad.push(AItem::Subnet(net.0 | inner, l));
    }
}

pub fn gen_conf(r: &mut Rng, g: &GenCfg, lens: (u8, u8)) -> (Conf, World) {
    let mut w = World { nets: vec![], lens, sip: None };
    let k = match r.below(8) {
        0 => 0,
        1..=5 => 1,
        _ => r.range(2, 3),
    };
    let mut c = Conf::default();
    for _ in 0..k {
        let n = gen_net(r, lens.0, lens.1);
        if w.nets.iter().any(|m| m.0 == n.0) {
            continue;
        }
        w.nets.push(n);
        c.addresses.push(Pfx::P4(n.0, n.1));
        if r.chance(1, 6) {
            c.addresses.push(Pfx::P6);
        }
    }
    // a net only policies know about
    if r.chance(1, 3) {
        w.nets.push(gen_net(r, lens.0.max(16), lens.1.max(16)));
    }
    c.dns = match r.below(4) {
        0 => None,
        _ => {
            let k = r.below(4);
            Some(
                (0..k)
                    .map(|_| match r.below(6) {
                        0 | 1 => Dns::Self4,
                        2 => Dns::Self6,
                        3 => Dns::V6,
                        _ => Dns::V4(*r.pick(&[0x0808_0808u32, 0xc000_0235, 0x0101_0101])),
                    })
                    .collect(),
            )
        }
    };
    let k = r.below(3);
    for _ in 0..k {
        c.search.push(r.pick(&DOMS).as_bytes().to_vec());
    }
    if r.chance(1, 2) {
        c.portal = Some(b"https://portal.example/api".to_vec());
    }
    (c, w)
}

pub fn gen_req(r: &mut Rng, w: &World, c: &Conf) -> (Req, Option<(u32, u8)>) {
    // the receiving address: mostly inside a top-level prefix, sometimes only inside a policy net, sometimes nowhere
    let tops: Vec<(u32, u8)> = c.addresses.iter().filter_map(|a| if let Pfx::P4(n, l) = a { Some((*n, *l)) } else { None }).collect();
    let (serverip, net) = match r.below(10) {
        0 => (0xc0a8_6301u32, None),
        1 | 2 if !w.nets.is_empty() => {
            let n = *r.pick(&w.nets);
            (host_in(r, n), Some(n))
        }
        _ if !tops.is_empty() => {
            let n = *r.pick(&tops);
            (host_in(r, n), Some(n))
        }
        _ if !w.nets.is_empty() => {
            let n = *r.pick(&w.nets);
            (host_in(r, n), Some(n))
        }
        _ => (0xc0a8_6301u32, None),
    };
    let mut opts: Vec<(u8, Vec<u8>)> = vec![];
    let mt = if r.chance(2, 3) { 1u8 } else { 3 };
    opts.push((53, vec![mt]));
    // parameter request list
    let mut pl: Vec<u8> = vec![];
    match r.below(8) {
        0 => {}
        1 => pl = r.pick(&[vec![1u8, 3, 6], vec![28, 3, 6], vec![1, 28], vec![28], vec![1], vec![252, 28], vec![252]]).clone(),
        _ => {
            for o in OPTS {
                if r.chance(3, 4) {
                    pl.push(o.1);
                }
            }
            if r.chance(1, 4) {
                pl.push(*r.pick(&[0u8, 55, 53, 54, 200, 255]));
            }
            // netmask and broadcast requested separately as well as together
            match r.below(6) {
                0 => pl.retain(|c| *c != 1),
                1 => pl.retain(|c| *c != 28),
                2 => {
                    pl.retain(|c| *c != 1 && *c != 28);
                    pl.push(28);
                    pl.push(1);
                }
                _ => {}
            }
            // codes >= 128 in the request list
            if r.chance(1, 3) && !pl.contains(&252) {
                pl.insert(0, 252);
            }
        }
    }
    if !(pl.is_empty() && r.chance(1, 2)) {
        opts.push((55, pl));
    }
    for (code, vals) in match_pool() {
        if r.chance(1, 2) {
            let v = if r.chance(1, 8) { b"other".to_vec() } else { r.pick(&vals).clone() };
            opts.push((code, v));
        }
    }
    if mt == 3 && r.chance(1, 3) {
        let sid = if r.chance(1, 4) { serverip ^ 1 } else { serverip };
        opts.push((54, sid.to_be_bytes().to_vec()));
    }
    let chaddr = r.pick(&MACS)[..].to_vec();
    (
        Req {
            serverip,
            mtu: if r.chance(2, 3) { Some(*r.pick(&[1500u32, 9000, 576, 65536 + 1500])) } else { None },
            router: if r.chance(2, 3) { Some(net.map(|n| n.0 | 1).unwrap_or(0x0a00_0001)) } else { None },
            chaddr,
            opts,
        },
        net,
    )
}

pub fn host_in(r: &mut Rng, net: (u32, u8)) -> u32 {
    let size = 1u64 << (32 - net.1 as u32);
    let off = match r.below(6) {
        0 => 1,
        1 => size - 2,
        2 => size - 3,
        3 => 2,
        _ => 1 + r.below(size - 2),
    };
    net.0.wrapping_add(off as u32)
}

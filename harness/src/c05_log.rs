//! A `log` backend for the C05 harness parts: every record at `trace` and above
//! is formatted (so the formatting code inside `log_options` and friends really
//! runs, as it does in production) and the text is dropped; only counters are kept.
use std::sync::atomic::{AtomicU64, Ordering};

pub static RECORDS: AtomicU64 = AtomicU64::new(0);
pub static OCTETS: AtomicU64 = AtomicU64::new(0);

struct Sink;
impl log::Log for Sink {
    fn enabled(&self, _: &log::Metadata) -> bool {
        true
    }
    fn log(&self, r: &log::Record) {
        let s = format!("{} {} {}", r.level(), r.target(), r.args());
        RECORDS.fetch_add(1, Ordering::Relaxed);
        OCTETS.fetch_add(s.len() as u64, Ordering::Relaxed);
    }
    fn flush(&self) {}
}

/// idempotent
pub fn install() {
    static S: Sink = Sink;
    if log::set_logger(&S).is_ok() {
        log::set_max_level(log::LevelFilter::Trace);
    }
}

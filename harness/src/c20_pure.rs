// Included by bin/c20.rs: access to the pure lease-listing renderer
// (http::leases_to_json, factored out by the repair of F5; before that repair
// the renderer was inline in the async request handler and this file said
// `HAVE_PURE = false`).
const HAVE_PURE: bool = true;
fn pure_render(rows: &[LeaseInfo]) -> String {
    erbium::http::verif::leases_to_json(rows)
}

//! C05, DHCP option-value part (case kinds 100..199, see coq/Model/EntryC05DhcpOpt.v).
//!  100 code bytes(v)   impl   DhcpOption::new(code).get_type().and_then(|t| t.decode(v))
//!  101 which bytes(v)  impl   DhcpParse for u64 (0) / MessageType (1) / Duration (2)
//!  102 bytes(pkt)      impl   dhcppkt::parse -> dhcp::verif::log_options -> dhcp::verif::to_array(chaddr)
//!  103 bytes(mac)      impl   dhcp::verif::to_array
//!  104 addr plen       impl   erbium_net::Ipv4Subnet::new
use crate::util::*;
use erbium::dhcp::dhcppkt;
use erbium::dhcp::dhcppkt::{DhcpOption, DhcpOptionTypeValue, DhcpParse};
use std::io::Write;

fn put_val(t: &mut Toks, v: &DhcpOptionTypeValue) {
    match v {
        DhcpOptionTypeValue::String(s) => {
            t.n(1).bytes(s.as_bytes());
        }
        DhcpOptionTypeValue::Ip(a) => {
            t.n(2).ip4(*a);
        }
        DhcpOptionTypeValue::IpList(l) => {
            t.n(3).n(l.len() as u64);
            for a in l {
                t.ip4(*a);
            }
        }
        DhcpOptionTypeValue::I32(x) => {
            t.n(4).n(*x as u32 as u64);
        }
        DhcpOptionTypeValue::U8(x) => {
            t.n(5).n(*x as u64);
        }
        DhcpOptionTypeValue::U16(x) => {
            t.n(6).n(*x as u64);
        }
        DhcpOptionTypeValue::U32(x) => {
            t.n(7).n(*x as u64);
        }
        DhcpOptionTypeValue::HwAddr(b) => {
            t.n(8).bytes(b);
        }
        DhcpOptionTypeValue::Routes(l) => {
            t.n(9).n(l.len() as u64);
            for r in l {
                t.n(r.prefix.prefixlen as u64).ip4(r.prefix.addr).ip4(r.nexthop);
            }
        }
        DhcpOptionTypeValue::DomainList(l) => {
            t.n(10).n(l.len() as u64);
            for d in l {
                t.bytes(d.as_bytes());
            }
        }
        DhcpOptionTypeValue::Unknown(b) => {
            t.n(11).bytes(b);
        }
    }
}

/// 0 = decoded, 1 = decode gave None, 2 = no type; None = panic
fn decode_status(code: u8, v: &[u8]) -> Option<(u64, Option<DhcpOptionTypeValue>)> {
    catch(|| match DhcpOption::new(code).get_type() {
        None => (2, None),
        Some(ty) => match ty.decode(v) {
            None => (1, None),
            Some(x) => {
                // the formatting log_options applies to it
                let s = format!("{}({})", DhcpOption::new(code), x);
                log::trace!("{}", s);
                (0, Some(x))
            }
        },
    })
}

pub fn case_decode(code: u8, v: &[u8]) -> Toks {
    let mut t = Toks::new();
    t.n(100).n(code as u64).bytes(v);
    match decode_status(code, v) {
        None => {
            t.n(2);
        }
        Some((0, Some(x))) => {
            t.n(0);
            put_val(&mut t, &x);
        }
        Some((e, _)) => {
            t.n(1).n(e);
        }
    }
    t
}

pub fn case_parse(which: u64, v: &[u8]) -> Toks {
    let mut t = Toks::new();
    t.n(101).n(which).bytes(v);
    match which {
        1 => match catch(|| <dhcppkt::MessageType as DhcpParse>::parse_into(v)) {
            None => {
                t.n(2);
            }
            Some(None) => {
                t.n(1).n(1);
            }
            Some(Some(m)) => {
                let _ = format!("{} {:?}", m, m);
                t.n(0).n(dhcppkt::verif::msgtype_raw(&m) as u64);
            }
        },
        _ => {
            let r = if which == 0 {
                catch(|| <u64 as DhcpParse>::parse_into(v))
            } else {
                catch(|| <std::time::Duration as DhcpParse>::parse_into(v).map(|d| d.as_secs()))
            };
            match r {
                None => {
                    t.n(2);
                }
                Some(None) => {
                    t.n(1).n(1);
                }
                Some(Some(x)) => {
                    t.n(0).n(x >> 32).n(x & 0xffff_ffff);
                }
            }
        }
    }
    t
}

fn put_array(t: &mut Toks, a: Option<[u8; 6]>) {
    match a {
        None => {
            t.n(0);
        }
        Some(b) => {
            t.n(1).raw(&b);
        }
    }
}

pub fn case_recv(pkt: &[u8]) -> Toks {
    let mut t = Toks::new();
    t.n(102).bytes(pkt);
    let m = match catch(|| dhcppkt::parse(pkt)) {
        None => {
            t.n(2).n(1);
            return t;
        }
        Some(Err(e)) => {
            t.n(1).n(match e {
                dhcppkt::ParseError::UnexpectedEndOfInput => 1,
                dhcppkt::ParseError::InvalidPacket => 2,
                dhcppkt::ParseError::WrongMagic => 3,
            });
            return t;
        }
        Some(Ok(m)) => m,
    };
    let before = crate::c05_log::RECORDS.load(std::sync::atomic::Ordering::Relaxed);
    if catch(|| erbium::dhcp::verif::log_options(&m)).is_none() {
        t.n(2).n(2);
        return t;
    }
    let after = crate::c05_log::RECORDS.load(std::sync::atomic::Ordering::Relaxed);
    assert!(after > before, "log_options did not reach the logger");
    let _ = catch(|| format!("{:?}", m));
    let (mut n, mut f) = (0u64, 0u64);
    for (k, v) in m.options.other.iter() {
        let code = dhcppkt::verif::option_raw(k);
        if code == 53 || code == 55 {
            continue;
        }
        n += 1;
        match decode_status(code, v) {
            None => {
                t.n(2).n(2);
                return t;
            }
            Some((0, _)) => {}
            Some(_) => f += 1,
        }
    }
    match catch(|| erbium::dhcp::verif::to_array(&m.chaddr)) {
        None => {
            t.n(2).n(3);
        }
        Some(a) => {
            t.n(0).n(n).n(f);
            put_array(&mut t, a);
        }
    }
    t
}

pub fn case_to_array(mac: &[u8]) -> Toks {
    let mut t = Toks::new();
    t.n(103).bytes(mac);
    match catch(|| erbium::dhcp::verif::to_array(mac)) {
        None => {
            t.n(2);
        }
        Some(a) => {
            t.n(0);
            put_array(&mut t, a);
        }
    }
    t
}

pub fn case_subnet(addr: u32, plen: u8) -> Toks {
    let mut t = Toks::new();
    t.n(104).n(addr as u64).n(plen as u64);
    match catch(|| erbium_net::Ipv4Subnet::new(addr.into(), plen).map(|s| (s, s.netmask(), format!("{}", s)))) {
        None => {
            t.n(2);
        }
        Some(Err(_)) => {
            t.n(1).n(1);
        }
        Some(Ok((s, m, _))) => {
            t.n(0).ip4(s.addr).n(s.prefixlen as u64).ip4(m);
        }
    }
    t
}

// ---------------------------------------------------------------- generator
pub const LENS: [usize; 12] = [0, 1, 2, 3, 4, 5, 7, 8, 9, 16, 17, 255];

fn content(r: &mut Rng, len: usize, style: u64) -> Vec<u8> {
    match style {
        0 => vec![0xff; len],
        1 => vec![0; len],
        2 => (0..len).map(|i| if i % 9 == 0 { 24 } else { 0 }).collect(), // reads as /24 routes of 0.0.0.0
        3 => (0..len).map(|i| [3u8, b'w', b'w', b'w', 0][i % 5]).collect(), // reads as a domain list
        _ => r.bytes(len),
    }
}

/// option 121 values: routes with a chosen prefix length
fn routes_value(r: &mut Rng, plen: u8, st: &mut Stats) -> Vec<u8> {
    let mut v = vec![];
    for _ in 0..r.range(0, 2) {
        let p = r.range(0, 32) as u32;
        let mask: u32 = if p == 0 { 0 } else { !0u32 << (32 - p) };
        v.push(p as u8);
        v.extend((r.next() as u32 & mask).to_be_bytes());
        v.extend(r.bytes(4));
    }
    v.push(plen);
    let addr: u32 = match r.below(4) {
        0 => 0,
        1 => {
            let p = (plen as u32).min(32);
            let mask: u32 = if p == 0 { 0 } else { !0u32 << (32 - p) };
            r.next() as u32 & mask
        }
        2 => 0xffff_ffff,
        _ => r.next() as u32,
    };
    v.extend(addr.to_be_bytes());
    v.extend(r.bytes(4));
    if r.chance(1, 5) {
        let k = r.range(0, 8) as usize;
        let l = v.len();
        v.truncate(l - k);
        st.bump("dhcpopt.routes.truncated");
    }
    v
}

/// option 119 values: label sequences with good and bad lengths
fn domains_value(r: &mut Rng, st: &mut Stats) -> Vec<u8> {
    let mut v = vec![];
    for _ in 0..r.range(0, 3) {
        for _ in 0..r.range(0, 3) {
            let l = *r.pick(&[1usize, 3, 7, 63, 64, 200]);
            v.push(l as u8);
            v.extend((0..l).map(|i| b"example"[i % 7]));
        }
        v.push(0);
    }
    match r.below(6) {
        0 => {
            st.bump("dhcpopt.domains.badlabel");
            v.push(*r.pick(&[1u8, 2, 63, 64, 192, 255]));
            v.extend(rb(r, 0, 2));
        }
        1 => {
            st.bump("dhcpopt.domains.unterminated");
            v.pop();
        }
        2 => {
            st.bump("dhcpopt.domains.pointer");
            v.extend([0xc0, 0x00]);
        }
        3 if !v.is_empty() => {
            st.bump("dhcpopt.domains.mutated");
            let k = r.below(v.len() as u64) as usize;
            v[k] = *r.pick(&[0u8, 1, 254, 255, v[k].wrapping_add(1), v[k].wrapping_sub(1)]);
        }
        _ => {
            st.bump("dhcpopt.domains.valid");
        }
    }
    v.truncate(255 * 3);
    v
}

fn option_value(r: &mut Rng, code: u8, st: &mut Stats) -> Vec<u8> {
    match code {
        121 => {
            let plen = r.byte();
            routes_value(r, plen, st)
        }
        119 => domains_value(r, st),
        _ => {
            let len = *r.pick(&LENS);
            let style = r.below(6);
            content(r, len, style)
        }
    }
}

/// raw BOOTP/DHCP datagram with the given hlen and options (values may exceed 255: split)
pub fn raw_packet(r: &mut Rng, hlen: u8, opts: &[(u8, Vec<u8>)], end: bool) -> Vec<u8> {
    let mut p = vec![1u8, 1, hlen, 0];
    p.extend(r.bytes(4)); // xid
    p.extend([0, 0, if r.chance(1, 2) { 0x80 } else { 0 }, 0]);
    p.extend([0u8; 16]); // ciaddr yiaddr siaddr giaddr
    p.extend(r.bytes(16)); // chaddr
    p.extend([0u8; 64]);
    p.extend([0u8; 128]);
    p.extend([99, 130, 83, 99]);
    for (c, v) in opts {
        let mut rest: &[u8] = v;
        loop {
            let k = rest.len().min(255);
            p.push(*c);
            p.push(k as u8);
            p.extend(&rest[..k]);
            rest = &rest[k..];
            if rest.is_empty() {
                break;
            }
        }
    }
    if end {
        p.push(255);
    }
    p
}

fn gen_packet(r: &mut Rng, st: &mut Stats) -> Vec<u8> {
    let hlen = *r.pick(&[6u8, 6, 6, 6, 0, 1, 5, 7, 8, 16, 17, 255]);
    if hlen < 6 {
        st.bump("dhcpopt.pkt.hlen<6");
    }
    let mut opts: Vec<(u8, Vec<u8>)> = vec![(53, vec![*r.pick(&[1u8, 3, 7, 8])])];
    for _ in 0..r.range(0, 5) {
        let code = match r.below(5) {
            0 => 121,
            1 => 119,
            2 => *r.pick(&[51u8, 2, 57, 58, 24, 26, 1, 50, 54, 12, 61, 55, 3, 6]),
            _ => r.range(1, 254) as u8,
        };
        let v = option_value(r, code, st);
        opts.push((code, v));
    }
    let end = !r.chance(1, 20);
    let mut p = raw_packet(r, hlen, &opts, end);
    match r.below(12) {
        0 => {
            st.bump("dhcpopt.pkt.truncated");
            let k = r.range(0, p.len() as u64) as usize;
            p.truncate(k);
        }
        1 => {
            st.bump("dhcpopt.pkt.lenmut");
            if p.len() > 242 {
                let k = r.range(241, p.len() as u64 - 1) as usize;
                p[k] = *r.pick(&[0u8, 1, 254, 255, p[k].wrapping_add(1)]);
            }
        }
        _ => {}
    }
    p
}

fn rb(r: &mut Rng, lo: u64, hi: u64) -> Vec<u8> {
    let k = r.range(lo, hi) as usize;
    r.bytes(k)
}
#[allow(dead_code)]
fn rp(r: &mut Rng, lens: &[usize]) -> Vec<u8> {
    let k = *r.pick(lens);
    r.bytes(k)
}

fn emit(out: &mut dyn Write, t: Toks) {
    writeln!(out, "{}", t.0).unwrap();
}

pub fn run(args: &Args, out: &mut dyn Write) -> Stats {
    crate::c05_log::install();
    let mut st = Stats::default();
    if let Some(path) = &args.replay {
        for line in std::fs::read_to_string(path).expect("replay file").lines() {
            let toks = parse_tokens(line);
            if toks.is_empty() || !(100..200).contains(&toks[0]) {
                continue;
            }
            let bytes_at = |i: usize| -> Option<Vec<u8>> {
                let n = *toks.get(i)? as usize;
                if toks.len() < i + 1 + n {
                    return None;
                }
                Some(toks[i + 1..i + 1 + n].iter().map(|&x| x as u8).collect())
            };
            st.bump("dhcpopt.replay");
            match toks[0] {
                100 => {
                    if let Some(v) = bytes_at(2) {
                        emit(out, case_decode(toks[1] as u8, &v));
                    }
                }
                101 => {
                    if let Some(v) = bytes_at(2) {
                        emit(out, case_parse(toks[1], &v));
                    }
                }
                102 => {
                    if let Some(v) = bytes_at(1) {
                        emit(out, case_recv(&v));
                    }
                }
                103 => {
                    if let Some(v) = bytes_at(1) {
                        emit(out, case_to_array(&v));
                    }
                }
                104 if toks.len() >= 3 => emit(out, case_subnet(toks[1] as u32, toks[2] as u8)),
                _ => {}
            }
        }
        return st;
    }
    let thorough = args.tier == "thorough";
    let mut r = Rng::new(args.seed ^ 0xd4c9);
    // -- systematic: every option code x value lengths x contents
    let styles: &[u64] = if thorough { &[0, 1, 2, 3, 4, 5] } else { &[0, 4] };
    for code in 0..=255u8 {
        for &len in LENS.iter() {
            for &s in styles {
                st.bump("dhcpopt.sys.code-x-len");
                let v = content(&mut r, len, s);
                emit(out, case_decode(code, &v));
            }
        }
    }
    if thorough {
        // every code x every length 0..48 x two contents
        for code in 0..=255u8 {
            for len in 0..=48usize {
                st.bump("dhcpopt.sys.code-x-len2");
                emit(out, case_decode(code, &content(&mut r, len, 3)));
                emit(out, case_decode(code, &content(&mut r, len, 5)));
            }
        }
        // option 121: every prefix length x every address pattern x every number of octets behind
        for plen in 0..=255u8 {
            for follow in 0..=9usize {
                for a in [0u8, 0x80, 0xff, 0x01] {
                    st.bump("dhcpopt.sys.routes2");
                    let mut v = vec![plen];
                    v.extend(std::iter::repeat(a).take(follow));
                    emit(out, case_decode(121, &v));
                }
            }
        }
    }
    // every integer-typed option with every length 0..17 and all-ones octets (the folds `(acc << 8) + v`)
    for code in [2u8, 21, 24, 26, 35, 37, 38, 51, 57, 58, 59, 108, 23, 19] {
        for len in 0..=17usize {
            st.bump("dhcpopt.sys.intfold");
            emit(out, case_decode(code, &vec![0xff; len]));
            emit(out, case_decode(code, &vec![0x7f; len]));
            emit(out, case_decode(code, &vec![0x80; len]));
        }
    }
    for len in 0..=17usize {
        for b in [0xffu8, 0x7f, 0x80, 0x01] {
            st.bump("dhcpopt.sys.u64");
            emit(out, case_parse(0, &vec![b; len]));
            emit(out, case_parse(2, &vec![b; len]));
            emit(out, case_parse(1, &vec![b; len]));
        }
    }
    // option 121: every prefix length 0..255, with 0..8 octets behind it
    for plen in 0..=255u8 {
        for follow in [8usize, 8, 4, 3, 0, 7] {
            st.bump("dhcpopt.sys.routes");
            let mut v = vec![plen];
            v.extend(std::iter::repeat(0u8).take(follow));
            emit(out, case_decode(121, &v));
        }
        let v = routes_value(&mut r, plen, &mut st);
        emit(out, case_decode(121, &v));
        // and inside a packet, as the server meets it
        let pkt = raw_packet(&mut r, 6, &[(53, vec![1]), (121, v)], true);
        emit(out, case_recv(&pkt));
        for addr in [0u32, 0xffff_ffff, 0x8000_0000, 1, 0xc000_0200] {
            st.bump("dhcpopt.sys.subnet");
            emit(out, case_subnet(addr, plen));
        }
        if plen <= 32 {
            let mask: u32 = if plen == 0 { 0 } else { !0u32 << (32 - plen as u32) };
            emit(out, case_subnet(0xc0a8_fffe & mask, plen));
            emit(out, case_subnet((0xc0a8_fffe & mask) | (!mask & 1), plen));
            emit(out, case_subnet((0xc0a8_fffe & mask) | (!mask & 0x8000_0000u32.checked_shr(plen as u32).unwrap_or(0)), plen));
        }
    }
    // to_array: every length 0..20; packets with every hlen
    for len in 0..=20usize {
        st.bump("dhcpopt.sys.to_array");
        emit(out, case_to_array(&(1..=len as u8).collect::<Vec<u8>>()));
    }
    for hlen in 0..=255u8 {
        st.bump("dhcpopt.sys.hlen");
        let pkt = raw_packet(&mut r, hlen, &[(53, vec![1]), (12, b"host".to_vec())], true);
        emit(out, case_recv(&pkt));
    }
    // -- random part
    for i in 0..args.n {
        match i % 4 {
            0 => {
                st.bump("dhcpopt.rand.routes");
                let plen = if r.chance(1, 2) { r.range(0, 40) as u8 } else { r.byte() };
                let v = routes_value(&mut r, plen, &mut st);
                emit(out, case_decode(121, &v));
            }
            1 => {
                st.bump("dhcpopt.rand.domains");
                let v = domains_value(&mut r, &mut st);
                emit(out, case_decode(119, &v));
            }
            2 => {
                st.bump("dhcpopt.rand.decode");
                let code = r.byte();
                let v = option_value(&mut r, code, &mut st);
                emit(out, case_decode(code, &v));
            }
            _ => {
                if r.chance(1, 40) {
                    st.bump("dhcpopt.rand.arbitrary");
                    let k = *r.pick(&[0usize, 1, 239, 240, 241, 243, 300, 1500, 65535]);
                    let mut p = r.bytes(k);
                    if k > 240 && r.chance(1, 2) {
                        p[236..240].copy_from_slice(&[99, 130, 83, 99]);
                        p[2] = 6;
                    }
                    emit(out, case_recv(&p));
                } else {
                    st.bump("dhcpopt.rand.packet");
                    let p = gen_packet(&mut r, &mut st);
                    emit(out, case_recv(&p));
                }
            }
        }
    }
    st
}

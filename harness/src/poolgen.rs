//! Shared generator + runner for the lease-store properties C01, C09, C10.
//! A case is a whole history (token grammar in coq/Model/PoolEntry.v):
//!
//!   case  := nev event*
//!   event := 1 via cidmode reqmode alt client req pool tmin tmax tlo thi answer opt51 rows
//!          | 2 d
//!          | 3 rows
//!          | 4 rows                      (Kill: rows of a copy of the store files taken while open)
//!          | 5 ...as 1...                (Alloc whose reply is lost)
//!          | 6 ...as 1...                (Alloc while another connection holds the store's write lock)
//!          | 7 k                         (C18, last event: the same events run again WITHOUT the restarts give a
//!                                         different address / refusal at the k-th allocation; 0: the same throughout)
//!
//! The real code is `erbium::dhcp::pool::Pool::allocate_address` (via 0) or
//! `erbium::dhcp::handle_pkt` with a DISCOVER (via 1) / REQUEST (via 2) packet.
//! The store is a file under /dev/shm opened through the `verif_open` hook so
//! that Restart really closes and reopens it; "d seconds pass" is one
//! `UPDATE leases SET start=start-d, expiry=expiry-d` on `verif_conn()`
//! (stored timestamps move into the past) and every
//! timestamp the harness prints is absolute = wall clock + seconds ticked so far.
use crate::util::*;
use erbium::dhcp;
use erbium::dhcp::dhcppkt;
use erbium::dhcp::pool;
use std::io::Write;
use std::net::Ipv4Addr;

const BASE: u32 = 0xC000_0200; // 192.0.2.0
const CHADDR_FIXED: [u8; 6] = [2, 0, 0, 0, 0, 1];

#[derive(Clone, Debug)]
pub enum Ev {
    Alloc {
        via: u8,
        cidmode: u8,
        reqmode: u8,
        alt: u32,
        client: Vec<u8>,
        req: Option<u32>,
        pool: Vec<u32>,
        tmin: u64,
        tmax: u64,
        /// the reply is produced but never reaches the client (crash before the send, packet
        /// loss, a duplicate ACK the client discards): same execution, event token 5
        lost: bool,
        /// the step runs while ANOTHER connection to the store file holds the write lock
        /// (BEGIN IMMEDIATE ... ROLLBACK around it): event token 6
        locked: bool,
    },
    Tick(u32),
    Restart,
    /// what a SIGKILL at this instant leaves behind: the database file (and any -journal/-wal)
    /// copied while the connection is still open, the copy opened and dumped
    Kill,
}

fn wall() -> u64 {
    std::time::SystemTime::now().duration_since(std::time::UNIX_EPOCH).unwrap().as_secs()
}

pub struct World {
    path: std::path::PathBuf,
    pool: Option<pool::Pool>,
    shift: u64,
    /// what the implementation did, for the adaptive generator
    pub granted: Vec<(Vec<u8>, u32, u64)>, // (client, ip, secs) newest last
    pub last_secs: u64,
    /// the answer of every allocation so far: the address, or the refusal code
    pub answers: Vec<Result<u32, u64>>,
}

#[allow(clippy::type_complexity)]
fn raw_rows(conn: &rusqlite::Connection) -> Vec<(String, Option<Vec<u8>>, i64, i64)> {
    let mut st = match conn.prepare("SELECT address, clientid, start, expiry FROM leases ORDER BY address") {
        Ok(s) => s,
        Err(_) => return vec![],
    };
    let it = st.query_map([], |row| Ok((row.get(0)?, row.get(1)?, row.get(2)?, row.get(3)?)));
    match it {
        Ok(rows) => rows.filter_map(|r| r.ok()).collect(),
        Err(_) => vec![],
    }
}

static COUNTER: std::sync::atomic::AtomicU64 = std::sync::atomic::AtomicU64::new(0);

impl World {
    pub fn new_mem() -> World {
        let p = pool::Pool::new_in_memory().expect("open in-memory store");
        World { path: std::path::PathBuf::new(), pool: Some(p), shift: 0, granted: vec![], last_secs: 300, answers: vec![] }
    }

    pub fn new() -> World {
        let k = COUNTER.fetch_add(1, std::sync::atomic::Ordering::SeqCst);
        let dir = if std::path::Path::new("/dev/shm").is_dir() { "/dev/shm".to_string() } else { ".".to_string() };
        let path = std::path::PathBuf::from(format!("{}/verif-pool-{}-{}.sqlite", dir, std::process::id(), k));
        let _ = std::fs::remove_file(&path);
        let p = pool::Pool::verif_open(path.to_str().unwrap()).expect("open store");
        World { path, pool: Some(p), shift: 0, granted: vec![], last_secs: 300, answers: vec![] }
    }

    fn rows(&mut self, t: &mut Toks) {
        let shift = self.shift;
        Self::rows_of(self.pool.as_mut().unwrap(), shift, t);
    }

    fn rows_of(p: &mut pool::Pool, shift: u64, t: &mut Toks) {
        match p.get_leases() {
            Ok(mut ls) => {
                ls.sort_by_key(|l| u32::from(l.ip));
                t.n(ls.len() as u64);
                for l in ls {
                    t.ip4(l.ip).bytes(&l.client_id).n(l.start as u64 + shift).n(l.expire as u64 + shift);
                }
            }
            Err(_) => {
                // unreadable store: report the raw rows instead so the case still decodes
                let raw = raw_rows(p.verif_conn());
                t.n(raw.len() as u64);
                for (a, c, s, e) in raw {
                    let ip: Ipv4Addr = a.parse().unwrap_or(Ipv4Addr::UNSPECIFIED);
                    t.ip4(ip).bytes(&c.unwrap_or_default());
                    t.n((s + shift as i64).max(0) as u64).n((e + shift as i64).max(0) as u64);
                }
            }
        }
    }

    /// Runs one event on the real code and appends its tokens (input and output).
    pub fn exec(&mut self, ev: &Ev, t: &mut Toks, stats: &mut Stats) {
        match ev {
            Ev::Tick(d) => {
                self.pool
                    .as_ref()
                    .unwrap()
                    .verif_conn()
                    .execute("UPDATE leases SET start = start - ?1, expiry = expiry - ?1", rusqlite::params![*d])
                    .expect("shift");
                self.shift += *d as u64;
                t.n(2).n(*d as u64);
                stats.bump("ev.tick");
            }
            Ev::Kill => {
                assert!(!self.path.as_os_str().is_empty(), "kill needs a file store");
                let src = self.path.to_str().unwrap().to_string();
                let dst = format!("{}.kill", src);
                for suffix in ["", "-journal", "-wal", "-shm"] {
                    let _ = std::fs::remove_file(format!("{}{}", dst, suffix));
                    let from = format!("{}{}", src, suffix);
                    if std::path::Path::new(&from).exists() {
                        std::fs::copy(&from, format!("{}{}", dst, suffix)).expect("copy store");
                        if !suffix.is_empty() {
                            stats.bump("kill.with-journal-or-wal");
                        }
                    }
                }
                t.n(4);
                match pool::Pool::verif_open(&dst) {
                    Ok(mut copy) => {
                        Self::rows_of(&mut copy, self.shift, t);
                    }
                    Err(_) => {
                        t.n(0);
                        stats.bump("kill.copy-does-not-open");
                    }
                }
                for suffix in ["", "-journal", "-wal", "-shm"] {
                    let _ = std::fs::remove_file(format!("{}{}", dst, suffix));
                }
                stats.bump("ev.kill");
            }
            Ev::Restart => {
                assert!(!self.path.as_os_str().is_empty(), "restart needs a file store");
                self.pool = None; // closes the connection
                self.pool = Some(pool::Pool::verif_open(self.path.to_str().unwrap()).expect("reopen store"));
                t.n(3);
                self.rows(t);
                stats.bump("ev.restart");
            }
            Ev::Alloc { via, cidmode, reqmode, alt, client, req, pool: addrs, tmin, tmax, lost, locked } => {
                if *lost {
                    stats.bump("ev.alloc.reply-lost");
                }
                if *locked {
                    stats.bump("ev.alloc.store-locked");
                }
                t.n(if *locked { 6 } else if *lost { 5 } else { 1 }).n(*via as u64).n(*cidmode as u64).n(*reqmode as u64).n(*alt as u64);
                t.bytes(client);
                match req {
                    None => {
                        t.n(0);
                    }
                    Some(r) => {
                        t.n(1).n(*r as u64);
                    }
                }
                t.n(addrs.len() as u64);
                for a in addrs {
                    t.n(*a as u64);
                }
                t.n(*tmin).n(*tmax);
                let set: pool::PoolAddresses = addrs.iter().map(|a| Ipv4Addr::from(*a)).collect();
                let blocker = if *locked {
                    assert!(!self.path.as_os_str().is_empty(), "a locked step needs a file store");
                    let c = rusqlite::Connection::open(&self.path).expect("second connection");
                    c.execute_batch("BEGIN IMMEDIATE").expect("take the write lock");
                    // do not wait 5 s (rusqlite's default busy timeout) for a lock that will not go away
                    self.pool.as_ref().unwrap().verif_conn().busy_timeout(std::time::Duration::from_millis(0)).expect("busy_timeout");
                    Some(c)
                } else {
                    None
                };
                let p = self.pool.as_mut().unwrap();
                let mut opt51: Option<u64> = None;
                let t_before = wall();
                // answer: Ok((ip, secs, kind)) | Err(code)
                let ans: Result<(u32, u64, u64), u64> = if *via == 0 {
                    let r = catch(|| {
                        p.allocate_address(
                            client,
                            req.map(Ipv4Addr::from),
                            &set,
                            std::time::Duration::from_secs(*tmin),
                            std::time::Duration::from_secs(*tmax),
                            b"",
                        )
                    });
                    match r {
                        None => Err(4),
                        Some(Ok(l)) => Ok((
                            u32::from(l.ip),
                            l.expire.as_secs(),
                            match l.lease_type {
                                pool::LeaseType::NewAddress => 0,
                                pool::LeaseType::ReusingLease => 1,
                                pool::LeaseType::Requested => 2,
                                pool::LeaseType::Revived => 3,
                            },
                        )),
                        Some(Err(pool::Error::NoAssignableAddress)) => Err(1),
                        Some(Err(pool::Error::RequestedAddressInUse)) => Err(2),
                        Some(Err(_)) => Err(3),
                    }
                } else {
                    let request = mk_request(*via, *cidmode, *reqmode, *alt, client, *req);
                    let conf = mk_config(&set, *reqmode);
                    let r = catch(|| dhcp::handle_pkt(p, &request, Default::default(), &conf));
                    match r {
                        None => Err(4),
                        Some(Ok(reply)) => {
                            if let Some(v) = reply.options.other.get(&dhcppkt::OPTION_LEASETIME) {
                                if v.len() == 4 {
                                    opt51 = Some(u32::from_be_bytes([v[0], v[1], v[2], v[3]]) as u64);
                                } else {
                                    opt51 = Some((1u64 << 40) + v.len() as u64); // malformed: never equals a lease time
                                }
                            }
                            Ok((u32::from(reply.yiaddr), 0, 4))
                        }
                        Some(Err(dhcp::DhcpError::PoolError(pool::Error::NoAssignableAddress))) => Err(1),
                        Some(Err(dhcp::DhcpError::PoolError(pool::Error::RequestedAddressInUse))) => Err(2),
                        Some(Err(_)) => Err(3),
                    }
                };
                let t_after = wall();
                self.answers.push(ans.map(|(ip, _, _)| ip));
                if let Some(c) = blocker {
                    c.execute_batch("ROLLBACK").expect("release the write lock");
                    drop(c);
                    self.pool.as_ref().unwrap().verif_conn().busy_timeout(std::time::Duration::from_millis(5000)).expect("busy_timeout");
                }
                t.n(t_before + self.shift).n(t_after + self.shift);
                if t_after != t_before {
                    stats.bump("clock.second-boundary-inside-call");
                }
                match ans {
                    Ok((ip, secs, kind)) => {
                        t.n(0).n(ip as u64).n(secs).n(kind);
                        stats.bump(match kind {
                            0 => "ans.new",
                            1 => "ans.reusing",
                            2 => "ans.requested",
                            3 => "ans.revived",
                            _ => "ans.granted-via-handle_pkt",
                        });
                    }
                    Err(c) => {
                        t.n(c);
                        stats.bump(match c {
                            1 => "ans.no-address",
                            2 => "ans.in-use",
                            3 => "ans.error",
                            _ => "ans.panic",
                        });
                    }
                }
                match opt51 {
                    None => {
                        t.n(0);
                    }
                    Some(v) => {
                        t.n(1).n(v);
                    }
                }
                // the rows; remember the grant for the generator
                let before = t.0.len();
                self.rows(t);
                if let Ok((ip, secs, _)) = ans {
                    let secs = if *via == 0 { secs } else { opt51.unwrap_or(self.row_secs(&t.0[before..], ip)) };
                    self.granted.push((client.clone(), ip, secs));
                    self.last_secs = secs;
                }
                stats.bump(match via {
                    0 => "ev.alloc.direct",
                    1 => "ev.alloc.discover",
                    _ => "ev.alloc.request",
                });
                stats.bump(match req {
                    None => "req.none",
                    Some(r) if addrs.contains(r) => "req.in-pool",
                    Some(_) => "req.outside-pool",
                });
            }
        }
    }

    fn row_secs(&self, rows_toks: &str, ip: u32) -> u64 {
        // rows := n (addr len bytes* start expiry)*
        let v = parse_tokens(rows_toks);
        let mut i = 1;
        while i < v.len() {
            let a = v[i];
            let l = v[i + 1] as usize;
            let s = v[i + 2 + l];
            let e = v[i + 3 + l];
            if a == ip as u64 {
                return e.saturating_sub(s);
            }
            i += 4 + l;
        }
        300
    }
}

impl Drop for World {
    fn drop(&mut self) {
        self.pool = None;
        if self.path.as_os_str().is_empty() {
            return;
        }
        let _ = std::fs::remove_file(&self.path);
        let _ = std::fs::remove_file(format!("{}-journal", self.path.display()));
    }
}

/// Packet for handle_pkt.  cidmode 0: client = chaddr, no option 61; 1: option 61 =
/// client, chaddr = a fixed address (which is also the id of a chaddr-only client).
/// reqmode 0: option 50 = req; 1: ciaddr = req (REQUEST); 2: REQUEST with ciaddr = req and
/// option 50 = alt (ciaddr wins); 3: DISCOVER with ciaddr = alt and option 50 = req
/// (DISCOVER ignores ciaddr).  reqmode >> 3: option 51 suggested by the client (SUGGESTED).
/// reqmode + 4: additionally a policy that tries to set
/// option 51 itself and a parameter list asking for it.
/// lease times a client may suggest in option 51 of its own DISCOVER/REQUEST
/// (reqmode >> 3 = 1 + index; 0 = the option is absent); the server ignores it
pub const SUGGESTED: [u32; 10] = [0, 1, 60, 299, 300, 301, 86400, 86401, 1_000_000, u32::MAX];

fn mk_request(via: u8, cidmode: u8, reqmode: u8, alt: u32, client: &[u8], req: Option<u32>) -> dhcp::DHCPRequest {
    let mut options = dhcppkt::DhcpOptions::default();
    let sug = ((reqmode & 0x7f) >> 3) as usize;
    if reqmode & 128 != 0 {
        options.other.insert(dhcppkt::OPTION_SERVERID, vec![192, 0, 2, 254]);
    }
    if sug >= 1 && sug <= SUGGESTED.len() {
        options.other.insert(dhcppkt::OPTION_LEASETIME, SUGGESTED[sug - 1].to_be_bytes().to_vec());
    }
    let mt = if via == 1 { dhcppkt::DHCPDISCOVER } else { dhcppkt::DHCPREQUEST };
    options = options.set_option(&dhcppkt::OPTION_MSGTYPE, &mt);
    options.other.insert(dhcppkt::OPTION_PARAMLIST, vec![1, 3, 6, 51, 58, 59]);
    let chaddr = if cidmode == 0 {
        client.to_vec()
    } else {
        options.other.insert(dhcppkt::OPTION_CLIENTID, client.to_vec());
        CHADDR_FIXED.to_vec()
    };
    let mut ciaddr = Ipv4Addr::UNSPECIFIED;
    match reqmode & 3 {
        0 => {
            if let Some(r) = req {
                options.other.insert(dhcppkt::OPTION_ADDRESSREQUEST, r.to_be_bytes().to_vec());
            }
        }
        1 => {
            if let Some(r) = req {
                ciaddr = Ipv4Addr::from(r);
            }
        }
        2 => {
            if let Some(r) = req {
                ciaddr = Ipv4Addr::from(r);
            }
            options.other.insert(dhcppkt::OPTION_ADDRESSREQUEST, alt.to_be_bytes().to_vec());
        }
        _ => {
            ciaddr = Ipv4Addr::from(alt);
            if let Some(r) = req {
                options.other.insert(dhcppkt::OPTION_ADDRESSREQUEST, r.to_be_bytes().to_vec());
            }
        }
    }
    dhcp::DHCPRequest {
        pkt: dhcppkt::Dhcp {
            op: dhcppkt::OP_BOOTREQUEST,
            htype: dhcppkt::HWTYPE_ETHERNET,
            hlen: 6,
            hops: 0,
            xid: 0x1234_5678,
            secs: 0,
            flags: 0,
            ciaddr,
            yiaddr: Ipv4Addr::UNSPECIFIED,
            siaddr: Ipv4Addr::UNSPECIFIED,
            giaddr: Ipv4Addr::UNSPECIFIED,
            chaddr,
            sname: vec![],
            file: vec![],
            options,
        },
        serverip: Ipv4Addr::new(192, 0, 2, 254),
        ifindex: 1,
        if_mtu: None,
        if_router: None,
    }
}

fn mk_config(set: &pool::PoolAddresses, reqmode: u8) -> erbium::config::Config {
    let mut policy = dhcp::config::Policy::default();
    policy.match_all = true;
    policy.apply_address = Some(set.clone());
    if reqmode & 4 != 0 {
        policy
            .apply_other
            .insert(dhcppkt::OPTION_LEASETIME, Some(dhcppkt::DhcpOptionTypeValue::U32(7777)));
    }
    erbium::config::Config { dhcp: dhcp::config::Config { policies: vec![policy] }, ..Default::default() }
}

// ------------------------------------------------------------------ generator
#[derive(Clone, Copy, PartialEq, Debug)]
pub enum Profile {
    Mixed,
    MultiLease,
    Renewal,
    Exhaust,
}

pub struct Gen {
    pub profile: Profile,
    clients: Vec<(Vec<u8>, u8)>, // id, cidmode
    subnets: Vec<Vec<u32>>,
    cur_pool: Vec<u32>,
    tmin: u64,
    tmax: u64,
    via_bias: u64, // out of 10: how often through handle_pkt
    steps_left: usize,
    last_client: usize,
    lost_pct: u64,
    kill_pct: u64,
    locked_pct: u64,
}

fn subset(r: &mut Rng, from: &[u32], k: usize) -> Vec<u32> {
    let mut v = from.to_vec();
    for i in 0..v.len() {
        let j = i + r.below((v.len() - i) as u64) as usize;
        v.swap(i, j);
    }
    v.truncate(k.max(1).min(from.len()));
    v
}

impl Gen {
    pub fn new(r: &mut Rng, profile: Profile, thorough: bool) -> Gen {
        // three overlapping "subnets" of the documentation prefix
        let s1: Vec<u32> = (1..=8).map(|i| BASE + i).collect();
        let s2: Vec<u32> = (5..=12).map(|i| BASE + i).collect();
        let s3: Vec<u32> = (11..=16).map(|i| BASE + i).collect();
        let nclients = match profile {
            Profile::Renewal => r.range(1, 2),
            Profile::Exhaust => r.range(3, 6),
            _ => r.range(2, 5),
        } as usize;
        let mut clients = vec![];
        for i in 0..nclients {
            let kind = r.below(10);
            let c = if i == 0 && kind < 5 {
                (CHADDR_FIXED.to_vec(), 0) // chaddr-only client whose id is the fixed chaddr of the option-61 clients
            } else if kind < 4 {
                (vec![0, 0, 0x5E, 0, 0x53, i as u8], 0)
            } else if kind < 8 {
                (vec![1, 0xAA, i as u8], 1)
            } else if kind == 8 {
                {
                let k = 1 + r.below(20) as usize;
                (r.bytes(k), 1)
            }
            } else {
                (vec![i as u8; 1 + i], 1)
            };
            if !clients.iter().any(|(id, _)| *id == c.0) {
                clients.push(c);
            }
        }
        if r.chance(1, 12) && !clients.iter().any(|(id, _): &(Vec<u8>, u8)| id.is_empty()) {
            clients.push((vec![], 1)); // empty client identifier option
        }
        let (tmin, tmax) = match r.below(10) {
            0..=3 => (300, 86400),
            4 => (5, 60),
            5 => (10, 10),
            6 => (0, 20),
            7 => (1, 4000),
            8 => (300, 900),
            _ => (r.range(0, 50), r.range(50, 2000)),
        };
        let lost_pct = *r.pick(&[0u64, 0, 10, 25]);
        let (tmin, tmax) = if lost_pct > 0 { (300, 86400) } else { (tmin, tmax) };
        let subnets = vec![s1, s2, s3];
        let cur_pool = match profile {
            Profile::Exhaust => {
                let k = r.range(1, 3) as usize;
                subset(r, &subnets[0], k)
            }
            Profile::Renewal => {
                let k = r.range(1, 4) as usize;
                subset(r, &subnets[0], k)
            }
            _ => {
                let s = r.below(3) as usize;
                let k = r.range(1, subnets[s].len() as u64) as usize;
                subset(r, &subnets[s], k)
            }
        };
        let steps = match profile {
            Profile::Renewal => r.range(10, 40),
            _ => r.range(6, if thorough { 120 } else { 45 }),
        } as usize;
        Gen {
            profile,
            clients,
            subnets,
            cur_pool,
            tmin,
            tmax,
            via_bias: *r.pick(&[0, 3, 5, 10]),
            steps_left: steps,
            last_client: 0,
            lost_pct,
            kill_pct: 3,
            locked_pct: *r.pick(&[0u64, 0, 0, 10]),
        }
    }

    fn tick_value(&self, r: &mut Rng, w: &World) -> u32 {
        let s = w.last_secs;
        let cands: [u64; 14] = [
            0,
            1,
            self.tmin.saturating_sub(1),
            self.tmin,
            self.tmin + 1,
            2 * self.tmin,
            self.tmax,
            self.tmax + 1,
            s.saturating_sub(1),
            s,
            s + 1,
            s / 2,
            s / 8,
            2 * s,
        ];
        (*r.pick(&cands)).min(200_000) as u32
    }

    pub fn next(&mut self, r: &mut Rng, w: &World) -> Option<Ev> {
        if self.steps_left == 0 {
            return None;
        }
        self.steps_left -= 1;
        if r.below(100) < self.kill_pct {
            return Some(Ev::Kill);
        }
        let p = r.below(100);
        match self.profile {
            Profile::Renewal => {
                if p < 40 {
                    let s = w.last_secs;
                    let d = *r.pick(&[s / 2, s / 8, 1, 2 * s, s.saturating_sub(1), s, s + 1, s / 3, (s / 3) + 1, 0]);
                    return Some(Ev::Tick(d.min(200_000) as u32));
                }
                if p < 43 {
                    return Some(Ev::Restart);
                }
            }
            _ => {
                if p < 28 {
                    return Some(Ev::Tick(self.tick_value(r, w)));
                }
                if p < 32 {
                    return Some(Ev::Restart);
                }
            }
        }
        // pool change between messages
        let q = r.below(100);
        let change = match self.profile {
            Profile::MultiLease => 45,
            Profile::Mixed => 25,
            Profile::Exhaust => 10,
            Profile::Renewal => 5,
        };
        if q < change {
            match r.below(5) {
                0 | 1 => {
                    // another subnet (overlapping or not)
                    let s = r.below(3) as usize;
                    let maxk = if self.profile == Profile::Exhaust { 3 } else { self.subnets[s].len() as u64 };
                    let k = r.range(1, maxk) as usize;
                    self.cur_pool = subset(r, &self.subnets[s], k);
                }
                2 => {
                    // shrink: drop the address most recently granted (to anyone) from the pool
                    if let Some((_, ip, _)) = w.granted.last() {
                        if self.cur_pool.len() > 1 {
                            self.cur_pool.retain(|a| a != ip);
                        }
                    }
                }
                3 => {
                    // exactly the addresses granted so far plus at most one free one
                    let mut v: Vec<u32> = w.granted.iter().map(|g| g.1).collect();
                    v.sort();
                    v.dedup();
                    if r.chance(1, 2) {
                        v.push(BASE + r.range(1, 16) as u32);
                        v.sort();
                        v.dedup();
                    }
                    if !v.is_empty() {
                        v.truncate(12);
                        self.cur_pool = v;
                    }
                }
                _ => {
                    // a single address somebody held
                    if !w.granted.is_empty() {
                        let g = &w.granted[r.below(w.granted.len() as u64) as usize];
                        self.cur_pool = vec![g.1];
                    }
                }
            }
        }
        // who
        let ci = match self.profile {
            Profile::Renewal if r.chance(9, 10) => self.last_client,
            Profile::MultiLease if r.chance(6, 10) => self.last_client,
            _ => r.below(self.clients.len() as u64) as usize,
        };
        self.last_client = ci;
        let (client, cidmode) = self.clients[ci].clone();
        // requested address
        let mine: Vec<u32> = w.granted.iter().filter(|g| g.0 == client).map(|g| g.1).collect();
        let others: Vec<u32> = w.granted.iter().filter(|g| g.0 != client).map(|g| g.1).collect();
        let req = match r.below(100) {
            0..=39 => None,
            40..=64 if !mine.is_empty() => Some(*r.pick(&mine)),
            65..=79 if !others.is_empty() => Some(*r.pick(&others)),
            80..=89 => Some(*r.pick(&self.cur_pool)),
            _ => Some(BASE + r.range(0, 20) as u32),
        };
        let via: u8 = if r.below(10) < self.via_bias { 1 + r.below(2) as u8 } else { 0 };
        let (tmin, tmax) = if via != 0 || self.lost_pct > 0 {
            // (with lost replies the configured bounds stay fixed for the whole history, as they
            // are in the running server: a LOWERED maximum legitimately cuts the remainder of a
            // lease, which is outside C01_no_double_allocation_lossy)
            (300, 86400)
        } else if r.chance(1, 40) {
            (self.tmax + 1, self.tmin) // nonsense bounds: min > max
        } else if r.chance(1, 10) {
            (r.range(0, 400), r.range(400, 90000))
        } else {
            (self.tmin, self.tmax)
        };
        let (cidmode, reqmode, alt) = if via == 0 {
            (0, 0, 0)
        } else {
            let alt = *r.pick(&self.cur_pool);
            let m = if via == 2 {
                if req.is_some() { *r.pick(&[0u8, 1, 2]) } else { 0 }
            } else {
                *r.pick(&[0u8, 0, 3])
            };
            let sug = if r.chance(2, 5) { (1 + r.below(SUGGESTED.len() as u64) as u8) << 3 } else { 0 };
            // a REQUEST in SELECTING state names the server it selects (option 54 = the receiving
            // address); the harness always passes an EMPTY set of remembered server identifiers,
            // which is the situation right after a restart
            let names_server = if via == 2 && r.chance(1, 3) { 128 } else { 0 };
            (cidmode, m + if r.chance(1, 4) { 4 } else { 0 } + sug + names_server, alt)
        };
        // through handle_pkt a chaddr-only client needs its id as chaddr: fine for any length
        let locked = r.below(100) < self.locked_pct;
        let lost = !locked && r.below(100) < self.lost_pct;
        Some(Ev::Alloc { via, cidmode, reqmode, alt, client, req, pool: self.cur_pool.clone(), tmin, tmax, lost, locked })
    }
}

pub fn run_history(r: &mut Rng, profile: Profile, thorough: bool, kill_pct: u64, transparency: bool, stats: &mut Stats) -> Toks {
    let mut g = Gen::new(r, profile, thorough);
    g.kill_pct = kill_pct;
    let mut w = World::new();
    let mut body = Toks::new();
    let mut n = 0u64;
    let mut evs = vec![];
    while let Some(ev) = g.next(r, &w) {
        w.exec(&ev, &mut body, stats);
        evs.push(ev);
        n += 1;
    }
    stats.bump(match profile {
        Profile::Mixed => "profile.mixed",
        Profile::MultiLease => "profile.multi-lease",
        Profile::Renewal => "profile.renewal",
        Profile::Exhaust => "profile.exhaust",
    });
    stats.add("events", n);
    finish(&evs, &w, body, transparency, stats)
}

// ------------------------------------------------------------------ replay
struct Cur<'a>(&'a [u64], usize);
impl<'a> Cur<'a> {
    fn n(&mut self) -> Option<u64> {
        let v = self.0.get(self.1).copied();
        self.1 += 1;
        v
    }
    fn bytes(&mut self) -> Option<Vec<u8>> {
        let k = self.n()? as usize;
        if self.1 + k > self.0.len() {
            return None;
        }
        let v = self.0[self.1..self.1 + k].iter().map(|&x| x as u8).collect();
        self.1 += k;
        Some(v)
    }
    fn skip_rows(&mut self) -> Option<()> {
        let k = self.n()?;
        for _ in 0..k {
            self.n()?;
            self.bytes()?;
            self.n()?;
            self.n()?;
        }
        Some(())
    }
}

/// The inputs of a case line (outputs skipped).
pub fn parse_case(toks: &[u64]) -> Option<Vec<Ev>> {
    let mut c = Cur(toks, 0);
    let n = c.n()?;
    let mut evs = vec![];
    for _ in 0..n {
        let kind = c.n()?;
        match kind {
            1 | 5 | 6 => {
                let via = c.n()? as u8;
                let cidmode = c.n()? as u8;
                let reqmode = c.n()? as u8;
                let alt = c.n()? as u32;
                let client = c.bytes()?;
                let req = match c.n()? {
                    0 => None,
                    _ => Some(c.n()? as u32),
                };
                let k = c.n()?;
                let mut pool = vec![];
                for _ in 0..k {
                    pool.push(c.n()? as u32);
                }
                let tmin = c.n()?;
                let tmax = c.n()?;
                c.n()?; // tlo
                c.n()?; // thi
                match c.n()? {
                    0 => {
                        c.n()?;
                        c.n()?;
                        c.n()?;
                    }
                    _ => {}
                }
                match c.n()? {
                    0 => {}
                    _ => {
                        c.n()?;
                    }
                }
                c.skip_rows()?;
                evs.push(Ev::Alloc { via, cidmode, reqmode, alt, client, req, pool, tmin, tmax, lost: kind == 5, locked: kind == 6 });
            }
            2 => evs.push(Ev::Tick(c.n()? as u32)),
            3 => {
                c.skip_rows()?;
                evs.push(Ev::Restart);
            }
            4 => {
                c.skip_rows()?;
                evs.push(Ev::Kill);
            }
            7 => {
                c.n()?; // recomputed on replay
            }
            _ => return None,
        }
    }
    Some(evs)
}

pub fn replay_case(toks: &[u64], stats: &mut Stats) -> Option<Toks> {
    let evs = parse_case(toks)?;
    let mut w = World::new();
    let mut body = Toks::new();
    for ev in &evs {
        w.exec(ev, &mut body, stats);
    }
    // a case that ended in the restart-transparency event gets it again
    let with7 = toks.first().map(|n| *n as usize == evs.len() + 1).unwrap_or(false);
    Some(finish(&evs, &w, body, with7, stats))
}

fn answers_of(evs: &[Ev], with_restarts: bool) -> Vec<Result<u32, u64>> {
    let mut w = World::new();
    let mut scratch = Toks::new();
    let mut st = Stats::default();
    for ev in evs {
        match ev {
            Ev::Kill => {}
            Ev::Restart if !with_restarts => {}
            _ => w.exec(ev, &mut scratch, &mut st),
        }
    }
    w.answers.clone()
}

/// C18, restart transparency: 1-based index of the first allocation that is answered differently (another
/// address, a refusal instead of an address or the other way round) when the same events run on a store that is
/// never closed; 0 when every answer is the same.  The clock is the wall clock in both runs, so a lease that
/// ends on a second boundary can make two runs differ: a difference counts only if it shows three times in a
/// row, each time with both runs done afresh.
pub fn restart_difference(evs: &[Ev], first: &[Result<u32, u64>]) -> u64 {
    if !evs.iter().any(|e| matches!(e, Ev::Restart)) {
        return 0;
    }
    let mut interrupted = first.to_vec();
    let mut k = 0;
    for attempt in 0..3 {
        if attempt > 0 {
            interrupted = answers_of(evs, true);
        }
        let plain = answers_of(evs, false);
        match (0..interrupted.len().max(plain.len())).find(|&i| interrupted.get(i) != plain.get(i)) {
            None => return 0,
            Some(i) => k = i as u64 + 1,
        }
    }
    k
}

fn finish(evs: &[Ev], w: &World, body: Toks, transparency: bool, stats: &mut Stats) -> Toks {
    let mut t = Toks::new();
    if transparency {
        let k = restart_difference(evs, &w.answers);
        stats.bump(if k == 0 { "restart-transparency.same" } else { "restart-transparency.differs" });
        t.n(evs.len() as u64 + 1);
        t.append(&body);
        t.n(7).n(k);
    } else {
        t.n(evs.len() as u64);
        t.append(&body);
    }
    t
}

/// The F21 witness as a fixed history (always run first): a client holding two
/// unexpired leases, the longer-lived one outside today's pool.
pub fn fixed_histories() -> Vec<Vec<Ev>> {
    let a = |client: &[u8], req: Option<u32>, pool: &[u32]| Ev::Alloc {
        via: 0,
        cidmode: 0,
        reqmode: 0,
        alt: 0,
        client: client.to_vec(),
        req,
        pool: pool.to_vec(),
        tmin: 300,
        tmax: 86400,
        lost: false,
        locked: false,
    };
    let lose = |e: Ev| match e {
        Ev::Alloc { via, cidmode, reqmode, alt, client, req, pool, tmin, tmax, .. } => {
            Ev::Alloc { via, cidmode, reqmode, alt, client, req, pool, tmin, tmax, lost: true, locked: false }
        }
        e => e,
    };
    let lock = |e: Ev| match e {
        Ev::Alloc { via, cidmode, reqmode, alt, client, req, pool, tmin, tmax, .. } => {
            Ev::Alloc { via, cidmode, reqmode, alt, client, req, pool, tmin, tmax, lost: false, locked: true }
        }
        e => e,
    };
    let x = BASE + 1;
    let y = BASE + 9;
    let z = BASE + 2;
    // a REQUEST through the real handler (default lease bounds 300 s .. 24 h)
    let h = |client: &[u8], pool: &[u32]| Ev::Alloc {
        via: 2,
        cidmode: 1,
        reqmode: 0,
        alt: 0,
        client: client.to_vec(),
        req: None,
        pool: pool.to_vec(),
        tmin: 300,
        tmax: 86400,
        lost: false,
        locked: false,
    };
    vec![
        // the renewal ladder: a client that always renews just before its lease ends is told about three
        // times the time it has held the address, so six renewals take it from 5 minutes to beyond a day --
        // where the upper bound must hold it (the random histories rarely get that far)
        vec![
            h(b"ladder", &[x, z]),
            Ev::Tick(299),
            h(b"ladder", &[x, z]),
            Ev::Tick(896),
            h(b"ladder", &[x, z]),
            Ev::Tick(3584),
            h(b"ladder", &[x, z]),
            Ev::Tick(14336),
            h(b"ladder", &[x, z]),
            Ev::Tick(57344),
            h(b"ladder", &[x, z]),
            Ev::Tick(80000),
            h(b"ladder", &[x, z]),
            Ev::Tick(90000),
            h(b"ladder", &[x, z]),
            Ev::Tick(100000),
            h(b"ladder", &[x, z]),
            Ev::Tick(50000),
            h(b"ladder", &[x, z]),
        ],
        // two leases, pool shrinks to {x, z}: must get x back
        vec![a(b"c1", None, &[x]), Ev::Tick(10), a(b"c1", None, &[y]), Ev::Tick(10), a(b"c1", None, &[x, z])],
        // same, pool = {x} only: refusing would be wrong, x is the client's own
        vec![a(b"c1", None, &[x]), Ev::Tick(10), a(b"c1", None, &[y]), Ev::Tick(10), a(b"c1", None, &[x])],
        // same with the requested address naming the one inside the pool
        vec![a(b"c1", None, &[x]), Ev::Tick(10), a(b"c1", None, &[y]), Ev::Tick(10), a(b"c1", Some(x), &[x, z])],
        // expired variants (revival): both expired, the later one outside the pool
        vec![
            a(b"c1", None, &[x]),
            Ev::Tick(10),
            a(b"c1", None, &[y]),
            Ev::Tick(400),
            a(b"c1", None, &[x, z]),
            Ev::Restart,
            a(b"c2", Some(x), &[x, z]),
        ],
        // the store is locked by another connection: a new client, then a renewal
        vec![
            lock(a(b"c1", None, &[x])),
            a(b"c1", None, &[x]),
            Ev::Tick(100),
            lock(a(b"c1", None, &[x])),
            a(b"c2", None, &[x, z]),
        ],
        // observation O1 (design/C01.md): a renewal 1 s after the previous one shortens the
        // record (450 s told at 150, 300 s at 151); 301 s later the address is free for c2
        vec![
            a(b"c1", None, &[x]),
            Ev::Tick(150),
            a(b"c1", None, &[x]),
            Ev::Tick(1),
            lose(a(b"c1", None, &[x])),
            Ev::Kill,
            Ev::Tick(301),
            a(b"c2", None, &[x]),
        ],
    ]
}

/// Exhaustive small scope (thorough tier): every history of exactly `len`
/// events over the given alphabet, on an in-memory store.  Supports the
/// correspondence, never a theorem.
fn exhaustive(len: usize, alphabet: &[Ev], out: &mut dyn Write, stats: &mut Stats) {
    let mut idx = vec![0usize; len];
    loop {
        let mut w = World::new_mem();
        let mut body = Toks::new();
        for &i in &idx {
            w.exec(&alphabet[i], &mut body, stats);
        }
        let mut t = Toks::new();
        t.n(len as u64);
        t.append(&body);
        writeln!(out, "{}", t.0).unwrap();
        stats.bump("exhaustive-history");
        // next tuple
        let mut k = 0;
        while k < len {
            idx[k] += 1;
            if idx[k] < alphabet.len() {
                break;
            }
            idx[k] = 0;
            k += 1;
        }
        if k == len {
            break;
        }
    }
}

fn small_alphabet(full: bool) -> Vec<Ev> {
    let x = BASE + 1;
    let y = BASE + 2;
    let mut v = vec![];
    let pools: Vec<Vec<u32>> = if full { vec![vec![x], vec![y], vec![x, y]] } else { vec![vec![x], vec![x, y]] };
    let reqs: Vec<Option<u32>> = if full { vec![None, Some(x), Some(y)] } else { vec![None, Some(x)] };
    for c in [b"a".to_vec(), b"b".to_vec()] {
        for rq in &reqs {
            for p in &pools {
                v.push(Ev::Alloc {
                    via: 0,
                    cidmode: 0,
                    reqmode: 0,
                    alt: 0,
                    client: c.clone(),
                    req: *rq,
                    pool: p.clone(),
                    tmin: 300,
                    tmax: 86400,
                    lost: false,
                    locked: false,
                });
            }
        }
    }
    for d in [299u32, 300, 301] {
        v.push(Ev::Tick(d));
    }
    v
}

pub fn run(which: &str, args: &Args, out: &mut dyn Write) -> Stats {
    let mut stats = Stats::default();
    if let Some(path) = &args.replay {
        for line in std::fs::read_to_string(path).expect("replay file").lines() {
            if line.starts_with('#') || line.trim().is_empty() {
                continue;
            }
            match replay_case(&parse_tokens(line), &mut stats) {
                Some(t) => writeln!(out, "{}", t.0).unwrap(),
                None => writeln!(out, "#unreadable {}", line).unwrap(),
            }
            stats.bump("replayed");
        }
        return stats;
    }
    let thorough = args.tier == "thorough";
    for evs in fixed_histories() {
        let mut w = World::new();
        let mut body = Toks::new();
        for ev in &evs {
            w.exec(ev, &mut body, &mut stats);
        }
        let t = finish(&evs, &w, body, which == "C18", &mut stats);
        writeln!(out, "{}", t.0).unwrap();
        stats.bump("fixed-history");
    }
    if thorough && !args.extra.iter().any(|a| a == "--no-exhaustive") {
        // 2 clients x 2 addresses x ticks {299,300,301}: all histories of length 3 over the
        // full alphabet (21^3) and of length 4 over the reduced one (11^4)
        exhaustive(3, &small_alphabet(true), out, &mut stats);
        exhaustive(4, &small_alphabet(false), out, &mut stats);
    }
    let mut r = Rng::new(args.seed ^ match which {
        "C01" => 0x01,
        "C09" => 0x09,
        _ => 0x10,
    });
    // profile weights per property (out of 10): mixed, multi-lease, renewal, exhaust
    let weights: [u64; 4] = match which {
        "C01" => [5, 2, 1, 2],
        "C09" => [3, 4, 1, 2],
        "C18" => [3, 2, 1, 4],
        _ => [3, 1, 5, 1],
    };
    for _ in 0..args.n {
        let mut k = r.below(10);
        let mut profile = Profile::Mixed;
        for (i, w) in weights.iter().enumerate() {
            if k < *w {
                profile = [Profile::Mixed, Profile::MultiLease, Profile::Renewal, Profile::Exhaust][i];
                break;
            }
            k -= *w;
        }
        let t = run_history(&mut r, profile, thorough, if which == "C18" { 12 } else { 3 }, which == "C18", &mut stats);
        writeln!(out, "{}", t.0).unwrap();
    }
    stats
}

//! C05, ICMPv6 part: `radv::icmppkt::parse` must not panic on any input.
//! Case kind 300 (see coq/Model/EntryC05Icmp6.v):
//!   300 len octets...  impl
//!   impl = 2 | 1 e | 0 v      (panic | Err | Ok)
//! Packets are built by hand (not with icmppkt::serialise, which has abort
//! sites of its own and is not the unit under test).
use crate::util::*;
use erbium::radv::icmppkt;
use erbium::radv::icmppkt::{Icmp6, NDOptionValue};
use std::io::Write;

fn put_opts(t: &mut Toks, opts: &[NDOptionValue]) {
    t.n(opts.len() as u64);
    for o in opts {
        match o {
            NDOptionValue::SourceLLAddr(v) => {
                t.n(1).bytes(v);
            }
            NDOptionValue::Mtu(m) => {
                t.n(5).n(*m as u64);
            }
            NDOptionValue::Prefix(p) => {
                t.n(3).n(p.prefixlen as u64).b(p.onlink).b(p.autonomous);
                t.n(p.valid.as_secs()).n(p.preferred.as_secs()).bytes(&p.prefix.octets());
            }
            NDOptionValue::RecursiveDnsServers((lt, servers)) => {
                t.n(25).n(lt.as_secs()).n(servers.len() as u64);
                for s in servers {
                    t.bytes(&s.octets());
                }
            }
            NDOptionValue::DnsSearchList((lt, names)) => {
                // the decoder has no arm for option 31; the model never expects this
                t.n(31).n(lt.as_secs()).n(names.len() as u64);
                for s in names {
                    t.bytes(s.as_bytes());
                }
            }
            NDOptionValue::CaptivePortal(url) => {
                t.n(37).bytes(url.as_bytes());
            }
            NDOptionValue::Pref64((lt, plen, prefix)) => {
                t.n(38).n(lt.as_secs()).n(*plen as u64).bytes(&prefix.octets());
            }
        }
    }
}

fn put_outcome(t: &mut Toks, r: Option<Result<Icmp6, icmppkt::Error>>) {
    match r {
        None => {
            t.n(2);
        }
        Some(Err(e)) => {
            t.n(1).n(match e {
                icmppkt::Error::Truncated => 1,
                icmppkt::Error::InvalidEncoding => 2,
                icmppkt::Error::InvalidPacket => 3,
            });
        }
        Some(Ok(Icmp6::Unknown)) => {
            t.n(0).n(0);
        }
        Some(Ok(Icmp6::RtrSolicit(opts))) => {
            t.n(0).n(1);
            put_opts(t, opts.verif_values());
        }
        Some(Ok(Icmp6::RtrAdvert(ra))) => {
            t.n(0).n(2).n(ra.hop_limit as u64).b(ra.flag_managed).b(ra.flag_other);
            t.n(ra.lifetime.as_secs());
            t.n(ra.reachable.as_millis() as u64).n(ra.retrans.as_millis() as u64);
            put_opts(t, ra.options.verif_values());
        }
    }
}

fn case_parse(b: &[u8]) -> Toks {
    let mut t = Toks::new();
    t.n(300).bytes(b);
    put_outcome(&mut t, catch(|| icmppkt::parse(b)));
    t
}

// ---------------------------------------------------------------- generator
const OPT_TYPES: [u8; 8] = [1, 3, 5, 24, 25, 31, 37, 38];

fn word(r: &mut Rng) -> u32 {
    match r.below(5) {
        0 => 0,
        1 => u32::MAX,
        2 => 0x8000_0000,
        _ => r.next() as u32,
    }
}

/// a code point at or next to an encoding-length boundary, or any scalar value
fn gen_char(r: &mut Rng) -> char {
    const EDGE: [u32; 14] = [
        0x01, 0x7f, 0x80, 0x7ff, 0x800, 0xfff, 0x1000, 0xd7ff, 0xe000, 0xffff, 0x10000, 0x3ffff, 0x100000, 0x10ffff,
    ];
    loop {
        let c = match r.below(4) {
            0 => *r.pick(&EDGE),
            1 => r.range(0x20, 0x7e) as u32,
            2 => r.range(0x20, 0x7e) as u32,
            _ => r.below(0x110000) as u32,
        };
        if c == 0 {
            continue;
        }
        if let Some(ch) = char::from_u32(c) {
            return ch;
        }
    }
}

/// octet strings that are NOT well-formed UTF-8, one per class of Table 3-7 violation
fn bad_utf8(r: &mut Rng) -> Vec<u8> {
    const BAD: [&[u8]; 22] = [
        &[0x80],                   // lone continuation
        &[0xbf],
        &[0xc0, 0x80],             // overlong 2
        &[0xc1, 0xbf],
        &[0xc2],                   // truncated 2
        &[0xc2, 0x7f],
        &[0xdf, 0xc0],
        &[0xe0, 0x80, 0x80],       // overlong 3
        &[0xe0, 0x9f, 0xbf],
        &[0xe1, 0x80],             // truncated 3
        &[0xe2, 0x82, 0x41],
        &[0xed, 0xa0, 0x80],       // surrogates
        &[0xed, 0xbf, 0xbf],
        &[0xef, 0xbf],
        &[0xf0, 0x80, 0x80, 0x80], // overlong 4
        &[0xf0, 0x8f, 0xbf, 0xbf],
        &[0xf0, 0x90, 0x80],       // truncated 4
        &[0xf4, 0x90, 0x80, 0x80], // > U+10FFFF
        &[0xf5, 0x80, 0x80, 0x80],
        &[0xf8, 0x88, 0x80, 0x80, 0x80],
        &[0xfe],
        &[0xff],
    ];
    let mut v = vec![];
    for _ in 0..r.below(3) {
        let mut b = [0u8; 4];
        v.extend(gen_char(r).encode_utf8(&mut b).as_bytes());
    }
    v.extend(*r.pick(&BAD));
    for _ in 0..r.below(3) {
        let mut b = [0u8; 4];
        v.extend(gen_char(r).encode_utf8(&mut b).as_bytes());
    }
    v
}

/// pad `body` with zeros so that 2 + body is a multiple of 8 and prepend type/length
fn opt_padded(ty: u8, mut body: Vec<u8>) -> Vec<u8> {
    while (body.len() + 2) % 8 != 0 {
        body.push(0);
    }
    let mut o = vec![ty, ((body.len() + 2) / 8) as u8];
    o.extend(body);
    o
}

/// type, length octet `l`, and exactly 8l-2 octets of body (l >= 1)
fn opt_raw(r: &mut Rng, ty: u8, l: u8) -> Vec<u8> {
    let mut o = vec![ty, l];
    o.extend(r.bytes((l as usize * 8).saturating_sub(2)));
    o
}

fn gen_url(r: &mut Rng) -> Vec<u8> {
    let n = match r.below(6) {
        0 => 0,
        1 => 1,
        _ => r.range(2, 40),
    };
    let mut s = String::new();
    for _ in 0..n {
        s.push(gen_char(r));
    }
    s.into_bytes()
}

/// one well-formed option of the given type
fn gen_option(r: &mut Rng, ty: u8) -> Vec<u8> {
    match ty {
        1 => {
            let l = *r.pick(&[1u8, 1, 1, 2, 3]);
            opt_raw(r, 1, l)
        }
        3 => {
            let mut b = vec![*r.pick(&[0u8, 64, 128, 129, 255, 48]), *r.pick(&[0u8, 0x80, 0x40, 0xc0, 0xff, 0x3f])];
            b.extend(word(r).to_be_bytes());
            b.extend(word(r).to_be_bytes());
            b.extend(word(r).to_be_bytes());
            b.extend(r.bytes(16));
            opt_padded(3, b)
        }
        5 => {
            let mut b = r.bytes(2);
            b.extend(word(r).to_be_bytes());
            opt_padded(5, b)
        }
        25 => {
            let k = *r.pick(&[0usize, 1, 1, 2, 3, 7]);
            let mut b = r.bytes(2);
            b.extend(word(r).to_be_bytes());
            b.extend(r.bytes(16 * k));
            opt_padded(25, b)
        }
        37 => {
            let mut u = gen_url(r);
            if r.chance(1, 6) {
                // NULs inside the URL: only the trailing ones are stripped
                u.extend([0, 0]);
                u.extend(gen_url(r));
            }
            if r.chance(1, 6) {
                // no padding at all: fill the option to the brim with ASCII
                while (u.len() + 2) % 8 != 0 {
                    u.push(b'a');
                }
            }
            if r.chance(1, 8) {
                u.extend([0u8; 8]);
            }
            if u.is_empty() {
                u.extend([0u8; 6]);
            }
            opt_padded(37, u)
        }
        38 => {
            // every Prefix Length Code 0..7 (6 and 7 make the decoder skip the option)
            let plc = r.below(8) as u8;
            let mut b = match r.below(4) {
                0 => vec![0, plc],
                1 => vec![0xff, 0xf8 | plc],
                _ => vec![r.byte(), r.byte() & 0xf8 | plc],
            };
            b.extend(r.bytes(12));
            opt_padded(38, b)
        }
        _ => {
            let l = r.range(1, 3) as u8;
            opt_raw(r, ty, l)
        }
    }
}

fn gen_header(r: &mut Rng, advert: bool) -> Vec<u8> {
    let mut p = vec![if advert { 134 } else { 133 }, 0, r.byte(), r.byte()];
    if advert {
        p.push(*r.pick(&[0u8, 64, 255]));
        p.push(*r.pick(&[0u8, 0x80, 0x40, 0xc0, 0x3f, 0xff]));
        p.extend((word(r) as u16).to_be_bytes());
        p.extend(word(r).to_be_bytes());
        p.extend(word(r).to_be_bytes());
    } else {
        p.extend(if r.chance(1, 4) { r.bytes(4) } else { vec![0; 4] });
    }
    p
}

fn any_type(r: &mut Rng) -> u8 {
    if r.chance(4, 5) {
        *r.pick(&OPT_TYPES)
    } else {
        *r.pick(&[0u8, 2, 4, 6, 23, 26, 36, 39, 108, 255, 200])
    }
}

/// a well-formed packet; returns it with the offsets of its options
fn gen_valid(r: &mut Rng, stats: &mut Stats) -> (Vec<u8>, Vec<usize>) {
    let advert = r.chance(2, 3);
    let mut p = gen_header(r, advert);
    let mut at = vec![];
    let n = match r.below(6) {
        0 => 0,
        1 => 1,
        _ => r.range(2, 7),
    };
    for _ in 0..n {
        let ty = any_type(r);
        stats.bump(&format!("opt.{}", if OPT_TYPES.contains(&ty) { ty.to_string() } else { "other".into() }));
        at.push(p.len());
        p.extend(gen_option(r, ty));
    }
    (p, at)
}

/// the reference packet used for the exhaustive truncation sweep: every option type once
fn all_options_packet(r: &mut Rng, advert: bool) -> Vec<u8> {
    let mut p = gen_header(r, advert);
    for ty in OPT_TYPES.iter().chain([200u8].iter()) {
        p.extend(gen_option(r, *ty));
    }
    p
}

fn gen_malformed(r: &mut Rng, stats: &mut Stats) -> Vec<u8> {
    let (mut p, at) = gen_valid(r, stats);
    match r.below(12) {
        0 => {
            stats.bump("mal.truncated");
            let n = r.below(p.len() as u64 + 1) as usize;
            p.truncate(n);
        }
        1 | 2 => {
            stats.bump("mal.optlen");
            if !at.is_empty() {
                let i = *r.pick(&at) + 1;
                let old = p[i];
                p[i] = *r.pick(&[0u8, 1, 2, 3, 4, 255, old.wrapping_add(1), old.wrapping_sub(1)]);
            } else {
                p.extend([any_type(r), *r.pick(&[0u8, 1, 255])]);
            }
        }
        3 => {
            // fixed-size options (MTU 1, PREFIX 4, PREF64 2) with every other length, body present
            stats.bump("mal.fixed-size-wrong-length");
            let ty = *r.pick(&[5u8, 3, 38]);
            let l = *r.pick(&[1u8, 2, 3, 4, 5, 255]);
            p.extend(opt_raw(r, ty, l));
        }
        4 => {
            // RDNSS: length 1 (no server), even lengths (8 stray octets), long
            stats.bump("mal.rdnss-length");
            let l = *r.pick(&[1u8, 2, 4, 6, 3, 255, 254]);
            p.extend(opt_raw(r, 25, l));
        }
        5 => {
            stats.bump("mal.captive-invalid-utf8");
            let u = if r.chance(1, 5) { let n = r.range(1, 22) as usize; r.bytes(n) } else { bad_utf8(r) };
            if r.chance(1, 2) {
                p.extend(opt_padded(37, u));
            } else {
                // in the middle of the packet
                let mut q = gen_header(r, true);
                q.extend(opt_padded(37, u));
                q.extend(gen_option(r, 5));
                p = q;
            }
        }
        6 => {
            stats.bump("mal.captive-zeros");
            let l = *r.pick(&[1u8, 2, 5, 255]);
            let mut o = vec![37, l];
            o.extend(vec![0u8; l as usize * 8 - 2]);
            if r.chance(1, 3) {
                // a single non-NUL octet at either end
                let k = o.len();
                o[if r.chance(1, 2) { 2 } else { k - 1 }] = *r.pick(&[b'x', 0x80, 0xc2]);
            }
            p.extend(o);
        }
        7 => {
            stats.bump("mal.type-code");
            p[0] = *r.pick(&[1u8, 133, 134, 135, 136, 137, 0, 128, 129, 138, 255]);
            p[1] = *r.pick(&[0u8, 0, 1, 255]);
        }
        8 => {
            stats.bump("mal.short");
            let n = r.below(8) as usize;
            p.truncate(n);
            if r.chance(1, 2) {
                p = r.bytes(n);
            }
        }
        9 => {
            stats.bump("mal.arbitrary");
            let n = r.below(120) as usize;
            p = r.bytes(n);
        }
        10 => {
            stats.bump("mal.arbitrary-after-header");
            let adv = r.chance(1, 2);
            p = gen_header(r, adv);
            let n = r.below(80) as usize;
            let mut tail = r.bytes(n);
            // bias the length octets towards small values so that several options are walked
            let mut i = 1;
            while i < tail.len() {
                tail[i] = *r.pick(&[0u8, 1, 1, 1, 2, 2, 3, 4, 255]);
                if r.chance(1, 2) {
                    tail[i - 1] = any_type(r);
                }
                i += (tail[i] as usize * 8).max(3);
            }
            p.extend(tail);
        }
        _ => {
            stats.bump("mal.header-truncated");
            let hdr = if p[0] == 134 { 16 } else { 8 };
            let n = r.range(8, hdr) as usize;
            p.truncate(n);
        }
    }
    p
}

/// captive portal options whose first octets sweep the UTF-8 lead/continuation boundaries
fn utf8_sweep(out: &mut dyn Write, stats: &mut Stats, thorough: bool) {
    const B1: [u8; 10] = [0x00, 0x7f, 0x80, 0x8f, 0x90, 0x9f, 0xa0, 0xbf, 0xc0, 0xff];
    let mut emit = |body: &[u8]| {
        let mut p = vec![134u8, 0, 0, 0, 64, 0, 0, 0, 0, 0, 0, 0, 0, 0, 0, 0];
        p.extend(opt_padded(37, body.to_vec()));
        writeln!(out, "{}", case_parse(&p).0).unwrap();
        stats.bump("utf8-sweep");
    };
    if thorough {
        for b0 in 0..=255u8 {
            for b1 in 0..=255u8 {
                emit(&[b0, b1]);
                emit(&[b0, b1, 0x80]);
                emit(&[b0, b1, 0x80, 0x80]);
            }
        }
    } else {
        for b0 in (0x7e..=0x82u8).chain(0xbe..=0xffu8) {
            for b1 in B1 {
                emit(&[b0, b1]);
                emit(&[b0, b1, 0x80]);
                emit(&[b0, b1, 0x80, 0x80]);
            }
        }
    }
    for b0 in [0xe1u8, 0xf1] {
        for b2 in B1 {
            emit(&[b0, 0x80, b2, 0x80]);
            emit(&[b0, 0x80, 0x80, b2]);
        }
    }
}

pub fn run(args: &Args, out: &mut dyn Write) -> Stats {
    let mut stats = Stats::default();
    if let Some(path) = &args.replay {
        for line in std::fs::read_to_string(path).expect("replay file").lines() {
            if line.starts_with('#') || line.trim().is_empty() {
                continue;
            }
            let toks = parse_tokens(line);
            let ok = toks.len() >= 2 && toks[0] == 300 && toks.len() >= 2 + toks[1] as usize;
            if ok {
                let b: Vec<u8> = toks[2..2 + toks[1] as usize].iter().map(|&x| x as u8).collect();
                writeln!(out, "{}", case_parse(&b).0).unwrap();
            } else {
                writeln!(out, "#unreadable {}", line).unwrap();
            }
            stats.bump("replayed");
        }
        return stats;
    }
    let thorough = args.tier == "thorough";
    let mut r = Rng::new(args.seed);

    // every truncation point of packets that contain every option type
    for advert in [true, false] {
        for _ in 0..(if thorough { 8 } else { 1 }) {
            let p = all_options_packet(&mut r, advert);
            for n in 0..=p.len() {
                writeln!(out, "{}", case_parse(&p[..n]).0).unwrap();
                stats.bump("truncation-sweep");
            }
        }
    }
    // every length octet value for each option type, body of 8*min(l,5)-2 octets after it
    for ty in OPT_TYPES.iter().chain([2u8].iter()) {
        for l in 0..=255u8 {
            let mut p = gen_header(&mut r, true);
            p.push(*ty);
            p.push(l);
            let have = if l % 2 == 0 { l as usize * 8 } else { (l as usize).min(5) * 8 };
            p.extend(r.bytes(have.saturating_sub(2)));
            writeln!(out, "{}", case_parse(&p).0).unwrap();
            stats.bump("length-sweep");
        }
    }
    // PREF64 with every Prefix Length Code, between and before other options
    for advert in [true, false] {
        for plc in 0..8u8 {
            for hi in [[0u8, 0u8], [0xff, 0xf8], [r.byte(), r.byte() & 0xf8]] {
                let mut p = gen_header(&mut r, advert);
                p.extend(gen_option(&mut r, 1));
                let mut b = vec![hi[0], hi[1] | plc];
                b.extend(r.bytes(12));
                p.extend(opt_padded(38, b));
                p.extend(gen_option(&mut r, 5));
                let mut b = vec![0, 8 | (7 - plc)];
                b.extend(r.bytes(12));
                p.extend(opt_padded(38, b));
                p.extend(gen_option(&mut r, 37));
                writeln!(out, "{}", case_parse(&p).0).unwrap();
                stats.bump("pref64-plc-sweep");
            }
        }
    }
    utf8_sweep(out, &mut stats, thorough);

    for i in 0..args.n {
        let p = if i % 3 == 0 {
            let (p, _) = gen_valid(&mut r, &mut stats);
            stats.bump(if p[0] == 134 { "valid.advert" } else { "valid.solicit" });
            p
        } else {
            gen_malformed(&mut r, &mut stats)
        };
        writeln!(out, "{}", case_parse(&p).0).unwrap();
    }
    stats
}

#![allow(dead_code)]
//! Generator of erbium configuration documents at the level of the YAML AST
//! (C19).  The grammar below is written down from man/erbium.conf.5 and from
//! the parsers (config.rs, dhcp/config.rs, radv/config.rs, dns/config.rs,
//! acl.rs).  A document is first generated VALID (every key of the grammar
//! can occur, values from the documented domains), then a number of
//! mutations is applied at randomly chosen positions:
//!   * a scalar is replaced by each value of a wrong type (string / integer /
//!     real / boolean / null / array / hash / empty array / empty hash / bad
//!     alias),
//!   * a scalar of a known class (duration, prefix, address, integer, ...) is
//!     replaced by a boundary value of that class,
//!   * a key is removed, duplicated, renamed, or a non-string key is added,
//!   * a list is emptied, or blown up to 128 / 255 / 256 entries.
//! Rendering is YAML flow style (JSON-like), so that what yaml-rust parses is
//! exactly the generated AST (duplicate keys are rendered as such).
use crate::util::Rng;

#[derive(Clone, Debug, PartialEq)]
pub enum Y {
    Real(String),
    Int(i64),
    Str(String),
    Bool(bool),
    Arr(Vec<Y>),
    Hash(Vec<(Y, Y)>),
    Null,
    /// an alias to an anchor that does not exist: yaml-rust yields BadValue (or a scan error)
    Bad,
    /// rendered verbatim (used for integer literals outside i64 and similar)
    Raw(String),
}

pub fn s<S: AsRef<str>>(x: S) -> Y {
    Y::Str(x.as_ref().to_string())
}

pub fn quote(st: &str) -> String {
    let mut o = String::from("\"");
    for c in st.chars() {
        match c {
            '"' => o.push_str("\\\""),
            '\\' => o.push_str("\\\\"),
            '\n' => o.push_str("\\n"),
            '\t' => o.push_str("\\t"),
            ' '..='~' => o.push(c),
            c if (c as u32) < 0x100 => o.push_str(&format!("\\x{:02x}", c as u32)),
            c if (c as u32) < 0x10000 => o.push_str(&format!("\\u{:04x}", c as u32)),
            c => o.push_str(&format!("\\U{:08x}", c as u32)),
        }
    }
    o.push('"');
    o
}

pub fn render(y: &Y) -> String {
    match y {
        Y::Real(r) => r.clone(),
        Y::Int(i) => i.to_string(),
        Y::Str(st) => quote(st),
        Y::Bool(b) => b.to_string(),
        Y::Null => "~".into(),
        Y::Bad => "*nosuchanchor".into(),
        Y::Raw(r) => r.clone(),
        Y::Arr(a) => format!("[{}]", a.iter().map(render).collect::<Vec<_>>().join(", ")),
        Y::Hash(h) => format!(
            "{{{}}}",
            h.iter().map(|(k, v)| format!("{}: {}", render(k), render(v))).collect::<Vec<_>>().join(", ")
        ),
    }
}

/// What a scalar position means; decides the boundary values offered to it.
#[derive(Clone, Copy, Debug, PartialEq)]
pub enum Class {
    Duration,
    Prefix4,
    Prefix6,
    PrefixAny,
    Ip4,
    Ip6,
    IpAny,
    /// start / end of apply-range: never replaced by a far-away VALID address
    /// (4 * 10^9 pool entries are a resource question, not a panic)
    RangeIp,
    Int,
    Bool,
    Text,
    Domain,
    HwAddr,
    SockAddr,
    Keyword,
    Any,
}

pub const LENS: &[u32] = &[0, 16, 17, 23, 24, 25, 29, 30, 31, 32, 33, 40, 48, 56, 63, 64, 65, 95, 96, 97, 104, 120, 127, 128, 129, 200, 254, 255, 256, 300, 65535];

fn rand_ip4(r: &mut Rng) -> u32 {
    match r.below(6) {
        0 => 0xC000_0200 | r.below(256) as u32,         // 192.0.2.x
        1 => 0xC633_6400 | r.below(256) as u32,         // 198.51.100.x
        2 => 0x0A00_0000 | (r.next() as u32 & 0xffffff), // 10.x
        3 => 0xCB00_7100 | r.below(256) as u32,         // 203.0.113.x
        4 => *r.pick(&[0u32, 0xffff_ffff, 0x7f00_0001, 0xe000_0001]),
        _ => r.next() as u32,
    }
}

pub fn ip4s(v: u32) -> String {
    std::net::Ipv4Addr::from(v).to_string()
}

fn rand_ip6(r: &mut Rng) -> std::net::Ipv6Addr {
    match r.below(6) {
        0 => std::net::Ipv6Addr::new(0x2001, 0xdb8, r.below(4) as u16, r.below(3) as u16, 0, 0, 0, r.below(100) as u16),
        1 => std::net::Ipv6Addr::new(0, 0, 0, 0, 0, 0xffff, 0xc000, 0x0200 | r.below(256) as u16), // ::ffff:192.0.2.x
        2 => std::net::Ipv6Addr::new(0x64, 0xff9b, 0, 0, 0, 0, 0, 0),
        3 => std::net::Ipv6Addr::new(0xfd00, r.next() as u16, 0, 0, 0, 0, 0, 1),
        4 => *r.pick(&[std::net::Ipv6Addr::UNSPECIFIED, std::net::Ipv6Addr::LOCALHOST, std::net::Ipv6Addr::new(0xffff, 0xffff, 0xffff, 0xffff, 0xffff, 0xffff, 0xffff, 0xffff)]),
        _ => std::net::Ipv6Addr::from((r.next() as u128) << 64 | r.next() as u128),
    }
}

/// a VALID IPv4 prefix whose expansion stays small (>= /16, mostly >= /24), host bits clear
pub fn valid_prefix4(r: &mut Rng) -> String {
    let len = *r.pick(&[24u32, 24, 24, 25, 26, 28, 29, 30, 23, 22]);
    let ip = rand_ip4(r) & (!0u32 << (32 - len));
    format!("{}/{}", ip4s(ip), len)
}

pub fn valid_prefix6(r: &mut Rng) -> String {
    let len = *r.pick(&[64u32, 64, 64, 56, 48, 96, 120, 128, 0, 32]);
    let ip = u128::from(rand_ip6(r));
    let ip = if len == 0 { 0 } else { ip & (!0u128 << (128 - len)) };
    format!("{}/{}", std::net::Ipv6Addr::from(ip), len)
}

pub fn valid_duration(r: &mut Rng) -> Y {
    match r.below(6) {
        0 => Y::Int(r.below(100000) as i64),
        1 => s(&format!("{}s", r.below(5000))),
        2 => s(&format!("{}h{}m", r.below(30), r.below(60))),
        3 => s(&format!("{}d", r.below(40))),
        4 => s(&format!("{}w {}d_{}h", r.below(5), r.below(7), r.below(24))),
        _ => s(&format!("{}", r.below(4000))),
    }
}

/// Boundary prefix strings: every length of LENS (and a few in between) on
/// v4, v6 and v4-mapped addresses; malformed separators; signs.
pub fn boundary_prefix(r: &mut Rng, fam: Class) -> Y {
    let len: String = match r.below(12) {
        0 => "".into(),
        1 => "+24".into(),
        2 => "-1".into(),
        3 => "024".into(),
        4 => " 24".into(),
        5 => "2x".into(),
        6 => "99999999999999999999999".into(),
        7 => r.range(16, 260).to_string(),
        _ => r.pick(LENS).to_string(),
    };
    let v4 = match fam {
        Class::Prefix4 => r.chance(5, 6),
        Class::Prefix6 => r.chance(1, 6),
        _ => r.chance(1, 2),
    };
    let addr = if v4 {
        // keep the host part clear for the lengths that expand into pools
        let l: u32 = len.trim().trim_start_matches('+').parse().unwrap_or(24);
        let ip = rand_ip4(r);
        let ip = if r.chance(3, 4) {
            if l == 0 {
                0
            } else if l < 32 {
                ip & (!0u32 << (32 - l))
            } else {
                ip
            }
        } else {
            ip
        };
        ip4s(ip)
    } else {
        rand_ip6(r).to_string()
    };
    match r.below(16) {
        0 => s(&addr),                              // no "/len"
        1 => s(&format!("{}/{}/{}", addr, len, len)), // two separators
        2 => s(&format!("/{}", len)),
        3 => s(&format!("{}/", addr)),
        4 => s("/"),
        5 => s(""),
        6 => s(&format!("$self4/{}", len)),
        7 => s(&format!("$self6/{}", len)),
        8 => s(&format!("{} /{}", addr, len)),
        _ => s(&format!("{}/{}", addr, len)),
    }
}

pub fn boundary_duration(r: &mut Rng) -> Y {
    let digits = |r: &mut Rng, n: usize| -> String { (0..n).map(|_| char::from(b'0' + r.below(10) as u8)).collect() };
    match r.below(28) {
        0 => s("s"),
        1 => s("m"),
        2 => s("1x"),
        3 => s(""),
        4 => s(&digits(r, 19)),
        5 => s(&digits(r, 20)),
        6 => s(&digits(r, 21)),
        7 => s(&digits(r, 400)),
        8 => s("18446744073709551615"),
        9 => s("18446744073709551616"),
        10 => s("18446744073709551615s1s"),
        11 => s("307445734561825860m"),
        12 => s("307445734561825861m"),
        13 => s("30500568904943w"),
        14 => s("30500568904944w"),
        15 => s("1h1h1h"),
        16 => s("5ss"),
        17 => s("1s 2"),
        18 => s("1_000 s"),
        19 => s("\u{a0}7\u{2003}d\u{3000}"),
        20 => s("-5s"),
        21 => s("1.5h"),
        22 => Y::Int(-1),
        23 => Y::Int(i64::MIN),
        24 => Y::Int(i64::MAX),
        25 => Y::Int(*r.pick(&[0i64, 1, 2, 3, 4, 1799, 1800, 1801, 65535, 65536, 4294967295, 4294967296])),
        26 => {
            let k = 1 + r.below(19) as usize;
            let d = digits(r, k);
            s(&format!("{}{}", d, r.pick(&["s", "m", "h", "d", "w", "y", "S", " w", ""])))
        }
        _ => s(&format!("{}w{}d{}h{}m{}s", r.below(1 << 40), r.below(1 << 44), r.below(1 << 50), r.below(1 << 55), r.next())),
    }
}

pub fn boundary_int(r: &mut Rng) -> Y {
    match r.below(6) {
        0 => Y::Int(*r.pick(&[-1i64, 0, 1, 127, 128, 255, 256, 32767, 32768, 65535, 65536])),
        1 => Y::Int(*r.pick(&[2147483647i64, 2147483648, -2147483648, -2147483649, 4294967295, 4294967296])),
        2 => Y::Int(*r.pick(&[i64::MAX, i64::MIN, i64::MAX - 1])),
        3 => Y::Raw("9223372036854775808".into()),
        4 => Y::Raw(r.pick(&["0x10", "0o17", "+5", "1_000", "0b1", ".inf", "-.inf", ".nan", "1e3", "0xffffffffffffffffff"]).to_string()),
        _ => Y::Int(r.next() as i64),
    }
}

pub fn wrong_type(r: &mut Rng) -> Y {
    match r.below(16) {
        0 => s("a string"),
        1 => Y::Int(7),
        2 => Y::Real("1.5".into()),
        3 => Y::Bool(true),
        4 => Y::Null,
        5 => Y::Arr(vec![Y::Int(1), Y::Int(2)]),
        6 => Y::Hash(vec![(s("k"), s("v"))]),
        7 => Y::Arr(vec![]),
        8 => Y::Hash(vec![]),
        9 => Y::Bad,
        10 => Y::Arr(vec![Y::Arr(vec![])]),
        11 => Y::Arr(vec![Y::Null]),
        12 => Y::Arr(vec![Y::Hash(vec![])]),
        13 => Y::Hash(vec![(Y::Null, Y::Null)]),
        14 => Y::Hash(vec![(Y::Int(1), Y::Arr(vec![]))]),
        _ => s(""),
    }
}

pub fn boundary(r: &mut Rng, c: Class) -> Y {
    let bad_ip: &[&str] = &["", "1.2.3", "1.2.3.4.5", "256.1.1.1", "01.2.3.4", "1.2.3.4 ", "$self", "$self4 ", "::g", ":::", "1::2::3", "[::1]", "::1%eth0", "192.0.2.1/24", "localhost"];
    match c {
        Class::Duration => boundary_duration(r),
        Class::Prefix4 | Class::Prefix6 | Class::PrefixAny => boundary_prefix(r, c),
        Class::Ip4 | Class::Ip6 | Class::IpAny => match r.below(6) {
            0 => s(&ip4s(rand_ip4(r))),
            1 => s(&rand_ip6(r).to_string()),
            2 => s("$self4"),
            3 => s("$self6"),
            _ => s(r.pick(bad_ip)),
        },
        Class::RangeIp => match r.below(3) {
            0 => s(&rand_ip6(r).to_string()),
            _ => s(r.pick(bad_ip)),
        },
        Class::Int => boundary_int(r),
        Class::Bool => match r.below(4) {
            0 => s("true"),
            1 => Y::Raw("yes".into()),
            2 => Y::Int(1),
            _ => Y::Bool(r.chance(1, 2)),
        },
        Class::Text | Class::Keyword | Class::Any => match r.below(6) {
            0 => s(""),
            1 => s(&"x".repeat(*r.pick(&[63usize, 64, 253, 254, 255, 256, 2040, 2048, 70000]))),
            2 => s("\u{0}\u{1}\u{ff}\u{fffd}\u{1f600}"),
            3 => s("http://portal.example.com/%s?\"'\\"),
            4 => s("forward"),
            _ => s("bind-unspecified"),
        },
        Class::Domain => match r.below(9) {
            0 => s(""),
            1 => s("."),
            2 => s(".."),
            3 => s(".example.com"),
            4 => s("example..com"),
            5 => s(&format!("{}.com", "a".repeat(*r.pick(&[63usize, 64, 255, 256, 300])))),
            6 => s(&vec!["ab"; *r.pick(&[84usize, 85, 86, 127, 128, 700])].join(".")),
            7 => s("ex\\ample.com"),
            _ => s("b\u{fc}cher.example"),
        },
        Class::HwAddr => s(r.pick(&["", ":", "0:1", "00:01:02:03:04", "00:01:02:03:04:05:06", "0g:00:00:00:00:00", "000:00:00:00:00:00", "00-01-02-03-04-05", "00:01:02:03:04:05:", "\u{e9}\u{e9}:00"])),
        Class::SockAddr => s(r.pick(&["", "@", "@erbium", "/", "/tmp/x", "relative/path", "[::]:53", "[::1]", "127.0.0.1", "127.0.0.1:65536", "127.0.0.1:0", ":53", "\u{e9}", "\u{e9}/x", "[::1%1]:53", &"/x".repeat(80)])),
    }
}

/// position of a mutable node: path of child indices (for a Hash, 2*i = key i, 2*i+1 = value i)
type Path = Vec<usize>;

fn collect(y: &Y, here: &mut Path, out: &mut Vec<Path>) {
    out.push(here.clone());
    match y {
        Y::Arr(a) => {
            for (i, c) in a.iter().enumerate() {
                here.push(i);
                collect(c, here, out);
                here.pop();
            }
        }
        Y::Hash(h) => {
            for (i, (_, v)) in h.iter().enumerate() {
                here.push(2 * i + 1);
                collect(v, here, out);
                here.pop();
            }
        }
        _ => {}
    }
}

fn get_mut<'a>(y: &'a mut Y, p: &[usize]) -> &'a mut Y {
    if p.is_empty() {
        return y;
    }
    match y {
        Y::Arr(a) => get_mut(&mut a[p[0]], &p[1..]),
        Y::Hash(h) => {
            let (k, v) = &mut h[p[0] / 2];
            if p[0] % 2 == 0 {
                get_mut(k, &p[1..])
            } else {
                get_mut(v, &p[1..])
            }
        }
        _ => y,
    }
}

/// class of the value under `key`
pub fn class_of_key(key: &str) -> Class {
    match key {
        "lifetime" | "reachable" | "retransmit" | "valid" | "preferred" | "max-router-advertisement-interval" | "min-router-advertisement-interval"
        | "apply-default-lease" | "apply-max-lease" | "apply-lease-time" | "apply-renewal-time" | "apply-rebind-time" | "apply-arp-timeout"
        | "apply-mtu-timeout" | "apply-max-reassembly" | "apply-ipv6-preferred" => Class::Duration,
        "apply-subnet" | "match-subnet" => Class::Prefix4,
        "addresses" | "match-subnets" => Class::PrefixAny,
        "prefix" => Class::PrefixAny,
        "start" | "end" => Class::RangeIp,
        "apply-address" | "next-hop" | "apply-broadcast" | "apply-netmask" | "apply-routers" | "apply-ntp-servers" | "apply-dns-servers" => Class::Ip4,
        "dns-servers" => Class::IpAny,
        "hop-limit" | "mtu" | "apply-mtu" | "apply-time-offset" | "apply-default-ttl" | "apply-tcp-ttl" | "apply-max-size" | "apply-netbios-type" => Class::Int,
        "managed" | "other" | "on-link" | "autonomous" | "match-unix" | "apply-forward" | "apply-mtu-subnet" => Class::Bool,
        "dns-search" | "domains" | "domain-suffixes" | "apply-dns-searches" => Class::Domain,
        "match-hardware-address" | "apply-client-id" | "match-client-id" => Class::HwAddr,
        "api-listeners" | "dns-listeners" => Class::SockAddr,
        "type" | "default-listen-style" | "apply-access" => Class::Keyword,
        _ => Class::Text,
    }
}

fn policy(r: &mut Rng, depth: u32) -> Y {
    let mut h: Vec<(Y, Y)> = vec![];
    let base = rand_ip4(r) & 0xffff_ff00;
    if r.chance(1, 3) {
        h.push((s("match-interface"), s(r.pick(&["eth0", "eth1", "dmz"]))));
    }
    if r.chance(1, 3) {
        h.push((s("match-hardware-address"), s("00:00:5E:00:53:01")));
    }
    if r.chance(1, 2) {
        h.push((s("match-subnet"), s(&format!("{}/24", ip4s(base)))));
    }
    if r.chance(1, 4) {
        h.push((s(r.pick(&["match-host-name", "match-class-id", "match-user-class"])), if r.chance(1, 5) { Y::Null } else { s("myhost") }));
    }
    match r.below(5) {
        0 => h.push((s("apply-subnet"), s(&valid_prefix4(r)))),
        1 => {
            let a = base + r.below(100) as u32;
            h.push((s("apply-range"), Y::Hash(vec![(s("start"), s(&ip4s(a))), (s("end"), s(&ip4s(a + r.below(120) as u32)))])))
        }
        2 => h.push((s("apply-address"), s(&ip4s(base + 1 + r.below(250) as u32)))),
        _ => {}
    }
    let opts: &[(&str, u8)] = &[
        ("apply-dns-servers", 0), ("apply-ntp-servers", 0), ("apply-routers", 0), ("apply-netmask", 1), ("apply-broadcast", 1),
        ("apply-time-offset", 2), ("apply-domain-name", 3), ("apply-host-name", 3), ("apply-forward", 4), ("apply-mtu", 2),
        ("apply-mtu-timeout", 5), ("apply-arp-timeout", 5), ("apply-renewal-time", 5), ("apply-rebind-time", 5), ("apply-lease-time", 5),
        ("apply-max-reassembly", 5), ("apply-default-ttl", 2), ("apply-tcp-ttl", 2), ("apply-client-id", 6), ("apply-dns-searches", 7),
        ("apply-captive-portal", 3), ("apply-routes", 8), ("apply-default-lease", 5), ("apply-max-lease", 5), ("apply-ipv6-preferred", 5),
        ("apply-tz-name", 3), ("apply-wpad-url", 3), ("apply-netbios-type", 2), ("apply-mtu-subnet", 4), ("apply-max-size", 2),
        ("apply-vendor", 3), ("apply-sip-servers", 3), ("apply-nosuchoption", 3),
    ];
    for _ in 0..r.below(5) {
        let (name, ty) = *r.pick(opts);
        if h.iter().any(|(k, _)| *k == s(name)) {
            continue;
        }
        let v = if r.chance(1, 12) {
            Y::Null
        } else {
            match ty {
                0 => Y::Arr((0..r.range(1, 3)).map(|_| if r.chance(1, 6) { s("$self4") } else { s(&ip4s(rand_ip4(r))) }).collect()),
                1 => s(&ip4s(rand_ip4(r))),
                2 => Y::Int(r.below(200) as i64),
                3 => s("erbium.example"),
                4 => Y::Bool(r.chance(1, 2)),
                5 => valid_duration(r),
                6 => s("00:01:02:03:04:05"),
                7 => Y::Arr(vec![s("example.com"), s("example.net")]),
                _ => Y::Arr((0..r.range(1, 2)).map(|_| Y::Hash(vec![(s("prefix"), s(&valid_prefix4(r))), (s("next-hop"), if r.chance(1, 4) { s("$self4") } else { s(&ip4s(rand_ip4(r))) })])).collect()),
            }
        };
        h.push((s(name), v));
    }
    if depth < 3 && r.chance(1, 3) {
        h.push((s("policies"), Y::Arr((0..r.range(1, 2)).map(|_| policy(r, depth + 1)).collect())));
    }
    Y::Hash(h)
}

fn ra_interface(r: &mut Rng) -> Y {
    if r.chance(1, 8) {
        return Y::Null;
    }
    let mut h = vec![];
    if r.chance(1, 2) {
        h.push((s("hop-limit"), Y::Int(r.below(256) as i64)));
    }
    if r.chance(1, 3) {
        h.push((s("managed"), Y::Bool(r.chance(1, 2))));
    }
    if r.chance(1, 3) {
        h.push((s("other"), Y::Bool(r.chance(1, 2))));
    }
    if r.chance(1, 2) {
        h.push((s("lifetime"), valid_duration(r)));
    }
    if r.chance(1, 3) {
        h.push((s("reachable"), valid_duration(r)));
    }
    if r.chance(1, 3) {
        h.push((s("retransmit"), valid_duration(r)));
    }
    if r.chance(1, 3) {
        h.push((s("mtu"), if r.chance(1, 5) { Y::Null } else { Y::Int(r.range(1280, 9000) as i64) }));
    }
    if r.chance(1, 4) {
        h.push((s("captive-portal"), if r.chance(1, 4) { Y::Null } else { s("http://portal.example.com/") }));
    }
    if r.chance(1, 5) {
        h.push((s("max-router-advertisement-interval"), s(&format!("{}s", r.range(4, 1800)))));
    }
    if r.chance(1, 5) {
        h.push((s("min-router-advertisement-interval"), s(&format!("{}s", r.range(3, 1350)))));
    }
    if r.chance(1, 2) {
        let mut d = vec![];
        if r.chance(3, 4) {
            d.push((s("addresses"), Y::Arr((0..r.range(1, 3)).map(|_| if r.chance(1, 6) { s("$self6") } else { s(&rand_ip6(r).to_string()) }).collect())));
        }
        if r.chance(1, 2) {
            d.push((s("lifetime"), valid_duration(r)));
        }
        h.push((s("dns-servers"), Y::Hash(d)));
    }
    if r.chance(1, 2) {
        let mut d = vec![];
        if r.chance(3, 4) {
            d.push((s("domains"), Y::Arr(vec![s("example.com"), s("example.net")])));
        }
        if r.chance(1, 2) {
            d.push((s("lifetime"), valid_duration(r)));
        }
        h.push((s("dns-search"), Y::Hash(d)));
    }
    if r.chance(1, 2) {
        let mut d = vec![(s("prefix"), s(&format!("64:ff9b::/{}", r.pick(&[96u32, 96, 64, 56, 48, 40, 32]))))];
        if r.chance(1, 2) {
            d.push((s("lifetime"), valid_duration(r)));
        }
        h.push((s("pref64"), Y::Hash(d)));
    }
    if r.chance(2, 3) {
        h.push((
            s("prefixes"),
            Y::Arr(
                (0..r.range(1, 3))
                    .map(|_| {
                        let mut p = vec![(s("prefix"), s(&valid_prefix6(r)))];
                        if r.chance(1, 3) {
                            p.push((s("on-link"), Y::Bool(r.chance(1, 2))));
                        }
                        if r.chance(1, 3) {
                            p.push((s("autonomous"), Y::Bool(r.chance(1, 2))));
                        }
                        if r.chance(1, 3) {
                            p.push((s("valid"), valid_duration(r)));
                        }
                        if r.chance(1, 3) {
                            p.push((s("preferred"), valid_duration(r)));
                        }
                        Y::Hash(p)
                    })
                    .collect(),
            ),
        ));
    }
    Y::Hash(h)
}

/// A valid document: every top-level key of the grammar with probability ~1/2.
pub fn valid_doc(r: &mut Rng) -> Y {
    let mut h = vec![];
    if r.chance(2, 3) {
        h.push((s("addresses"), Y::Arr((0..r.range(1, 3)).map(|_| if r.chance(2, 3) { s(&valid_prefix4(r)) } else { s(&valid_prefix6(r)) }).collect())));
    }
    if r.chance(1, 2) {
        h.push((
            s("dns-servers"),
            Y::Arr((0..r.range(0, 4)).map(|_| match r.below(4) { 0 => s("$self4"), 1 => s("$self6"), 2 => s(&ip4s(rand_ip4(r))), _ => s(&rand_ip6(r).to_string()) }).collect()),
        ));
    }
    if r.chance(1, 2) {
        h.push((s("dns-search"), Y::Arr((0..r.range(0, 3)).map(|_| s(r.pick(&["example.com", "example.org", "a.b.c.example"]))).collect())));
    }
    if r.chance(1, 4) {
        h.push((s("captive-portal"), s("https://portal.example.org/login")));
    }
    if r.chance(1, 4) {
        h.push((s("default-listen-style"), s(r.pick(&["bind-unspecified", "bind-addresses-interfaces"]))));
    }
    if r.chance(1, 4) {
        h.push((s("api-listeners"), Y::Arr(vec![s("/var/lib/erbium/control"), s("@erbium"), s("[::1]:9968")])));
    }
    if r.chance(1, 4) {
        h.push((s("dns-listeners"), Y::Arr(vec![s("[::]:53"), s("192.0.2.1:53")])));
    }
    if r.chance(1, 2) {
        h.push((
            s("acls"),
            Y::Arr(
                (0..r.range(1, 3))
                    .map(|_| {
                        let mut a = vec![];
                        if r.chance(3, 4) {
                            a.push((s("match-subnets"), Y::Arr((0..r.range(1, 3)).map(|_| match r.below(4) { 0 => s(&valid_prefix6(r)), 1 => s(&format!("::ffff:{}/{}", ip4s(rand_ip4(r) & 0xffffff00), 120)), _ => s(&valid_prefix4(r)) }).collect())));
                        }
                        if r.chance(1, 3) {
                            a.push((s("match-unix"), Y::Bool(r.chance(1, 2))));
                        }
                        a.push((s("apply-access"), Y::Arr((0..r.range(0, 3)).map(|_| s(r.pick(&["dhcp-client", "dns-recursion", "http", "http-metrics", "http-leases", "http-ro"]))).collect())));
                        Y::Hash(a)
                    })
                    .collect(),
            ),
        ));
    }
    if r.chance(1, 2) {
        h.push((
            s("dns-routes"),
            Y::Arr(
                (0..r.range(1, 3))
                    .map(|_| {
                        let mut a = vec![(s("domain-suffixes"), Y::Arr((0..r.range(1, 2)).map(|_| s(r.pick(&["", "invalid", "example.com", "corp.example.com", "test"]))).collect()))];
                        match r.below(4) {
                            0 => a.push((s("type"), s("forge-nxdomain"))),
                            1 => {
                                a.push((s("dns-servers"), Y::Arr(vec![s(&ip4s(rand_ip4(r)))])));
                            }
                            _ => {
                                a.push((s("type"), s("forward")));
                                a.push((s("dns-servers"), Y::Arr(vec![if r.chance(1, 2) { s("2001:4860:4860::8888") } else { s("192.0.2.53") }])));
                            }
                        }
                        Y::Hash(a)
                    })
                    .collect(),
            ),
        ));
    }
    if r.chance(1, 2) {
        h.push((s("router-advertisements"), Y::Hash((0..r.range(1, 2)).map(|i| (s(&format!("eth{}", i)), ra_interface(r))).collect())));
    }
    if r.chance(2, 3) {
        h.push((s("dhcp-policies"), Y::Arr((0..r.range(1, 3)).map(|_| policy(r, 0)).collect())));
    }
    Y::Hash(h)
}

/// the key under which the node at `p` sits (innermost enclosing hash key), for class lookup
fn key_of(doc: &Y, p: &[usize]) -> String {
    let mut cur = doc;
    let mut key = String::new();
    for &i in p {
        match cur {
            Y::Arr(a) => cur = &a[i],
            Y::Hash(h) => {
                if let Y::Str(k) = &h[i / 2].0 {
                    key = k.clone();
                }
                cur = &h[i / 2].1;
            }
            _ => break,
        }
    }
    key
}

/// One mutation of `doc`; returns a label for the statistics.
pub fn mutate(r: &mut Rng, doc: &mut Y) -> &'static str {
    let mut paths = vec![];
    collect(doc, &mut vec![], &mut paths);
    let p = r.pick(&paths).clone();
    let key = key_of(doc, &p);
    let class = class_of_key(&key);
    let node = get_mut(doc, &p);
    let is_scalar = !matches!(node, Y::Arr(_) | Y::Hash(_));
    match r.below(12) {
        0 | 1 | 2 if is_scalar => {
            *node = wrong_type(r);
            "mut.wrong-type"
        }
        3 | 4 | 5 | 6 if is_scalar => {
            *node = boundary(r, class);
            "mut.boundary"
        }
        0 | 1 => {
            *node = wrong_type(r);
            "mut.collection-replaced"
        }
        2 | 3 => match node {
            Y::Hash(h) if !h.is_empty() => {
                let i = r.below(h.len() as u64) as usize;
                h.remove(i);
                "mut.key-removed"
            }
            Y::Arr(a) if !a.is_empty() => {
                a.clear();
                "mut.list-emptied"
            }
            _ => {
                *node = Y::Null;
                "mut.nulled"
            }
        },
        4 => match node {
            Y::Hash(h) if !h.is_empty() => {
                let i = r.below(h.len() as u64) as usize;
                let kv = h[i].clone();
                h.push(kv);
                "mut.key-duplicated"
            }
            Y::Arr(a) if !a.is_empty() => {
                let n = *r.pick(&[127usize, 128, 129, 255, 256, 300]);
                let proto = a[0].clone();
                while a.len() < n {
                    a.push(proto.clone());
                }
                "mut.list-blown-up"
            }
            _ => {
                *node = boundary(r, class);
                "mut.boundary"
            }
        },
        5 => match node {
            Y::Hash(h) => {
                let k = match r.below(6) {
                    0 => Y::Null,
                    1 => Y::Int(1),
                    2 => Y::Arr(vec![]),
                    3 => Y::Bool(true),
                    4 => s("nosuchkey"),
                    _ => s(r.pick(&["prefix", "lifetime", "type", "policies", "addresses", "apply-subnet", "apply-routes", "dns-servers", "match-subnets", "pref64", "prefixes"])),
                };
                let v = if r.chance(1, 2) {
                    wrong_type(r)
                } else {
                    let c = *r.pick(&[Class::Duration, Class::PrefixAny, Class::Int, Class::IpAny]);
                    boundary(r, c)
                };
                h.push((k, v));
                "mut.key-added"
            }
            Y::Arr(a) => {
                a.push(wrong_type(r));
                "mut.element-added"
            }
            _ => {
                *node = wrong_type(r);
                "mut.wrong-type"
            }
        },
        6 => match node {
            Y::Hash(h) if !h.is_empty() => {
                let i = r.below(h.len() as u64) as usize;
                h[i].0 = match r.below(3) {
                    0 => Y::Int(3),
                    1 => Y::Null,
                    _ => s("renamed-key"),
                };
                "mut.key-renamed"
            }
            _ => {
                *node = boundary(r, class);
                "mut.boundary"
            }
        },
        7 | 8 => {
            // replace by a boundary of a DIFFERENT class (a prefix where a duration is expected, ...)
            let others: &[Class] = if class == Class::RangeIp {
                &[Class::Duration, Class::PrefixAny, Class::Int, Class::Text]
            } else {
                &[Class::Duration, Class::PrefixAny, Class::Int, Class::IpAny, Class::Text, Class::Domain, Class::SockAddr, Class::HwAddr]
            };
            let c = *r.pick(others);
            *node = boundary(r, c);
            "mut.cross-class"
        }
        _ => {
            *node = boundary(r, class);
            "mut.boundary"
        }
    }
}

/// Small hand-written documents aimed at the places where the loader and the
/// handlers do arithmetic or index (one per suspected defect and neighbours).
pub fn aimed(r: &mut Rng) -> Y {
    let len = *r.pick(LENS);
    match r.below(14) {
        0 => Y::Hash(vec![(s(r.pick(&["captive-portal", "dns-search", "dns-servers", "addresses", "acls", "api-listeners", "default-listen-style"])), wrong_type(r))]),
        1 => Y::Hash(vec![(s("router-advertisements"), Y::Hash(vec![(s("eth0"), Y::Hash(vec![(s(r.pick(&["lifetime", "reachable", "retransmit"])), boundary_duration(r))]))]))]),
        2 => Y::Hash(vec![(s("dhcp-policies"), Y::Arr(vec![Y::Hash(vec![(s(r.pick(&["apply-subnet", "match-subnet"])), boundary_prefix(r, Class::Prefix4))])]))]),
        3 => Y::Hash(vec![(
            s("dhcp-policies"),
            Y::Arr(vec![Y::Hash(vec![(s("apply-routes"), Y::Arr(vec![Y::Hash(vec![(s("prefix"), boundary_prefix(r, Class::Prefix4)), (s("next-hop"), s("192.0.2.254"))])]))])]),
        )]),
        4 => Y::Hash(vec![(
            s("router-advertisements"),
            Y::Hash(vec![(s("eth0"), Y::Hash(vec![(s("prefixes"), Y::Arr(vec![Y::Hash(if r.chance(1, 2) { vec![(s("on-link"), Y::Bool(true))] } else { vec![(s("prefix"), boundary_prefix(r, Class::Prefix6))] })]))]))]),
        )]),
        5 => Y::Hash(vec![(s("addresses"), Y::Arr(vec![boundary_prefix(r, Class::PrefixAny)]))]),
        6 => Y::Hash(vec![(
            s("dns-routes"),
            Y::Arr(vec![Y::Hash({
                let mut v = vec![(s("domain-suffixes"), Y::Arr(vec![s(r.pick(&["", "example.com"]))]))];
                if r.chance(1, 2) {
                    v.push((s("type"), s("forward")));
                }
                if r.chance(1, 3) {
                    v.push((s("dns-servers"), if r.chance(1, 2) { Y::Arr(vec![]) } else { Y::Null }));
                }
                v
            })]),
        )]),
        7 => Y::Hash(vec![(
            s("acls"),
            Y::Arr(vec![Y::Hash(vec![
                (s("match-subnets"), Y::Arr(vec![s(&format!("::ffff:{}/{}", ip4s(rand_ip4(r)), len)), boundary_prefix(r, Class::PrefixAny)])),
                (s("apply-access"), Y::Arr(vec![s("dns-recursion")])),
            ])]),
        )]),
        8 => Y::Hash(vec![(
            s("router-advertisements"),
            Y::Hash(vec![(s("eth0"), Y::Hash(vec![(s("pref64"), Y::Hash(vec![(s("prefix"), s(&format!("64:ff9b::/{}", len))), (s("lifetime"), boundary_duration(r))]))]))]),
        )]),
        9 => Y::Hash(vec![
            (s("dns-servers"), Y::Arr((0..*r.pick(&[126usize, 127, 128, 129, 255])).map(|i| s(&format!("2001:db8::{:x}", i + 1))).collect())),
            (s("router-advertisements"), Y::Hash(vec![(s("eth0"), Y::Null)])),
        ]),
        10 => Y::Hash(vec![
            (s("dns-search"), Y::Arr((0..*r.pick(&[100usize, 112, 113, 114, 126, 127, 128, 170, 171, 226, 227, 228, 255])).map(|i| s(&format!("d{:03}.example.com", i))).collect())),
            (s("router-advertisements"), Y::Hash(vec![(s("eth0"), Y::Null)])),
            (s("addresses"), Y::Arr(vec![s("192.0.2.0/24")])),
        ]),
        11 => Y::Hash(vec![
            (s("captive-portal"), s(&"u".repeat(*r.pick(&[253usize, 254, 255, 256, 2030, 2038, 2039, 2046, 5000])))),
            (s("router-advertisements"), Y::Hash(vec![(s("eth0"), Y::Null)])),
            (s("addresses"), Y::Arr(vec![s("192.0.2.0/24")])),
        ]),
        12 => Y::Hash(vec![(
            s("dhcp-policies"),
            Y::Arr(vec![Y::Hash(vec![
                (s("match-subnet"), s("192.0.2.0/24")),
                (s("apply-subnet"), s("192.0.2.0/24")),
                (s(r.pick(&["apply-lease-time", "apply-default-lease", "apply-max-lease", "apply-renewal-time", "apply-max-reassembly"])), boundary_duration(r)),
            ])]),
        )]),
        _ => Y::Hash(vec![(
            s("dhcp-policies"),
            Y::Arr(vec![Y::Hash(vec![
                (s("match-subnet"), s("192.0.2.0/24")),
                (s("apply-range"), {
                    let (a, b) = *r.pick(&[("192.0.2.10", "192.0.2.20"), ("192.0.2.255", "192.0.2.9"), ("255.255.255.250", "255.255.255.255"), ("0.0.0.0", "0.0.0.5"), ("192.0.2.7", "192.0.2.7")]);
                    Y::Hash(vec![(s("start"), s(a)), (s("end"), s(b))])
                }),
            ])]),
        )]),
    }
}

// ---------------------------------------------------------------- exhaustive boundary sweep
/// The boundary durations every duration-valued key is given in turn (integer
/// forms are cast `as u64` by parse_duration: -1 is u64::MAX seconds).
pub fn sweep_durations() -> Vec<Y> {
    vec![
        Y::Int(-1),
        Y::Int(0),
        Y::Int(1),
        s("0s"),
        Y::Int(65535),
        Y::Int(65536),
        Y::Int(4294967295),
        Y::Int(4294967296),
        Y::Raw("18446744073709551615".into()),
        s("18446744073709551615s"),
        s("18446744073709551615"),
        s("30500568904943w"),
        Y::Raw("18446744073709551616".into()),
        s("18446744073709551616"),
        Y::Int(i64::MAX),
        Y::Int(i64::MIN),
        s("18446744073709551608s"),
        s("18446744073709551609s"),
        s("4294967295s"),
        s("4294967296s"),
        s("65535s"),
        s("65536s"),
    ]
}

pub fn sweep_integers() -> Vec<Y> {
    vec![
        Y::Int(-1),
        Y::Int(0),
        Y::Int(1),
        Y::Int(127),
        Y::Int(128),
        Y::Int(255),
        Y::Int(256),
        Y::Int(1279),
        Y::Int(1280),
        Y::Int(65535),
        Y::Int(65536),
        Y::Int(2147483647),
        Y::Int(2147483648),
        Y::Int(-2147483648),
        Y::Int(-2147483649),
        Y::Int(4294967295),
        Y::Int(4294967296),
        Y::Int(i64::MAX),
        Y::Int(i64::MIN),
        Y::Raw("18446744073709551615".into()),
        Y::Raw("18446744073709551616".into()),
    ]
}

/// an RA interface with every section present; `edit` places the value under test
fn full_interface(edit: &dyn Fn(&mut Vec<(Y, Y)>)) -> Y {
    let mut h = vec![
        (s("hop-limit"), Y::Int(64)),
        (s("lifetime"), s("30m")),
        (s("reachable"), s("30s")),
        (s("retransmit"), s("1s")),
        (s("mtu"), Y::Int(1480)),
        (s("prefixes"), Y::Arr(vec![Y::Hash(vec![(s("prefix"), s("2001:db8:0:1::/64")), (s("valid"), s("30d")), (s("preferred"), s("7d"))])])),
        (s("dns-servers"), Y::Hash(vec![(s("addresses"), Y::Arr(vec![s("2001:db8::53")])), (s("lifetime"), s("1h"))])),
        (s("dns-search"), Y::Hash(vec![(s("domains"), Y::Arr(vec![s("example.com")])), (s("lifetime"), s("1h"))])),
        (s("pref64"), Y::Hash(vec![(s("prefix"), s("64:ff9b::/96")), (s("lifetime"), s("10m"))])),
        (s("captive-portal"), s("http://portal.example.com/")),
    ];
    edit(&mut h);
    Y::Hash(vec![
        (s("addresses"), Y::Arr(vec![s("192.0.2.0/24"), s("2001:db8::/64")])),
        (s("router-advertisements"), Y::Hash(vec![(s("eth0"), Y::Hash(h))])),
    ])
}

fn set(h: &mut Vec<(Y, Y)>, key: &str, v: Y) {
    if let Some(e) = h.iter_mut().find(|(k, _)| *k == s(key)) {
        e.1 = v;
    } else {
        h.push((s(key), v));
    }
}

fn set_in(h: &mut Vec<(Y, Y)>, outer: &str, key: &str, v: Y) {
    if let Some((_, Y::Hash(inner))) = h.iter_mut().find(|(k, _)| *k == s(outer)) {
        set(inner, key, v);
    }
}

/// Every duration-valued and integer-valued key of the grammar with every
/// boundary value in turn, in an otherwise valid document whose sections are
/// all present (so that the accepted configuration is really advertised /
/// served with the value), and the min/max advertisement intervals in every
/// pair.  Deterministic: part of every run.
pub fn sweep() -> Vec<Y> {
    let mut out = vec![];
    let durs = sweep_durations();
    let ints = sweep_integers();
    // router advertisements: interface level
    for key in ["lifetime", "reachable", "retransmit", "max-router-advertisement-interval", "min-router-advertisement-interval"] {
        for v in &durs {
            out.push(full_interface(&|h| set(h, key, v.clone())));
        }
    }
    for (outer, key) in [("dns-servers", "lifetime"), ("dns-search", "lifetime"), ("pref64", "lifetime")] {
        for v in &durs {
            out.push(full_interface(&|h| set_in(h, outer, key, v.clone())));
        }
    }
    for key in ["valid", "preferred"] {
        for v in &durs {
            out.push(full_interface(&|h| {
                if let Some((_, Y::Arr(a))) = h.iter_mut().find(|(k, _)| *k == s("prefixes")) {
                    if let Y::Hash(p) = &mut a[0] {
                        set(p, key, v.clone());
                    }
                }
            }));
        }
    }
    // the pair the loader cross-checks
    let mut both = durs.clone();
    both.extend([Y::Int(3), Y::Int(4), s("4s"), Y::Int(450), Y::Int(600), Y::Int(1349), Y::Int(1350), s("1350s"), Y::Int(1351), Y::Int(1800), s("1800s"), Y::Int(1801)]);
    for mn in &both {
        for mx in &both {
            for min_first in [true, false] {
                out.push(full_interface(&|h| {
                    if min_first {
                        set(h, "min-router-advertisement-interval", mn.clone());
                        set(h, "max-router-advertisement-interval", mx.clone());
                    } else {
                        set(h, "max-router-advertisement-interval", mx.clone());
                        set(h, "min-router-advertisement-interval", mn.clone());
                    }
                }));
            }
        }
    }
    for key in ["hop-limit", "mtu"] {
        for v in &ints {
            out.push(full_interface(&|h| set(h, key, v.clone())));
        }
    }
    // prefix lengths of the announced prefix and of PREF64, every length
    for len in (0..=130).chain([200, 255, 256]) {
        out.push(full_interface(&|h| {
            if let Some((_, Y::Arr(a))) = h.iter_mut().find(|(k, _)| *k == s("prefixes")) {
                if let Y::Hash(p) = &mut a[0] {
                    set(p, "prefix", s(&format!("2001:db8::/{}", len)));
                }
            }
        }));
        out.push(full_interface(&|h| set_in(h, "pref64", "prefix", s(&format!("64:ff9b::/{}", len)))));
    }
    // DHCP: lease keys and duration / integer typed options, served from inside the subnet
    let policy = |key: &str, v: &Y| -> Y {
        Y::Hash(vec![
            (s("addresses"), Y::Arr(vec![s("198.51.100.0/24")])),
            (
                s("dhcp-policies"),
                Y::Arr(vec![Y::Hash(vec![(s("match-subnet"), s("192.0.2.0/24")), (s("apply-subnet"), s("192.0.2.0/24")), (s(key), v.clone())])]),
            ),
        ])
    };
    for key in [
        "apply-default-lease", "apply-max-lease", "apply-lease-time", "apply-renewal-time", "apply-rebind-time", "apply-arp-timeout",
        "apply-mtu-timeout", "apply-max-reassembly", "apply-ipv6-preferred", "apply-tcp-keepalive-time",
    ] {
        for v in &durs {
            out.push(policy(key, v));
        }
    }
    for key in ["apply-mtu", "apply-time-offset", "apply-default-ttl", "apply-tcp-ttl", "apply-max-size", "apply-netbios-type"] {
        for v in &ints {
            out.push(policy(key, v));
        }
    }
    out
}

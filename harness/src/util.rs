#![allow(dead_code)]
//! Shared pieces of the correspondence harness: one PRNG, token output,
//! panic capture, run statistics.
use std::collections::BTreeMap;
use std::fmt::Write as _;

/// splitmix64: every random choice of a run derives from one seed.
#[derive(Clone)]
pub struct Rng(pub u64);
impl Rng {
    pub fn new(seed: u64) -> Self {
        Rng(seed ^ 0x9E37_79B9_7F4A_7C15)
    }
    pub fn next(&mut self) -> u64 {
        self.0 = self.0.wrapping_add(0x9E37_79B9_7F4A_7C15);
        let mut z = self.0;
        z = (z ^ (z >> 30)).wrapping_mul(0xBF58_476D_1CE4_E5B9);
        z = (z ^ (z >> 27)).wrapping_mul(0x94D0_49BB_1331_11EB);
        z ^ (z >> 31)
    }
    /// uniform in 0..n (n > 0)
    pub fn below(&mut self, n: u64) -> u64 {
        self.next() % n
    }
    pub fn range(&mut self, lo: u64, hi_incl: u64) -> u64 {
        lo + self.below(hi_incl - lo + 1)
    }
    pub fn chance(&mut self, num: u64, den: u64) -> bool {
        self.below(den) < num
    }
    pub fn pick<'a, T>(&mut self, xs: &'a [T]) -> &'a T {
        &xs[self.below(xs.len() as u64) as usize]
    }
    pub fn byte(&mut self) -> u8 {
        self.next() as u8
    }
    pub fn bytes(&mut self, n: usize) -> Vec<u8> {
        (0..n).map(|_| self.byte()).collect()
    }
    pub fn fork(&mut self) -> Rng {
        Rng(self.next())
    }
}

/// A case line: decimal tokens, input first, then what the implementation did.
#[derive(Default, Clone)]
pub struct Toks(pub String);
impl Toks {
    pub fn new() -> Self {
        Toks(String::new())
    }
    pub fn n(&mut self, v: u64) -> &mut Self {
        if !self.0.is_empty() {
            self.0.push(' ');
        }
        write!(self.0, "{}", v).unwrap();
        self
    }
    pub fn b(&mut self, v: bool) -> &mut Self {
        self.n(v as u64)
    }
    /// raw bytes, no length prefix
    pub fn raw(&mut self, bs: &[u8]) -> &mut Self {
        for &x in bs {
            self.n(x as u64);
        }
        self
    }
    /// length-prefixed bytes
    pub fn bytes(&mut self, bs: &[u8]) -> &mut Self {
        self.n(bs.len() as u64);
        self.raw(bs)
    }
    pub fn ip4(&mut self, ip: std::net::Ipv4Addr) -> &mut Self {
        self.n(u32::from(ip) as u64)
    }
    pub fn append(&mut self, other: &Toks) -> &mut Self {
        if !other.0.is_empty() {
            if !self.0.is_empty() {
                self.0.push(' ');
            }
            self.0.push_str(&other.0);
        }
        self
    }
}

/// Run `f`, turning a panic into `None`; the default panic hook is silenced
/// once at start-up (see `quiet_panics`).
pub fn catch<T>(f: impl FnOnce() -> T) -> Option<T> {
    std::panic::catch_unwind(std::panic::AssertUnwindSafe(f)).ok()
}

thread_local! {
    pub static LAST_PANIC: std::cell::RefCell<String> = std::cell::RefCell::new(String::new());
}
pub fn quiet_panics() {
    std::panic::set_hook(Box::new(|info| {
        let s = format!("{}", info);
        LAST_PANIC.with(|p| *p.borrow_mut() = s);
    }));
}
pub fn last_panic() -> String {
    LAST_PANIC.with(|p| p.borrow().clone())
}

/// What a generator reports about the cases it produced; ends up in the
/// evidence file.
#[derive(Default)]
pub struct Stats {
    pub counts: BTreeMap<String, u64>,
    pub notes: Vec<String>,
}
impl Stats {
    pub fn bump(&mut self, k: &str) {
        *self.counts.entry(k.to_string()).or_insert(0) += 1;
    }
    pub fn add(&mut self, k: &str, n: u64) {
        *self.counts.entry(k.to_string()).or_insert(0) += n;
    }
    pub fn to_json(&self) -> String {
        let mut s = String::from("{");
        let mut first = true;
        for (k, v) in &self.counts {
            if !first {
                s.push(',');
            }
            first = false;
            write!(s, "\"{}\":{}", k, v).unwrap();
        }
        s.push('}');
        s
    }
}

pub struct Args {
    pub seed: u64,
    pub n: u64,
    pub tier: String,
    /// when set: re-run exactly these case inputs (one per line, the input part
    /// of a case line) instead of generating
    pub replay: Option<String>,
    pub extra: Vec<String>,
}

pub fn parse_tokens(line: &str) -> Vec<u64> {
    line.split_whitespace().filter_map(|t| t.parse().ok()).collect()
}

/// Common `main`: `harness-<id> [--seed S] [--n N] [--tier quick|thorough] [--replay FILE] [extra...]`
/// prints one case line per input on stdout (`<input tokens> <implementation output tokens>`)
/// and a last line `#stats {json}` with the generator's distribution.
pub fn harness_main(id: &str, run: fn(&Args, &mut dyn std::io::Write) -> Stats) {
    use std::io::Write;
    let argv: Vec<String> = std::env::args().collect();
    let mut args = Args { seed: 1, n: 1000, tier: "quick".into(), replay: None, extra: vec![] };
    let mut i = 1;
    while i < argv.len() {
        match argv[i].as_str() {
            "--seed" => {
                args.seed = argv[i + 1].parse().expect("seed");
                i += 2;
            }
            "--n" => {
                args.n = argv[i + 1].parse().expect("n");
                i += 2;
            }
            "--tier" => {
                args.tier = argv[i + 1].clone();
                i += 2;
            }
            "--replay" => {
                args.replay = Some(argv[i + 1].clone());
                i += 2;
            }
            x => {
                args.extra.push(x.to_string());
                i += 1;
            }
        }
    }
    let _ = id;
    quiet_panics();
    let stdout = std::io::stdout();
    let mut out = std::io::BufWriter::with_capacity(1 << 20, stdout.lock());
    let stats = run(&args, &mut out);
    writeln!(out, "#stats {}", stats.to_json()).unwrap();
    out.flush().unwrap();
}

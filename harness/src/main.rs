//! Correspondence harness: `harness <property> --seed S --n N [--tier quick|thorough]
//! [--replay FILE]` runs the real erbium code (the tree this crate was built
//! against) on generated or replayed inputs and prints one case line per
//! input on stdout: `<input tokens> <implementation output tokens>`.
//! A last line `#stats {json}` reports the generator's distribution.
mod util;
mod c12;

use std::io::Write;

fn main() {
    let argv: Vec<String> = std::env::args().collect();
    if argv.len() < 2 {
        eprintln!("usage: harness <property> [--seed S] [--n N] [--tier T] [--replay FILE]");
        std::process::exit(2);
    }
    let mut args = util::Args {
        seed: 1,
        n: 1000,
        tier: "quick".into(),
        replay: None,
        extra: vec![],
    };
    let mut i = 2;
    while i < argv.len() {
        match argv[i].as_str() {
            "--seed" => {
                args.seed = argv[i + 1].parse().expect("seed");
                i += 2;
            }
            "--n" => {
                args.n = argv[i + 1].parse().expect("n");
                i += 2;
            }
            "--tier" => {
                args.tier = argv[i + 1].clone();
                i += 2;
            }
            "--replay" => {
                args.replay = Some(argv[i + 1].clone());
                i += 2;
            }
            x => {
                args.extra.push(x.to_string());
                i += 1;
            }
        }
    }
    util::quiet_panics();
    let stdout = std::io::stdout();
    let mut out = std::io::BufWriter::with_capacity(1 << 20, stdout.lock());
    let stats = match argv[1].as_str() {
        "C12" => c12::run(&args, &mut out),
        p => {
            eprintln!("unknown property {}", p);
            std::process::exit(2);
        }
    };
    writeln!(out, "#stats {}", stats.to_json()).unwrap();
    out.flush().unwrap();
}

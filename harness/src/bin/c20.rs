//! C20: the lease listing is valid JSON with one entry per stored lease; the
//! gauges count leases by expiry.
//! Case kinds (see coq/Model/EntryC20.v):
//!  1 via n row* status utf8 body    via 0: http::leases_to_json(rows); via 1: GET /api/v1/leases.json through
//!                                   serve_request on a store (built through the pool) holding exactly the rows
//!       row = ip cid(len bytes) start expire has_host [host(len code points)]
//!  3 now n expiry* impl             Pool::get_pool_metrics; impl = 0 active expired | 1 (error) | 2 (panic)
#[path = "../util.rs"]
mod util;
use erbium::dhcp::pool::{LeaseInfo, Pool};
use erbium_net::addr::WithPort as _;
use std::io::Write;
use std::net::Ipv4Addr;
use util::*;

struct Row {
    ip: u32,
    cid: Vec<u8>,
    start: u32,
    expire: u32,
    options: Vec<u8>,
}

/// what http.rs extracts from the stored options
fn hostname_of(options: &[u8]) -> Option<String> {
    erbium::dhcp::dhcppkt::parse_options(erbium::pktparser::Buffer::new(options)).ok().and_then(|o| o.get_hostname())
}

fn put_row(t: &mut Toks, r: &Row) {
    t.n(r.ip as u64).bytes(&r.cid).n(r.start as u64).n(r.expire as u64);
    match catch(|| hostname_of(&r.options)).flatten() {
        None => {
            t.n(0);
        }
        Some(h) => {
            let cps: Vec<u32> = h.chars().map(|c| c as u32).collect();
            t.n(1).n(cps.len() as u64);
            for c in cps {
                t.n(c as u64);
            }
        }
    }
}

fn put_body(t: &mut Toks, status: u16, body: &[u8]) {
    t.n(status as u64);
    match std::str::from_utf8(body) {
        Ok(s) => {
            let cps: Vec<u32> = s.chars().map(|c| c as u32).collect();
            t.n(1).n(cps.len() as u64);
            for c in cps {
                t.n(c as u64);
            }
        }
        Err(_) => {
            t.n(0).bytes(body);
        }
    }
}

fn now_secs() -> u64 {
    std::time::SystemTime::now().duration_since(std::time::UNIX_EPOCH).unwrap().as_secs()
}

struct Env {
    rt: tokio::runtime::Runtime,
    dhcp: Option<std::sync::Arc<erbium::dhcp::DhcpService>>,
    conf: erbium::config::SharedConfig,
    err: String,
}

fn make_env() -> Env {
    let rt = tokio::runtime::Builder::new_current_thread().enable_all().build().unwrap();
    // one rule without conditions: every client may read the listing
    let conf = erbium::config::verif_load_config_from_string("---\nacls:\n - apply-access: ['http-ro']\n").expect("config");
    let c2 = conf.clone();
    let r = catch(|| {
        rt.block_on(async {
            let netinfo = tokio::time::timeout(std::time::Duration::from_secs(10), erbium_net::netinfo::SharedNetInfo::new())
                .await
                .map_err(|_| "netinfo timeout".to_string())?;
            let pool = Pool::new_in_memory().map_err(|e| e.to_string())?;
            erbium::dhcp::DhcpService::verif_new_with_pool(netinfo, c2, pool).await
        })
    });
    let (dhcp, err) = match r {
        Some(Ok(d)) => (Some(std::sync::Arc::new(d)), String::new()),
        Some(Err(e)) => (None, e),
        None => (None, format!("panic: {}", last_panic())),
    };
    Env { rt, dhcp, conf, err }
}

/// Stores the rows through the pool's own allocation path (start/expiry are
/// then moved to the wanted values by shifting time), and returns what the
/// store holds afterwards, read back with a plain SELECT.
fn build_store(pool: &mut Pool, want: &[Row]) -> Option<Vec<Row>> {
    pool.verif_conn().execute("DELETE FROM leases", []).ok()?;
    for w in want {
        let ip = Ipv4Addr::from(w.ip);
        let mut addrs = erbium::dhcp::pool::PoolAddresses::new();
        addrs.insert(ip);
        let dur = std::time::Duration::from_secs(w.expire.saturating_sub(w.start) as u64);
        let before = now_secs();
        let l = pool.allocate_address(&w.cid, Some(ip), &addrs, dur, dur, &w.options).ok()?;
        if l.ip != ip {
            return None;
        }
        // move this row from (ts, ts+dur) to (start, start+dur); rows stored earlier are already in place
        let delta = before as i64 - w.start as i64;
        pool.verif_conn()
            .execute(
                "UPDATE leases SET start=start-?1, expiry=expiry-?1 WHERE address=?2",
                rusqlite::params![delta, ip.to_string()],
            )
            .ok()?;
        // a store upgraded from the pre-`options` schema holds NULL there (ALTER TABLE ADD COLUMN):
        // rows without options are stored that way half of the time
        if w.options.is_empty() && w.ip % 2 == 0 {
            pool.verif_conn()
                .execute("UPDATE leases SET options=NULL WHERE address=?1", rusqlite::params![ip.to_string()])
                .ok()?;
        }
    }
    // read back independently of get_leases
    let conn = pool.verif_conn();
    let mut st = conn.prepare("SELECT address, clientid, start, expiry, options FROM leases").ok()?;
    let rows = st
        .query_map([], |row| {
            Ok(Row {
                ip: row.get::<_, String>(0)?.parse::<Ipv4Addr>().map(u32::from).unwrap_or(0),
                cid: row.get::<_, Option<Vec<u8>>>(1)?.unwrap_or_default(),
                start: row.get::<_, i64>(2)? as u32,
                expire: row.get::<_, i64>(3)? as u32,
                options: row.get::<_, Option<Vec<u8>>>(4)?.unwrap_or_default(),
            })
        })
        .ok()?
        .collect::<Result<Vec<_>, _>>()
        .ok()?;
    Some(rows)
}

fn case_listing_served(env: &Env, want: &[Row]) -> Option<Toks> {
    let dhcp = env.dhcp.as_ref()?;
    let pool = dhcp.verif_pool();
    let mut rows = {
        let mut p = env.rt.block_on(pool.lock());
        build_store(&mut p, want)?
    };
    // in the order the store returns them: the handler's sort is part of the model (Http.sort_by_ip)
    if rows.len() > 1 && rows[0].ip % 3 == 0 {
        rows.reverse();
    }
    let mut t = Toks::new();
    t.n(1).n(1).n(rows.len() as u64);
    for r in &rows {
        put_row(&mut t, r);
    }
    let client = Ipv4Addr::LOCALHOST.with_port(40003);
    match catch(|| env.rt.block_on(erbium::http::verif::serve(env.conf.clone(), "GET", "/api/v1/leases.json", client, dhcp.clone()))) {
        Some((status, body)) => put_body(&mut t, status, &body),
        None => put_body(&mut t, 0, b""),
    }
    Some(t)
}

fn case_listing_pure(rows: &[Row]) -> Toks {
    let mut t = Toks::new();
    t.n(1).n(0).n(rows.len() as u64);
    for r in rows {
        put_row(&mut t, r);
    }
    let infos: Vec<LeaseInfo> = rows
        .iter()
        .map(|r| LeaseInfo { ip: Ipv4Addr::from(r.ip), client_id: r.cid.clone(), start: r.start, expire: r.expire, options: r.options.clone() })
        .collect();
    match catch(|| pure_render(&infos)) {
        Some(s) => put_body(&mut t, 200, s.as_bytes()),
        None => put_body(&mut t, 0, b""),
    }
    t
}

include!("../c20_pure.rs");

const PRIME: i64 = 7;

/// gauges: a store whose rows expire at now+off for the given offsets
fn case_gauges(offsets: &[i64]) -> Option<Toks> {
    let mut pool = Pool::new_in_memory().ok()?;
    for attempt in 0..5 {
        pool.verif_conn().execute("DELETE FROM leases", []).ok()?;
        let t0 = now_secs();
        for (i, off) in offsets.iter().enumerate() {
            let ip = Ipv4Addr::from(0x0a00_0000u32 + i as u32);
            let mut addrs = erbium::dhcp::pool::PoolAddresses::new();
            addrs.insert(ip);
            // stored with a lease time of 1000 s, then moved so that expiry = t0 + off
            let dur = std::time::Duration::from_secs(1000);
            let before = now_secs();
            pool.allocate_address(&[1, i as u8, (i >> 8) as u8], Some(ip), &addrs, dur, dur, &[]).ok()?;
            // placed PRIME seconds later than wanted; moved into place after the gauges were read once
            let delta = (before as i64 + 1000) - (t0 as i64 + off + PRIME);
            pool.verif_conn()
                .execute(
                    "UPDATE leases SET start=start-?1, expiry=expiry-?1 WHERE address=?2",
                    rusqlite::params![delta, ip.to_string()],
                )
                .ok()?;
        }
        // the gauges are read once, then time passes with no DHCP traffic at all (the stored
        // timestamps move PRIME seconds into the past), then they are read again: the second
        // reading is the one that is judged -- it must describe the store as it is NOW
        let _ = catch(|| pool.get_pool_metrics());
        pool.verif_conn().execute("UPDATE leases SET start=start-?1, expiry=expiry-?1", rusqlite::params![PRIME]).ok()?;
        let exps: Vec<i64> = {
            let conn = pool.verif_conn();
            let mut st = conn.prepare("SELECT expiry FROM leases ORDER BY address").ok()?;
            let x = st.query_map([], |r| r.get::<_, i64>(0)).ok()?.collect::<Result<Vec<_>, _>>().ok()?;
            x
        };
        let n0 = now_secs();
        let r = catch(|| pool.get_pool_metrics());
        let n1 = now_secs();
        if n0 != n1 || n0 != t0 {
            // a second boundary fell inside the case: the clock the implementation read is ambiguous
            if attempt < 4 {
                continue;
            }
            return None;
        }
        let mut t = Toks::new();
        t.n(3).n(n0).n(exps.len() as u64);
        for e in &exps {
            t.n(*e as u64);
        }
        match r {
            None => {
                t.n(2);
            }
            Some(Err(_)) => {
                t.n(1);
            }
            Some(Ok((a, e))) => {
                t.n(0).n(a as u64).n(e as u64);
            }
        }
        return Some(t);
    }
    None
}

// ---------------------------------------------------------------- generators
fn gen_hostname_bytes(r: &mut Rng) -> Vec<u8> {
    let len = match r.below(8) {
        0 => 0,
        1 => 1,
        2 => 255,
        3 => r.range(200, 255),
        _ => r.range(1, 24),
    } as usize;
    let mut v = Vec::with_capacity(len + 4);
    while v.len() < len {
        match r.below(12) {
            0 => v.push(r.below(32) as u8),                         // control characters
            1 => v.push(*r.pick(&[b'"', b'\\', b'/', 0x7f, b'\'', 0, 8, 9, 10, 12, 13, 0x1f, 0x20])),
            2 => v.extend_from_slice("\u{2028}".as_bytes()),
            3 => v.extend_from_slice(*r.pick(&["\u{2029}".as_bytes(), "\u{e9}".as_bytes(), "\u{1F600}".as_bytes(), "\u{FFFD}".as_bytes(), "\u{80}".as_bytes(), "\u{9f}".as_bytes(), "\u{10FFFF}".as_bytes(), "\u{FEFF}".as_bytes()])),
            4 => v.push(r.range(0x80, 0xff) as u8),                 // invalid UTF-8 (lone continuation / lead bytes)
            5 => v.extend_from_slice(*r.pick(&[&[0xc0u8, 0x80][..], &[0xed, 0xa0, 0x80], &[0xf4, 0x90, 0x80, 0x80], &[0xe2, 0x80], &[0xff], &[0xfe]])),
            6 => v.push(r.byte()),
            _ => v.push(r.range(0x61, 0x7a) as u8),
        }
    }
    v.truncate(255);
    v
}

fn gen_options(r: &mut Rng, stats: &mut Stats) -> Vec<u8> {
    let mut o = vec![];
    let kind = r.below(12);
    if kind == 0 {
        stats.bump("options.none");
        return o;
    }
    if r.chance(1, 3) {
        o.extend_from_slice(&[53, 1, 1]);
    }
    if r.chance(1, 4) {
        o.push(0);
    }
    if kind == 1 {
        stats.bump("options.no-hostname");
    } else {
        let h = gen_hostname_bytes(r);
        if kind == 2 && h.len() > 1 {
            // the option split in two (RFC 3396): the parts are concatenated
            stats.bump("options.hostname-split");
            let k = r.range(1, h.len() as u64 - 1) as usize;
            o.push(12);
            o.push(k as u8);
            o.extend_from_slice(&h[..k]);
            o.extend_from_slice(&[55, 2, 1, 3]);
            o.push(12);
            o.push((h.len() - k) as u8);
            o.extend_from_slice(&h[k..]);
        } else {
            stats.bump("options.hostname");
            o.push(12);
            o.push(h.len() as u8);
            o.extend_from_slice(&h);
        }
    }
    if r.chance(1, 3) {
        o.extend_from_slice(&[61, 3, 1, 2, 3]);
    }
    match kind {
        3 => {
            stats.bump("options.no-end-marker");
        }
        4 => {
            stats.bump("options.truncated");
            let k = r.below(o.len() as u64 + 1) as usize;
            o.truncate(k);
        }
        _ => o.push(255),
    }
    o
}

fn gen_cid(r: &mut Rng) -> Vec<u8> {
    let len = match r.below(8) {
        0 => 0,
        1 => 1,
        2 => 255,
        3 => 7,
        _ => r.range(2, 20),
    } as usize;
    let mut v = r.bytes(len);
    if r.chance(1, 3) {
        for x in v.iter_mut() {
            if r.chance(1, 2) {
                *x = *r.pick(&[0u8, 0x0a, 0x0f, 0x10, 0xa0, 0xff, b'"', b'\\']);
            }
        }
    }
    v
}

fn gen_rows(r: &mut Rng, stats: &mut Stats, served: bool) -> Vec<Row> {
    let n = match r.below(8) {
        0 => 0,
        1 => 1,
        2 => r.range(8, 14),
        _ => r.range(2, 5),
    };
    let now = now_secs() as u32;
    let base: u32 = *r.pick(&[0xc000_0200u32, 0x0a00_00f8, 0, 0xffff_fff0, 0x7f00_0000, 0x0163_6409]);
    let mut rows: Vec<Row> = vec![];
    for _ in 0..n {
        let ip = if served || r.chance(2, 3) {
            // distinct addresses (the address is the store's primary key)
            let mut ip = base.wrapping_add(r.below(16) as u32);
            while rows.iter().any(|x| x.ip == ip) {
                ip = ip.wrapping_add(1);
            }
            ip
        } else {
            r.next() as u32
        };
        let (start, expire) = if served {
            let start = now - r.below(100_000) as u32;
            (start, start + *r.pick(&[0u32, 1, 300, 86400, 1000]) + r.below(3) as u32)
        } else {
            match r.below(5) {
                0 => (0, 0),
                1 => (u32::MAX, u32::MAX),
                2 => (now, now + 300),
                3 => (*r.pick(&[9u32, 10, 99, 100, 999_999_999, 1_000_000_000, 4_294_967_295]), *r.pick(&[0u32, 1, 10, 4_294_967_294])),
                _ => (r.next() as u32, r.next() as u32),
            }
        };
        rows.push(Row { ip, cid: gen_cid(r), start, expire, options: gen_options(r, stats) });
    }
    if served {
        // a client may hold only one current lease per identifier in this construction; make identifiers distinct
        for (i, row) in rows.iter_mut().enumerate() {
            row.cid.push(i as u8);
            row.cid.truncate(255);
            if row.cid.len() == 255 {
                row.cid[0] = i as u8;
            }
        }
    }
    rows
}

struct Cur<'a>(&'a [u64], usize);
impl<'a> Cur<'a> {
    fn n(&mut self) -> Option<u64> {
        let v = self.0.get(self.1).copied();
        self.1 += 1;
        v
    }
    fn bytes(&mut self) -> Option<Vec<u8>> {
        let k = self.n()? as usize;
        if self.1 + k > self.0.len() {
            return None;
        }
        let v = self.0[self.1..self.1 + k].iter().map(|&x| x as u8).collect();
        self.1 += k;
        Some(v)
    }
}

/// replay: the host name is given as code points; it is stored again as a
/// well-formed option 12 carrying their UTF-8 encoding (same decoded name)
fn replay_line(env: &Env, toks: &[u64]) -> Option<Toks> {
    let mut c = Cur(toks, 0);
    match c.n()? {
        1 => {
            let via = c.n()?;
            let n = c.n()?;
            let mut rows = vec![];
            for _ in 0..n {
                let ip = c.n()? as u32;
                let cid = c.bytes()?;
                let start = c.n()? as u32;
                let expire = c.n()? as u32;
                let mut options = vec![];
                if c.n()? != 0 {
                    let k = c.n()?;
                    let mut s = String::new();
                    for _ in 0..k {
                        s.push(char::from_u32(c.n()? as u32)?);
                    }
                    let b = s.as_bytes();
                    for chunk in b.chunks(255) {
                        options.push(12);
                        options.push(chunk.len() as u8);
                        options.extend_from_slice(chunk);
                    }
                    if b.is_empty() {
                        options.extend_from_slice(&[12, 0]);
                    }
                }
                options.push(255);
                rows.push(Row { ip, cid, start, expire, options });
            }
            if via == 0 {
                Some(case_listing_pure(&rows))
            } else {
                case_listing_served(env, &rows)
            }
        }
        3 => {
            let now = c.n()? as i64;
            let n = c.n()?;
            let mut offs = vec![];
            for _ in 0..n {
                offs.push(c.n()? as i64 - now);
            }
            case_gauges(&offs)
        }
        _ => None,
    }
}

/// gauges as scraped over HTTP (`GET /metrics` through the real request handler) while the DHCP
/// side holds the lease store: rows are written under the lock BEFORE the scrape starts, the lock
/// is released a little later; the scrape must report the store as it is then.  Printed as a
/// kind-3 line (all expiries are a thousand seconds away from now, so no second boundary matters).
fn case_scrape_under_contention(env: &Env, k0: usize, k1: usize) -> Option<Toks> {
    let dhcp = env.dhcp.as_ref()?;
    let pool = dhcp.verif_pool();
    let client = Ipv4Addr::LOCALHOST.with_port(40004);
    let ins = |p: &Pool, i: usize, active: bool| {
        let now = now_secs() as i64;
        let (s, e) = if active { (now - 10, now + 1000) } else { (now - 2000, now - 1000) };
        let _ = p.verif_conn().execute(
            "INSERT OR REPLACE INTO leases (address, clientid, start, expiry) VALUES (?1, ?2, ?3, ?4)",
            rusqlite::params![Ipv4Addr::from(0x0a01_0000u32 + i as u32).to_string(), vec![7u8, i as u8], s, e],
        );
    };
    let body = env.rt.block_on(async {
        {
            let p = pool.lock().await;
            let _ = p.verif_conn().execute("DELETE FROM leases", []);
            for i in 0..k0 {
                ins(&p, i, i % 2 == 0);
            }
        }
        // a first, uncontended scrape
        let _ = erbium::http::verif::serve(env.conf.clone(), "GET", "/metrics", client, dhcp.clone()).await;
        let (tx, rx) = tokio::sync::oneshot::channel::<()>();
        let pool2 = pool.clone();
        let holder = tokio::spawn(async move {
            let p = pool2.lock().await;
            for i in k0..k0 + k1 {
                ins(&p, i, i % 3 != 0);
            }
            let _ = tx.send(());
            tokio::time::sleep(std::time::Duration::from_millis(250)).await;
            drop(p);
        });
        let _ = rx.await;
        let r = erbium::http::verif::serve(env.conf.clone(), "GET", "/metrics", client, dhcp.clone()).await;
        let _ = holder.await;
        r
    });
    let (status, body) = body;
    let text = String::from_utf8_lossy(&body).to_string();
    let gauge = |name: &str| -> Option<u64> {
        text.lines().find(|l| l.starts_with(name) && !l.starts_with('#')).and_then(|l| l.split_whitespace().nth(1)).and_then(|v| v.parse::<f64>().ok()).map(|v| v as u64)
    };
    let exps: Vec<i64> = {
        let p = env.rt.block_on(pool.lock());
        let conn = p.verif_conn();
        let mut st = conn.prepare("SELECT expiry FROM leases ORDER BY address").ok()?;
        let x = st.query_map([], |r| r.get::<_, i64>(0)).ok()?.collect::<Result<Vec<_>, _>>().ok()?;
        x
    };
    let mut t = Toks::new();
    t.n(3).n(now_secs()).n(exps.len() as u64);
    for e in &exps {
        t.n(*e as u64);
    }
    match (status, gauge("dhcp_active_leases"), gauge("dhcp_expired_leases")) {
        (200, Some(a), Some(e)) => {
            t.n(0).n(a).n(e);
        }
        _ => {
            t.n(1);
        }
    }
    Some(t)
}

/// the listing requested while DHCP traffic goes on: `n` leases are in the store, a DHCP transaction holds it
/// when the listing request arrives, and renewals of the leases `renew` (same client, same address, same times:
/// the row is written again) queue up behind the request.  Whatever the interleaving, the listing is one entry
/// per stored lease.  Printed as a kind-1 line (via 1).
fn case_listing_under_renewals(env: &Env, n: usize, renew: &[usize]) -> Option<Toks> {
    let dhcp = env.dhcp.as_ref()?;
    let pool = dhcp.verif_pool();
    let client = Ipv4Addr::LOCALHOST.with_port(40005);
    let now = now_secs() as u32;
    let rows: Vec<Row> = (0..n)
        .map(|i| Row { ip: 0x0a02_0000u32 + i as u32, cid: vec![5, (i >> 8) as u8, i as u8], start: now - 50, expire: now + 5000 + i as u32, options: vec![] })
        .collect();
    fn write(p: &Pool, r: &Row) {
        let _ = p.verif_conn().execute(
            "INSERT OR REPLACE INTO leases (address, clientid, start, expiry, options) VALUES (?1, ?2, ?3, ?4, ?5)",
            rusqlite::params![Ipv4Addr::from(r.ip).to_string(), r.cid, r.start, r.expire, r.options],
        );
    }
    let (status, body) = env.rt.block_on(async {
        {
            let p = pool.lock().await;
            let _ = p.verif_conn().execute("DELETE FROM leases", []);
            for r in &rows {
                write(&p, r);
            }
        }
        let (tx, rx) = tokio::sync::oneshot::channel::<()>();
        let (go_tx, go_rx) = tokio::sync::oneshot::channel::<()>();
        let pool2 = pool.clone();
        let holder = tokio::spawn(async move {
            let p = pool2.lock().await;
            let _ = tx.send(());
            let _ = go_rx.await;
            drop(p);
        });
        let _ = rx.await;
        let (conf, d2) = (env.conf.clone(), dhcp.clone());
        let listing = tokio::spawn(async move { erbium::http::verif::serve(conf, "GET", "/api/v1/leases.json", client, d2).await });
        tokio::time::sleep(std::time::Duration::from_millis(30)).await;
        let mut renewals = vec![];
        for &i in renew {
            let pool3 = pool.clone();
            let r = Row { ip: rows[i].ip, cid: rows[i].cid.clone(), start: rows[i].start, expire: rows[i].expire, options: vec![] };
            renewals.push(tokio::spawn(async move {
                let p = pool3.lock().await;
                write(&p, &r);
            }));
            tokio::time::sleep(std::time::Duration::from_millis(5)).await;
        }
        let _ = go_tx.send(());
        let out = listing.await.unwrap_or((0, vec![]));
        for h in renewals {
            let _ = h.await;
        }
        let _ = holder.await;
        out
    });
    let mut t = Toks::new();
    t.n(1).n(1).n(rows.len() as u64);
    for r in &rows {
        put_row(&mut t, r);
    }
    put_body(&mut t, status, &body);
    Some(t)
}

fn main() {
    harness_main("C20", run);
}

pub fn run(args: &Args, out: &mut dyn Write) -> Stats {
    let mut stats = Stats::default();
    let env = make_env();
    if env.dhcp.is_none() {
        eprintln!("c20: no DhcpService ({}), served listing cases skipped", env.err);
        stats.bump("served.unavailable");
    }
    if let Some(path) = &args.replay {
        for line in std::fs::read_to_string(path).expect("replay file").lines() {
            if line.starts_with('#') || line.trim().is_empty() {
                continue;
            }
            match replay_line(&env, &parse_tokens(line)) {
                Some(t) => writeln!(out, "{}", t.0).unwrap(),
                None => writeln!(out, "#unreadable {}", line).unwrap(),
            }
            stats.bump("replayed");
        }
        return stats;
    }
    let mut r = Rng::new(args.seed);
    // the empty store and the three boundary rows, always
    for offs in [&[][..], &[-1][..], &[0][..], &[1][..], &[-1, 0, 1][..], &[1, 1, 1][..], &[-5, -1][..]] {
        if let Some(t) = case_gauges(offs) {
            writeln!(out, "{}", t.0).unwrap();
            stats.bump("gauges.fixed");
        }
    }
    // scrapes while the DHCP side holds the store
    for (k0, k1) in [(0usize, 2usize), (3, 1), (2, 4), (5, 3)] {
        if let Some(t) = case_scrape_under_contention(&env, k0, k1) {
            writeln!(out, "{}", t.0).unwrap();
            stats.bump("gauges.scraped-under-contention");
        }
    }
    // listings requested while leases are renewed: small stores and stores of several hundred leases
    for (n, renew) in [(5usize, vec![0usize, 1]), (300, vec![2, 3, 4]), (600, vec![3, 4, 5]), (600, vec![0, 299, 300, 599])] {
        if let Some(t) = case_listing_under_renewals(&env, n, &renew) {
            writeln!(out, "{}", t.0).unwrap();
            stats.bump("listing.under-renewals");
        }
    }
    // every byte value once as a one-octet host name (pure renderer when present, else served)
    for b in 0..=255u8 {
        let rows = vec![Row { ip: 0xc000_0201, cid: vec![1, b], start: 1, expire: 2, options: vec![12, 1, b, 255] }];
        let t = if HAVE_PURE { Some(case_listing_pure(&rows)) } else if b % 4 == 0 || b < 40 || b == 0x5c || b == 0x7f { case_listing_served(&env, &rows) } else { None };
        if let Some(t) = t {
            writeln!(out, "{}", t.0).unwrap();
            stats.bump("listing.every-byte");
        }
    }
    for i in 0..args.n {
        match i % 8 {
            0 | 1 => {
                let n = match r.below(6) {
                    0 => 0,
                    1 => 1,
                    _ => r.range(2, 9),
                };
                let offs: Vec<i64> = (0..n)
                    .map(|_| match r.below(8) {
                        0 => -1,
                        1 => 0,
                        2 => 1,
                        3 => -(r.below(100_000) as i64),
                        4 => r.below(100_000) as i64,
                        _ => r.below(7) as i64 - 3,
                    })
                    .collect();
                if let Some(t) = case_gauges(&offs) {
                    writeln!(out, "{}", t.0).unwrap();
                    stats.bump("gauges");
                } else {
                    stats.bump("gauges.skipped-clock");
                }
            }
            2 => {
                let rows = gen_rows(&mut r, &mut stats, true);
                match case_listing_served(&env, &rows) {
                    Some(t) => {
                        writeln!(out, "{}", t.0).unwrap();
                        stats.bump("listing.served");
                    }
                    None => stats.bump("listing.served-skipped"),
                }
            }
            _ => {
                let rows = gen_rows(&mut r, &mut stats, !HAVE_PURE);
                let t = if HAVE_PURE { Some(case_listing_pure(&rows)) } else { case_listing_served(&env, &rows) };
                match t {
                    Some(t) => {
                        writeln!(out, "{}", t.0).unwrap();
                        stats.bump("listing");
                    }
                    None => stats.bump("listing.skipped"),
                }
            }
        }
    }
    stats
}

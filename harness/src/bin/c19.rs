//! C19: configuration loading is total; accepted configurations are safe to serve.
//!
//! Case kinds (decoded by coq/Model/EntryC19.v):
//!  1 text LOAD            document generated from the configuration grammar (harness/src/yamlgen.rs)
//!  2 text LOAD            byte-level mutation of a shipped example (erbium.conf.example, .EX blocks of the manual)
//!  3 id text LOAD         an unmutated example: must load
//!  4 P chars ORACLE LOAD4 one scalar offered to one of the modelled string parsers through the real loader
//!  5 ast NAME             `captive-portal: <ast>`: parse_string / type_to_name
//!  7 F ast ORACLES RESULT a whole fragment (F = 1 dns-routes entry, 2 `prefixes` entry, 3 pref64) against the model's
//!                         fragment parser; ast carries its strings (see `put_full_ast`, `frag_case`)
//!  8 K text Y [NDOCS AST ROWS NKEYS class*] LOAD'  (LOAD' = LOAD with `npol (0 | 1 size)*`, the pool of every top-level policy, before SERVE)
//!     every document (K = 1 grammar / sweep, 2 byte mutation, 3 example)
//!                         with its AST (values included) and the external parsers' answers, against the model of
//!                         the WHOLE loader (coq/Model/ConfigLoad.v); see `doc_case8`
//!  6 text what a b        a document NOT run: it expands more than 2^17 pool addresses (see `screen`)
//! where
//!  text   = length-prefixed UTF-8 octets
//!  LOAD   = 1 (error) | 2 (panic) | 0 SUMMARY SERVE
//!  SUMMARY= na (fam len addr)*  nacl (fam len addr)*   (addr: 1 word for v4, 4 32-bit words for v6)
//!            nroutes (type nservers)*  npref64 len*  nraprefix len*  nsubnet len*
//!  SERVE  = 0 | 10+stage  (a handler panicked: 11 DHCP, 12 DNS route, 13 router advertisement, 14 ACL)
//!  chars  = length-prefixed Unicode scalar values
//!  ORACLE = what std's address parser says about the part before the first '/':
//!           0 | 4 v | 6 w3 w2 w1 w0 (32-bit words)
//!  LOAD4  = 1 | 2 | 0 VALUE SERVE    VALUE depends on P (see `scalar_case`)
//!  ast    = 0 Real | 1 Integer | 2 String | 3 Boolean | 4 n ast*n | 5 n ast*n (hash values) | 7 Null | 8 BadValue
//!  NAME   = 0 (accepted) | 2 (panic) | 3 (scan error: document not loadable as YAML) | 1 k code*k (the type name in the error message)
#[path = "../util.rs"]
mod util;
#[path = "../yamlgen.rs"]
mod yamlgen;
use erbium::acl;
use erbium::config::{self, Config, Prefix, SharedConfig};
use erbium::dhcp;
use erbium::dhcp::dhcppkt;
use erbium::dhcp::dhcppkt::verif as hk;
use erbium::dns;
use erbium::radv;
use erbium_net::addr::{ToNetAddr as _, WithPort as _};
use std::cell::Cell;
use std::io::Write;
use util::*;
use yamlgen::Y;

/// the tree under test: the spec texts (manual, example file) are read from it at run time
fn repo_file(rel: &str) -> String {
    let root = std::env::var("VERIF_REPO").unwrap_or_else(|_| "/repo".into());
    std::fs::read_to_string(format!("{}/{}", root, rel)).unwrap_or_else(|e| panic!("{}/{}: {}", root, rel, e))
}

fn new_rt() -> tokio::runtime::Runtime {
    tokio::runtime::Builder::new_current_thread().enable_all().start_paused(true).build().expect("runtime")
}

/// class 0/1/2 and, when accepted, the configuration
fn load(rt: &tokio::runtime::Runtime, text: &str) -> (u64, Option<SharedConfig>, String) {
    if std::env::var_os("C19_TRACE").is_some() {
        // debugging aid: the document about to be loaded, unbuffered (to find a case that exhausts memory)
        eprintln!("{}", text.chars().take(400).collect::<String>().replace('\n', "\\n"));
    }
    let _ = rt;
    match catch(|| config::verif_load_config_from_string(text)) {
        None => (2, None, last_panic()),
        Some(Err(e)) => (1, None, e.to_string()),
        Some(Ok(c)) => (0, Some(c), String::new()),
    }
}

fn put_prefix(t: &mut Toks, p: &Prefix) {
    match p {
        Prefix::V4(p) => {
            t.n(4).n(p.prefixlen as u64).n(u32::from(p.addr) as u64);
        }
        Prefix::V6(p) => {
            let v = u128::from(p.addr);
            t.n(6).n(p.prefixlen as u64);
            t.n((v >> 96) as u64 & 0xffff_ffff).n((v >> 64) as u64 & 0xffff_ffff).n((v >> 32) as u64 & 0xffff_ffff).n(v as u64 & 0xffff_ffff);
        }
    }
}

fn fam_len(p: &Prefix) -> (u64, u64) {
    match p {
        Prefix::V4(p) => (4, p.prefixlen as u64),
        Prefix::V6(p) => (6, p.prefixlen as u64),
    }
}

fn policy_subnets(p: &dhcp::config::Policy, out: &mut Vec<(std::net::Ipv4Addr, u8)>) {
    if let Some(s) = &p.match_subnet {
        out.push((s.addr, s.prefixlen));
    }
    for v in p.apply_other.values().chain(p.match_other.values()) {
        if let Some(dhcppkt::DhcpOptionTypeValue::Routes(rs)) = v {
            for r in rs {
                out.push((r.prefix.addr, r.prefix.prefixlen));
            }
        }
    }
    for q in &p.policies {
        policy_subnets(q, out);
    }
}

fn summary(t: &mut Toks, cfg: &Config) {
    t.n(cfg.addresses.len() as u64);
    for p in &cfg.addresses {
        put_prefix(t, p);
    }
    let acl_prefixes: Vec<&Prefix> = cfg.acls.iter().flat_map(|a| a.subnet.iter().flatten()).collect();
    t.n(acl_prefixes.len() as u64);
    for p in acl_prefixes {
        put_prefix(t, p);
    }
    t.n(cfg.dns_routes.len() as u64);
    for r in &cfg.dns_routes {
        match &r.dest {
            dns::verif::Handler::Forward(v) => {
                t.n(0).n(v.len() as u64);
            }
            _ => {
                t.n(1).n(0);
            }
        }
    }
    let p64: Vec<u64> = cfg.ra.interfaces.iter().filter_map(|i| i.pref64.as_ref().map(|p| p.prefixlen as u64)).collect();
    t.n(p64.len() as u64);
    for l in p64 {
        t.n(l);
    }
    let rap: Vec<u64> = cfg.ra.interfaces.iter().flat_map(|i| i.prefixes.iter().map(|p| p.prefixlen as u64)).collect();
    t.n(rap.len() as u64);
    for l in rap {
        t.n(l);
    }
    let mut subs = vec![];
    for p in &cfg.dhcp.policies {
        policy_subnets(p, &mut subs);
    }
    t.n(subs.len() as u64);
    for (_, l) in subs {
        t.n(l as u64);
    }
}

fn dhcp_request(msgtype: u8, serverip: std::net::Ipv4Addr, want: Option<std::net::Ipv4Addr>, with_sid: bool) -> dhcp::DHCPRequest {
    let mut options = dhcppkt::DhcpOptions::default();
    options.other.insert(hk::mk_option(53), vec![msgtype]);
    options.other.insert(hk::mk_option(55), (1..=254u8).collect());
    options.other.insert(hk::mk_option(61), vec![1, 0, 0, 0x5e, 0, 0x53, 1]);
    options.other.insert(hk::mk_option(12), b"myhost".to_vec());
    if let Some(ip) = want {
        options.other.insert(hk::mk_option(50), ip.octets().to_vec());
    }
    if with_sid {
        options.other.insert(hk::mk_option(54), serverip.octets().to_vec());
    }
    dhcp::DHCPRequest {
        pkt: dhcppkt::Dhcp {
            op: hk::mk_op(1),
            htype: hk::mk_htype(1),
            hlen: 6,
            hops: 0,
            xid: 0x1234_5678,
            secs: 0,
            flags: 0x8000,
            ciaddr: std::net::Ipv4Addr::UNSPECIFIED,
            yiaddr: std::net::Ipv4Addr::UNSPECIFIED,
            siaddr: std::net::Ipv4Addr::UNSPECIFIED,
            giaddr: std::net::Ipv4Addr::UNSPECIFIED,
            chaddr: vec![0, 0, 0x5e, 0, 0x53, 1],
            sname: vec![],
            file: vec![],
            options,
        },
        serverip,
        ifindex: 1,
        if_mtu: Some(1500),
        if_router: Some(serverip),
    }
}

fn serve_dhcp(cfg: &Config) {
    let mut servers: Vec<std::net::Ipv4Addr> = vec![];
    for p in &cfg.addresses {
        if let Prefix::V4(p4) = p {
            servers.push(p4.addr);
            servers.push((u32::from(p4.addr) | 1).into());
        }
    }
    let mut subs = vec![];
    for p in &cfg.dhcp.policies {
        policy_subnets(p, &mut subs);
    }
    for (a, _) in subs.iter().take(3) {
        servers.push((u32::from(*a) | 1).into());
    }
    servers.push("198.18.0.1".parse().unwrap());
    servers.dedup();
    servers.truncate(5);
    let mut pool = dhcp::pool::Pool::new_in_memory().expect("in-memory pool");
    for sip in servers {
        let ids: std::collections::HashSet<std::net::Ipv4Addr> = [sip].into_iter().collect();
        let offer = dhcp::handle_pkt(&mut pool, &dhcp_request(1, sip, None, false), ids.clone(), cfg);
        let want = match &offer {
            Ok(reply) => {
                frame_of(sip, reply);
                Some(reply.yiaddr)
            }
            Err(_) => Some("192.0.2.99".parse().unwrap()),
        };
        if let Ok(reply) = dhcp::handle_pkt(&mut pool, &dhcp_request(3, sip, want, true), ids, cfg) {
            frame_of(sip, &reply);
        }
    }
}

/// what the receive loop does with a reply: serialise it and build the frame (a panic here is a panic of the service)
fn frame_of(sip: std::net::Ipv4Addr, reply: &dhcp::dhcppkt::Dhcp) {
    use dhcp::dhcppkt::Serialise as _;
    use erbium_net::addr::Inet4Addr;
    let buf = reply.serialise();
    if let Some(chaddr) = dhcp::verif::to_array(&reply.chaddr) {
        let _ = dhcp::verif::reply_frame(
            Inet4Addr::from(std::net::SocketAddrV4::new(sip, 67)),
            &[2, 0, 0, 0, 0, 0xfe],
            Inet4Addr::from(std::net::SocketAddrV4::new(reply.yiaddr, 68)),
            &chaddr,
            &buf,
        );
    }
}

fn dns_msg(name: &dns::dnspkt::Domain, rd: bool) -> dns::DnsMessage {
    use dns::dnspkt::*;
    dns::DnsMessage {
        in_query: DNSPkt {
            qid: 0x4242,
            rd,
            tc: false,
            aa: false,
            qr: false,
            opcode: OPCODE_QUERY,
            cd: false,
            ad: false,
            ra: false,
            rcode: NOERROR,
            bufsize: 4096,
            edns_ver: Some(0),
            edns_do: false,
            question: Question { qdomain: name.clone(), qclass: CLASS_IN, qtype: RR_A },
            answer: vec![],
            nameserver: vec![],
            additional: vec![],
            edns: None,
        },
        in_size: 40,
        local_ip: "192.0.2.1".parse().unwrap(),
        remote_addr: "192.0.2.7".parse::<std::net::Ipv4Addr>().unwrap().with_port(5353),
        protocol: dns::Protocol::Udp,
    }
}

async fn serve_dns(shared: &SharedConfig, cfg: &Config) {
    let handler = dns::verif::DnsRouteHandler::new(shared.clone()).await;
    let mut names: Vec<dns::dnspkt::Domain> = vec![];
    for r in cfg.dns_routes.iter().take(6) {
        for sfx in r.suffixes.iter().take(3) {
            names.push(sfx.clone());
            if let Ok(d) = format!("www.{}", sfx).parse() {
                names.push(d);
            }
        }
    }
    names.push("unrelated.test".parse().unwrap());
    // only names a client can put on the wire: labels of 1..63 octets, 253 in all
    names.retain(|d| {
        let txt = d.to_string();
        let txt = txt.trim_end_matches('.');
        txt.len() <= 253 && (txt.is_empty() || txt.split('.').all(|l| !l.is_empty() && l.len() <= 63))
    });
    for n in names {
        for rd in [false, true] {
            // a forwarded query would go to the network: the decision (and `dest[0]`) is taken
            // synchronously before that; the clock is paused, so the timeout costs nothing
            let _ = tokio::time::timeout(std::time::Duration::from_millis(50), handler.handle_query(&dns_msg(&n, rd))).await;
        }
    }
}

fn serve_ra(cfg: &Config) {
    use radv::icmppkt;
    let self6: std::net::Ipv6Addr = "fe80::1".parse().unwrap();
    let build = |intf: &radv::verif::Interface| {
        let mtu = match intf.mtu {
            config::ConfigValue::NotSpecified => Some(1500),
            config::ConfigValue::Value(v) => Some(v),
            config::ConfigValue::DontSet => None,
        };
        let msg = radv::verif::build_announcement_pure(cfg, intf, Some([2, 0, 0, 0, 0, 1]), mtu, self6, std::time::Duration::from_secs(1800));
        let bytes = icmppkt::serialise(&icmppkt::Icmp6::RtrAdvert(msg));
        let _ = icmppkt::parse(&bytes);
    };
    for intf in &cfg.ra.interfaces {
        build(intf);
    }
    // an interface without explicit section: prefixes come from the top-level `addresses`
    let prefixes: Vec<radv::verif::Prefix> = cfg
        .addresses
        .iter()
        .filter_map(|p| match p {
            Prefix::V6(p6) => Some(radv::verif::Prefix {
                addr: p6.addr,
                prefixlen: p6.prefixlen,
                onlink: true,
                autonomous: true,
                valid: std::time::Duration::from_secs(2592000),
                preferred: std::time::Duration::from_secs(604800),
            }),
            _ => None,
        })
        .collect();
    build(&radv::verif::Interface { prefixes, ..Default::default() });
}

fn serve_acl(cfg: &Config) {
    let mut clients: Vec<erbium_net::addr::NetAddr> = vec![];
    let v4 = |s: &str| s.parse::<std::net::Ipv4Addr>().unwrap().with_port(1234);
    let v6 = |s: &str| s.parse::<std::net::Ipv6Addr>().unwrap().with_port(1234);
    clients.push(v4("192.0.2.7"));
    clients.push(v4("127.0.0.1"));
    clients.push(v4("255.255.255.255"));
    clients.push(v6("2001:db8::7"));
    clients.push(v6("::ffff:192.0.2.7"));
    clients.push(v6("::1"));
    clients.push(erbium_net::addr::UnixAddr::new("/tmp/x").unwrap().to_net_addr());
    for a in cfg.acls.iter().take(8) {
        for p in a.subnet.iter().flatten().take(4) {
            match p {
                Prefix::V4(p4) => clients.push(p4.addr.with_port(1)),
                Prefix::V6(p6) => clients.push(p6.addr.with_port(1)),
            }
        }
    }
    for c in clients {
        for perm in [acl::PermissionType::DnsRecursion, acl::PermissionType::HttpLeases] {
            let _ = acl::require_permission(&cfg.acls, &acl::Attributes { addr: c }, perm);
        }
    }
}

/// 0, or 10+stage of the handler that panicked
fn serve(rt: &tokio::runtime::Runtime, shared: &SharedConfig) -> (u64, String) {
    let stage = Cell::new(0u64);
    let r = catch(|| {
        rt.block_on(async {
            let cfg = shared.read().await;
            stage.set(11);
            serve_dhcp(&cfg);
            stage.set(12);
            serve_dns(shared, &cfg).await;
            stage.set(13);
            serve_ra(&cfg);
            stage.set(14);
            serve_acl(&cfg);
        })
    });
    match r {
        Some(()) => (0, String::new()),
        None => (stage.get(), last_panic()),
    }
}

/// LOAD part of a case line; returns (class, serve code, message)
fn put_load(t: &mut Toks, text: &str) -> (u64, u64, String) {
    put_load_opt(t, text, false)
}

/// with_pools: after the summary, the pool of every top-level DHCP policy: npol (0 | 1 size)*
fn put_load_opt(t: &mut Toks, text: &str, with_pools: bool) -> (u64, u64, String) {
    let rt = new_rt();
    let (class, shared, msg) = load(&rt, text);
    t.n(class);
    if let Some(shared) = shared {
        {
            let cfg = shared.try_read().expect("config lock");
            summary(t, &cfg);
            if with_pools {
                t.n(cfg.dhcp.policies.len() as u64);
                for p in &cfg.dhcp.policies {
                    match &p.apply_address {
                        Some(set) => {
                            t.n(1).n(set.len() as u64);
                        }
                        None => {
                            t.n(0);
                        }
                    }
                }
            }
        }
        let (s, m) = serve(&rt, &shared);
        t.n(s);
        return (class, s, m);
    }
    (class, 0, msg)
}

fn note_outcome(stats: &mut Stats, what: &str, class: u64, s: u64, msg: &str) {
    let k = match (class, s) {
        (0, 0) => "accepted-served",
        (0, _) => "accepted-HANDLER-PANIC",
        (1, _) => "rejected",
        _ => "LOADER-PANIC",
    };
    stats.bump(&format!("{}.{}", what, k));
    if class == 2 || s != 0 {
        // where: the first "file:line" of the panic message, so that distinct defects are counted apart
        let at = msg.split(" at ").nth(1).unwrap_or(msg).split(|c: char| c == '\n' || c == ',').next().unwrap_or("").trim().trim_start_matches("panicked at ");
        let at: String = at.chars().filter(|c| c.is_ascii_alphanumeric() || matches!(c, '/' | '.' | ':' | '_' | '-')).take(80).collect();
        stats.bump(&format!("panic@{}", if at.is_empty() { "?" } else { &at }));
    }
}

/// Expansions the loader (apply-range, apply-subnet) or every DHCP request (`addresses`)
/// would materialise address by address.  Beyond 2^17 addresses the case is NOT run (the
/// process would be killed for memory, which no harness can turn into an outcome); it is
/// reported as known-finding class 1 instead.  Returns (what, a, b): 1 = apply-range
/// start..=end, 2 = apply-subnet /a, 3 = `addresses` IPv4 /a.
fn screen(text: &str) -> Option<(u64, u64, u64)> {
    use yaml_rust::Yaml;
    fn len_of(st: &str) -> Option<u64> {
        let mut it = st.split('/');
        let ip = it.next()?;
        let len: u8 = it.next()?.parse().ok()?;
        if it.next().is_some() {
            return None;
        }
        let _: std::net::Ipv4Addr = if ip == "$self4" { std::net::Ipv4Addr::UNSPECIFIED } else { ip.parse().ok()? };
        Some(len as u64)
    }
    fn walk(y: &Yaml, top: bool) -> Option<(u64, u64, u64)> {
        match y {
            Yaml::Array(a) => a.iter().find_map(|x| walk(x, false)),
            Yaml::Hash(h) => {
                for (k, v) in h {
                    match (k.as_str(), v) {
                        (Some("apply-range"), Yaml::Hash(rh)) => {
                            let get = |name: &str| -> Option<u32> {
                                let mut last = None;
                                for (rk, rv) in rh {
                                    if rk.as_str() == Some(name) {
                                        last = rv.as_str().and_then(|x| if x == "$self4" { Some(0) } else { x.parse::<std::net::Ipv4Addr>().ok().map(u32::from) });
                                    }
                                }
                                last
                            };
                            if let (Some(a), Some(b)) = (get("start"), get("end")) {
                                if b >= a && (b - a) as u64 + 1 > (1 << 17) {
                                    return Some((1, a as u64, b as u64));
                                }
                            }
                        }
                        (Some("apply-subnet"), Yaml::String(st)) => {
                            if let Some(l) = len_of(st) {
                                if (1..15).contains(&l) {
                                    return Some((2, l, 0));
                                }
                            }
                        }
                        (Some("addresses"), Yaml::Array(a)) if top => {
                            for x in a {
                                if let Some(l) = x.as_str().and_then(len_of) {
                                    if (1..15).contains(&l) {
                                        return Some((3, l, 0));
                                    }
                                }
                            }
                        }
                        _ => {}
                    }
                    if let Some(r) = walk(v, false) {
                        return Some(r);
                    }
                }
                None
            }
            _ => None,
        }
    }
    /// total number of addresses all expansions of the document materialise (saturating)
    fn total(y: &Yaml, top: bool) -> u64 {
        match y {
            Yaml::Array(a) => a.iter().map(|x| total(x, false)).fold(0u64, |a, b| a.saturating_add(b)),
            Yaml::Hash(h) => {
                let mut sum = 0u64;
                for (k, v) in h {
                    let here = match (k.as_str(), v) {
                        (Some("apply-subnet"), Yaml::String(st)) => len_of(st).filter(|l| *l <= 32).map(|l| 1u64 << (32 - l)).unwrap_or(0),
                        (Some("addresses"), Yaml::Array(a)) if top => a
                            .iter()
                            .filter_map(|x| x.as_str().and_then(len_of))
                            .filter(|l| *l <= 32)
                            .map(|l| 1u64 << (32 - l))
                            .fold(0u64, |a, b| a.saturating_add(b)),
                        (Some("apply-range"), Yaml::Hash(rh)) => {
                            let get = |name: &str| -> Option<u32> {
                                let mut last = None;
                                for (rk, rv) in rh {
                                    if rk.as_str() == Some(name) {
                                        last = rv.as_str().and_then(|x| if x == "$self4" { Some(0) } else { x.parse::<std::net::Ipv4Addr>().ok().map(u32::from) });
                                    }
                                }
                                last
                            };
                            match (get("start"), get("end")) {
                                (Some(a), Some(b)) if b >= a => (b - a) as u64 + 1,
                                _ => 0,
                            }
                        }
                        _ => 0,
                    };
                    sum = sum.saturating_add(here).saturating_add(total(v, false));
                }
                sum
            }
            _ => 0,
        }
    }
    let docs = yaml_rust::YamlLoader::load_from_str(text).ok()?;
    if docs.len() != 1 {
        return None;
    }
    if let Some(r) = walk(&docs[0], true) {
        return Some(r);
    }
    // many moderate expansions in one document (a list of 300 /16s): 4 = the sum of all of them
    let sum = total(&docs[0], true);
    if sum > (1 << 17) {
        return Some((4, sum.min(1 << 40), 0));
    }
    None
}

fn doc_case(kind: u64, text: &str, stats: &mut Stats, what: &str) -> Toks {
    if let Some((w, a, b)) = screen(text) {
        let mut t = Toks::new();
        t.n(6).bytes(text.as_bytes()).n(w).n(a).n(b);
        stats.bump(&format!("{}.not-run-huge-expansion", what));
        return t;
    }
    let mut t = Toks::new();
    t.n(kind).bytes(text.as_bytes());
    let (c, s, m) = put_load(&mut t, text);
    note_outcome(stats, what, c, s, &m);
    t
}

fn example_case(id: u64, text: &str, stats: &mut Stats) -> Toks {
    let mut t = Toks::new();
    t.n(3).n(id).bytes(text.as_bytes());
    let (c, s, m) = put_load(&mut t, text);
    note_outcome(stats, "example", c, s, &m);
    t
}

/// the examples as the project's own test-suite prepares them (test_man_configs.rs)
fn examples() -> Vec<String> {
    let mut out = vec![];
    let mut contents = repo_file("erbium.conf.example");
    out.push(contents.clone()); // as shipped (everything optional commented out)
    contents = contents.replace("\n#  ", "\n  ");
    contents = contents.replace("\n# ", "\n");
    contents = contents.replace("the-contents-of-the-top-level-addresses-field", "192.0.2.0/24");
    out.push(contents);
    let mut cur = String::new();
    let mut inside = false;
    let manpage = repo_file("man/erbium.conf.5");
    for line in manpage.lines() {
        if line == ".EX" {
            inside = true;
            cur.clear();
        } else if line == ".EE" {
            inside = false;
            out.push(cur.replace("\\fIthe-contents-of-the-top-level-addresses-field\\fP", "192.0.2.0/24"));
        } else if inside {
            cur.push_str(line);
            cur.push('\n');
        }
    }
    // one option value of tens of kilobytes (the loader sets no limit): replies around and beyond what a UDP
    // datagram holds (65507 octets) must still be safe to serve
    for n in [60000usize, 64738, 64750, 64770, 65300, 70000] {
        out.push(format!(
            "dhcp-policies:\n  - match-subnet: 192.0.2.0/24\n    apply-range: {{start: 192.0.2.10, end: 192.0.2.20}}\n    apply-wpad-url: \"{}\"\n",
            "a".repeat(n)
        ));
    }
    out
}

fn mutate_bytes(r: &mut Rng, src: &[u8]) -> Vec<u8> {
    let mut b = src.to_vec();
    for _ in 0..r.range(1, 4) {
        if b.is_empty() {
            break;
        }
        let i = r.below(b.len() as u64) as usize;
        match r.below(9) {
            0 => b[i] ^= 1 << r.below(8),
            1 => {
                let n = r.range(1, 40).min((b.len() - i) as u64) as usize;
                b.drain(i..i + n);
            }
            2 => {
                let n = r.range(1, 60).min((b.len() - i) as u64) as usize;
                let seg: Vec<u8> = b[i..i + n].to_vec();
                let at = r.below(b.len() as u64 + 1) as usize;
                b.splice(at..at, seg);
            }
            3 => b.truncate(i),
            4 => b[i] = *r.pick(b"[]{}:,-#&*!|>'\"%@` \n\t~?0/"),
            5 => {
                b.insert(i, *r.pick(b"[]{}:,-#&*!|>'\"%@` \n\t~?0/"));
            }
            6 => {
                // drop one whole line
                let start = b[..i].iter().rposition(|&c| c == b'\n').map(|p| p + 1).unwrap_or(0);
                let end = b[i..].iter().position(|&c| c == b'\n').map(|p| i + p + 1).unwrap_or(b.len());
                b.drain(start..end);
            }
            7 => {
                // replace a number by a boundary number
                if let Some(p) = b[i..].iter().position(|c| c.is_ascii_digit()) {
                    let s0 = i + p;
                    let e0 = s0 + b[s0..].iter().position(|c| !c.is_ascii_digit()).unwrap_or(b.len() - s0);
                    let rep = r.pick(&["0", "31", "32", "33", "64", "128", "129", "255", "256", "99999999999999999999", "-1", ""]).as_bytes().to_vec();
                    b.splice(s0..e0, rep);
                }
            }
            _ => {
                // change the indentation of one line
                let start = b[..i].iter().rposition(|&c| c == b'\n').map(|p| p + 1).unwrap_or(0);
                if r.chance(1, 2) {
                    b.insert(start, b' ');
                } else if b.get(start) == Some(&b' ') {
                    b.remove(start);
                }
            }
        }
    }
    b
}

// ---------------------------------------------------------------- scalar cases (kind 4)
fn put_oracle(t: &mut Toks, p: u64, st: &str) {
    let head = st.split('/').next().unwrap_or("");
    // dhcp/config.rs parses `Ipv4Addr` directly; config.rs goes through str_ip ($self4 / $self6)
    let ip: Option<std::net::IpAddr> = match (p, head) {
        (2..=4, h) => h.parse::<std::net::Ipv4Addr>().ok().map(std::net::IpAddr::V4),
        (_, "$self4") => Some(config::INTERFACE4),
        (_, "$self6") => Some(config::INTERFACE6),
        (_, h) => h.parse().ok(),
    };
    match ip {
        None => {
            t.n(0);
        }
        Some(std::net::IpAddr::V4(a)) => {
            t.n(4).n(u32::from(a) as u64);
        }
        Some(std::net::IpAddr::V6(a)) => {
            let v = u128::from(a);
            t.n(6).n((v >> 96) as u64 & 0xffff_ffff).n((v >> 64) as u64 & 0xffff_ffff).n((v >> 32) as u64 & 0xffff_ffff).n(v as u64 & 0xffff_ffff);
        }
    }
}

fn scalar_doc(p: u64, st: &str) -> String {
    let q = yamlgen::quote(st);
    match p {
        1 => format!("router-advertisements: {{eth0: {{lifetime: {}}}}}", q),
        2 => format!("dhcp-policies: [{{apply-subnet: {}}}]", q),
        3 => format!("dhcp-policies: [{{match-subnet: {}}}]", q),
        4 => format!("dhcp-policies: [{{apply-routes: [{{prefix: {}, next-hop: \"192.0.2.254\"}}]}}]", q),
        5 => format!("addresses: [{}]", q),
        6 => format!("acls: [{{match-subnets: [{}], apply-access: [\"dns-recursion\"]}}]", q),
        7 => format!("router-advertisements: {{eth0: {{prefixes: [{{prefix: {}}}]}}}}", q),
        _ => format!("router-advertisements: {{eth0: {{pref64: {{prefix: {}}}}}}}", q),
    }
}

/// VALUE per parser:
///  1 duration      secs_hi secs_lo (32-bit halves)
///  2 apply-subnet  count min max   (pool of the policy; 0 0 0 when empty)
///  3 match-subnet  len
///  4 route prefix  len
///  5 addresses     fam len
///  6 acl subnet    fam len
///  7 RA prefix     len
///  8 pref64        len
fn scalar_case(p: u64, st: &str, stats: &mut Stats) -> Toks {
    if let Some((w, a, b)) = screen(&scalar_doc(p, st)) {
        // e.g. `addresses: ["203.0.113.0/+2"]`: not run, known-finding class 1
        let mut t = Toks::new();
        t.n(6).bytes(scalar_doc(p, st).as_bytes()).n(w).n(a).n(b);
        stats.bump("scalar.not-run-huge-expansion");
        return t;
    }
    let mut t = Toks::new();
    t.n(4).n(p).n(st.chars().count() as u64);
    for c in st.chars() {
        t.n(c as u64);
    }
    put_oracle(&mut t, p, st);
    let text = scalar_doc(p, st);
    let rt = new_rt();
    let (class, shared, mut msg) = load(&rt, &text);
    t.n(class);
    let mut s = 0;
    if let Some(shared) = shared {
        {
            let cfg = shared.try_read().expect("config lock");
            match p {
                1 => {
                    let secs = match cfg.ra.interfaces.first().map(|i| &i.lifetime) {
                        Some(config::ConfigValue::Value(d)) => d.as_secs(),
                        _ => u64::MAX,
                    };
                    t.n(secs >> 32).n(secs & 0xffff_ffff);
                }
                2 => {
                    let set = cfg.dhcp.policies.first().and_then(|p| p.apply_address.clone()).unwrap_or_default();
                    let lo = set.iter().map(|a| u32::from(*a)).min().unwrap_or(0);
                    let hi = set.iter().map(|a| u32::from(*a)).max().unwrap_or(0);
                    t.n(set.len() as u64).n(lo as u64).n(hi as u64);
                }
                3 => {
                    t.n(cfg.dhcp.policies.first().and_then(|p| p.match_subnet).map(|s| s.prefixlen as u64).unwrap_or(999));
                }
                4 => {
                    let mut subs = vec![];
                    for p in &cfg.dhcp.policies {
                        policy_subnets(p, &mut subs);
                    }
                    t.n(subs.first().map(|x| x.1 as u64).unwrap_or(999));
                }
                5 => {
                    let (f, l) = cfg.addresses.first().map(fam_len).unwrap_or((0, 999));
                    t.n(f).n(l);
                }
                6 => {
                    let (f, l) = cfg.acls.first().and_then(|a| a.subnet.as_ref()).and_then(|v| v.first()).map(fam_len).unwrap_or((0, 999));
                    t.n(f).n(l);
                }
                7 => {
                    t.n(cfg.ra.interfaces.first().and_then(|i| i.prefixes.first()).map(|p| p.prefixlen as u64).unwrap_or(999));
                }
                _ => {
                    t.n(cfg.ra.interfaces.first().and_then(|i| i.pref64.as_ref()).map(|p| p.prefixlen as u64).unwrap_or(999));
                }
            }
        }
        let (sv, m) = serve(&rt, &shared);
        s = sv;
        msg = m;
        t.n(s);
    }
    note_outcome(stats, &format!("scalar{}", p), class, s, &msg);
    t
}

fn gen_scalar(r: &mut Rng, p: u64) -> String {
    use yamlgen::Class;
    let y = match p {
        1 => loop {
            match yamlgen::boundary_duration(r) {
                Y::Str(st) => break Y::Str(st),
                _ => continue,
            }
        },
        2 | 3 | 4 => yamlgen::boundary_prefix(r, Class::Prefix4),
        5 | 6 => yamlgen::boundary_prefix(r, Class::PrefixAny),
        _ => yamlgen::boundary_prefix(r, Class::Prefix6),
    };
    let mut st = match y {
        Y::Str(st) => st,
        _ => String::new(),
    };
    if r.chance(1, 10) {
        // character-level damage
        let mut cs: Vec<char> = st.chars().collect();
        let pool: Vec<char> = "0123456789smhdw_ /+-.:x\u{a0}\u{2003}\u{85}\u{1680}\u{200b}\u{3000}\u{feff}\u{e9}".chars().collect();
        let at = r.below(cs.len() as u64 + 1) as usize;
        match r.below(3) {
            0 if !cs.is_empty() => {
                cs.remove(at.min(cs.len() - 1));
            }
            1 if !cs.is_empty() => {
                let i = at.min(cs.len() - 1);
                cs[i] = *r.pick(&pool);
            }
            _ => cs.insert(at, *r.pick(&pool)),
        }
        st = cs.into_iter().collect();
    }
    st
}

// ---------------------------------------------------------------- type_to_name cases (kind 5)
fn put_ast(t: &mut Toks, y: &yaml_rust::Yaml) {
    use yaml_rust::Yaml::*;
    match y {
        Real(_) => {
            t.n(0);
        }
        Integer(_) => {
            t.n(1);
        }
        String(_) => {
            t.n(2);
        }
        Boolean(_) => {
            t.n(3);
        }
        Array(a) => {
            t.n(4).n(a.len() as u64);
            for x in a {
                put_ast(t, x);
            }
        }
        Hash(h) => {
            t.n(5).n(h.len() as u64);
            for (_, v) in h {
                put_ast(t, v);
            }
        }
        Alias(_) => {
            t.n(6);
        }
        Null => {
            t.n(7);
        }
        BadValue => {
            t.n(8);
        }
    }
}

fn name_codes(name: &str) -> Vec<u64> {
    let mut out = vec![];
    let mut rest = name.trim();
    loop {
        if let Some(r) = rest.strip_prefix("Array of ") {
            out.push(4);
            rest = r;
            continue;
        }
        out.push(match rest {
            "Real" => 0,
            "Integer" => 1,
            "String" => 2,
            "Boolean" => 3,
            "Hash" => 5,
            "Alias" => 6,
            "Null" => 7,
            "Bad Value" => 8,
            "Empty Array" => 10,
            _ => 99,
        });
        return out;
    }
}

fn gen_ast(r: &mut Rng, depth: u32) -> Y {
    match r.below(if depth > 3 { 7 } else { 10 }) {
        0 => Y::Real("2.5".into()),
        1 => Y::Int(r.next() as i64 >> r.below(64)),
        2 => Y::Str("x".into()),
        3 => Y::Bool(r.chance(1, 2)),
        4 => Y::Null,
        5 => Y::Bad,
        6 => Y::Arr(vec![]),
        7 | 8 => Y::Arr((0..r.range(0, 3)).map(|_| gen_ast(r, depth + 1)).collect()),
        _ => Y::Hash((0..r.range(0, 3)).map(|i| (Y::Str(format!("k{}", i)), gen_ast(r, depth + 1))).collect()),
    }
}

fn ast_from_tokens(c: &mut Cur, depth: u32) -> Option<Y> {
    if depth > 64 {
        return None;
    }
    Some(match c.n()? {
        0 => Y::Real("2.5".into()),
        1 => Y::Int(1),
        2 => Y::Str("x".into()),
        3 => Y::Bool(true),
        4 => {
            let n = c.n()?;
            let mut v = vec![];
            for _ in 0..n {
                v.push(ast_from_tokens(c, depth + 1)?);
            }
            Y::Arr(v)
        }
        5 => {
            let n = c.n()?;
            let mut v = vec![];
            for i in 0..n {
                v.push((Y::Str(format!("k{}", i)), ast_from_tokens(c, depth + 1)?));
            }
            Y::Hash(v)
        }
        7 => Y::Null,
        _ => Y::Bad,
    })
}

fn name_case(y: &Y, stats: &mut Stats) -> Toks {
    let text = format!("captive-portal: {}", yamlgen::render(y));
    let mut t = Toks::new();
    t.n(5);
    // what the loader sees is what yaml-rust makes of the text: tokenise THAT
    match yaml_rust::YamlLoader::load_from_str(&text) {
        Ok(docs) if docs.len() == 1 => match docs[0].as_hash().and_then(|h| h.iter().next()) {
            Some((_, v)) => put_ast(&mut t, v),
            None => {
                t.n(8);
            }
        },
        _ => {
            // not loadable as YAML at all (e.g. an alias to an unknown anchor is a scan error)
            put_y(&mut t, y);
            let rt = new_rt();
            let (class, _, _) = load(&rt, &text);
            t.n(if class == 2 { 2 } else { 3 });
            stats.bump("name.scan-error");
            return t;
        }
    }
    let rt = new_rt();
    let (class, _, msg) = load(&rt, &text);
    match class {
        0 => {
            t.n(0);
            stats.bump("name.accepted");
        }
        2 => {
            t.n(2);
            stats.bump("name.LOADER-PANIC");
            note_outcome(stats, "name", 2, 0, &msg);
        }
        _ => {
            let codes = name_codes(msg.rsplit(", not ").next().unwrap_or(""));
            t.n(1).n(codes.len() as u64);
            for c in codes {
                t.n(c);
            }
            stats.bump("name.rejected");
        }
    }
    t
}

fn put_y(t: &mut Toks, y: &Y) {
    match y {
        Y::Real(_) | Y::Raw(_) => {
            t.n(0);
        }
        Y::Int(_) => {
            t.n(1);
        }
        Y::Str(_) => {
            t.n(2);
        }
        Y::Bool(_) => {
            t.n(3);
        }
        Y::Arr(a) => {
            t.n(4).n(a.len() as u64);
            for x in a {
                put_y(t, x);
            }
        }
        Y::Hash(h) => {
            t.n(5).n(h.len() as u64);
            for (_, v) in h {
                put_y(t, v);
            }
        }
        Y::Null => {
            t.n(7);
        }
        Y::Bad => {
            t.n(8);
        }
    }
}


// ---------------------------------------------------------------- fragment cases (kind 7)
/// AST with its strings: 0 Real | 1 Integer | 2 n chars | 3 b | 4 n elem* | 5 n (key value)* | 7 Null | 8 Bad
fn put_full_ast(t: &mut Toks, y: &yaml_rust::Yaml, strings: &mut Vec<String>) {
    use yaml_rust::Yaml::*;
    match y {
        Real(_) => {
            t.n(0);
        }
        Integer(_) => {
            t.n(1);
        }
        String(st) => {
            t.n(2).n(st.chars().count() as u64);
            for c in st.chars() {
                t.n(c as u64);
            }
            strings.push(st.clone());
        }
        Boolean(b) => {
            t.n(3).b(*b);
        }
        Array(a) => {
            t.n(4).n(a.len() as u64);
            for x in a {
                put_full_ast(t, x, strings);
            }
        }
        Hash(h) => {
            t.n(5).n(h.len() as u64);
            for (k, v) in h {
                put_full_ast(t, k, strings);
                put_full_ast(t, v, strings);
            }
        }
        Alias(_) | BadValue => {
            t.n(8);
        }
        Null => {
            t.n(7);
        }
    }
}

fn full_ast_from_tokens(c: &mut Cur, depth: u32) -> Option<Y> {
    if depth > 64 {
        return None;
    }
    Some(match c.n()? {
        0 => Y::Real("2.5".into()),
        1 => Y::Int(1),
        2 => Y::Str(c.chars()?),
        3 => Y::Bool(c.n()? != 0),
        4 => {
            let n = c.n()?;
            let mut v = vec![];
            for _ in 0..n {
                v.push(full_ast_from_tokens(c, depth + 1)?);
            }
            Y::Arr(v)
        }
        5 => {
            let n = c.n()?;
            let mut v = vec![];
            for _ in 0..n {
                let k = full_ast_from_tokens(c, depth + 1)?;
                let x = full_ast_from_tokens(c, depth + 1)?;
                v.push((k, x));
            }
            Y::Hash(v)
        }
        7 => Y::Null,
        _ => Y::Bad,
    })
}

fn frag_doc(f: u64, y: &Y) -> String {
    let a = yamlgen::render(y);
    match f {
        1 => format!("dns-routes: [{}]", a),
        2 => format!("router-advertisements: {{eth0: {{prefixes: [{}]}}}}", a),
        _ => format!("router-advertisements: {{eth0: {{pref64: {}}}}}", a),
    }
}

fn gen_frag(r: &mut Rng, f: u64) -> Y {
    let scalar = |r: &mut Rng| -> Y {
        match r.below(10) {
            0 => Y::Null,
            1 => Y::Int(5),
            2 => Y::Bool(true),
            3 => Y::Arr(vec![]),
            4 => Y::Hash(vec![]),
            5 => Y::Real("1.5".into()),
            _ => yamlgen::s(r.pick(&["forward", "forge-nxdomain", "other", "", "5m", "2001:db8::/64", "64:ff9b::/96", "64:ff9b::/33", "192.0.2.0/24", "2001:db8::/129", "x"])),
        }
    };
    let ips = |r: &mut Rng| -> Y {
        match r.below(6) {
            0 => Y::Null,
            1 => yamlgen::s("192.0.2.53"),
            2 => Y::Arr(vec![]),
            3 => Y::Arr(vec![yamlgen::s("192.0.2.53"), yamlgen::s("2001:db8::53")]),
            4 => Y::Arr(vec![yamlgen::s(r.pick(&["bad", "$self4", "$self6", ""]))]),
            _ => Y::Arr(vec![yamlgen::s(r.pick(&["192.0.2.53", "2001:db8::53"]))]),
        }
    };
    let keys: &[&str] = match f {
        1 => &["domain-suffixes", "dns-servers", "type"],
        2 => &["prefix", "prefix", "on-link", "autonomous", "valid", "preferred"],
        _ => &["prefix", "prefix", "lifetime"],
    };
    if r.chance(1, 12) {
        return scalar(r);
    }
    let mut h = vec![];
    for _ in 0..r.below(5) {
        let k = if r.chance(1, 14) { "bogus" } else { *r.pick(keys) };
        if r.chance(1, 25) {
            h.push((Y::Int(3), scalar(r)));
            continue;
        }
        let v = if r.chance(1, 9) {
            scalar(r)
        } else {
            match k {
                "domain-suffixes" => Y::Arr((0..r.below(3)).map(|_| yamlgen::s(r.pick(&["", "example.com", "invalid"]))).collect()),
                "dns-servers" => ips(r),
                "type" => yamlgen::s(r.pick(&["forward", "forge-nxdomain", "forward", "other"])),
                "prefix" => yamlgen::s(r.pick(&["2001:db8::/64", "64:ff9b::/96", "64:ff9b::/32", "64:ff9b::/33", "64:ff9b::/0", "::/128", "::/129", "192.0.2.0/24", "2001:db8::", "2001:db8::/x"])),
                "on-link" | "autonomous" => Y::Bool(r.chance(1, 2)),
                "valid" | "preferred" | "lifetime" => {
                    if r.chance(1, 2) {
                        Y::Int(600)
                    } else {
                        yamlgen::s(r.pick(&["5m", "1h30m", "s", "99999999999999999999", "1x"]))
                    }
                }
                _ => scalar(r),
            }
        };
        h.push((yamlgen::s(k), v));
    }
    Y::Hash(h)
}

/// 7 F ast ORACLES RESULT;  ORACLES = k (n chars ORACLE)*;  RESULT = 1 | 2 | 3 (not YAML) |
/// 0 n v*  (F=1: the routes as (type, nservers); F=2: prefix lengths; F=3: PREF64 lengths) SERVE
fn frag_case(f: u64, y: &Y, stats: &mut Stats) -> Toks {
    let text = frag_doc(f, y);
    let mut t = Toks::new();
    t.n(7).n(f);
    let parsed = yaml_rust::YamlLoader::load_from_str(&frag_doc(f, &Y::Str("@@".into()))).ok();
    let docs = yaml_rust::YamlLoader::load_from_str(&text);
    let node = match (&docs, parsed) {
        (Ok(d), Some(_)) if d.len() == 1 => match f {
            1 => d[0]["dns-routes"][0].clone(),
            2 => d[0]["router-advertisements"]["eth0"]["prefixes"][0].clone(),
            _ => d[0]["router-advertisements"]["eth0"]["pref64"].clone(),
        },
        _ => yaml_rust::Yaml::BadValue,
    };
    let mut strings = vec![];
    put_full_ast(&mut t, &node, &mut strings);
    // the address parser's answer for the part before the first '/' of every string
    let mut heads: Vec<String> = strings.iter().map(|st| st.split('/').next().unwrap_or("").to_string()).collect();
    heads.sort();
    heads.dedup();
    t.n(heads.len() as u64);
    for st in &heads {
        t.n(st.chars().count() as u64);
        for c in st.chars() {
            t.n(c as u64);
        }
        put_oracle(&mut t, 0, st);
    }
    if docs.is_err() {
        t.n(3);
        stats.bump("frag.not-yaml");
        return t;
    }
    let rt = new_rt();
    let (class, shared, mut msg) = load(&rt, &text);
    t.n(class);
    let mut sv = 0;
    if let Some(shared) = shared {
        {
            let cfg = shared.try_read().expect("config lock");
            match f {
                1 => {
                    t.n(cfg.dns_routes.len() as u64);
                    for r in &cfg.dns_routes {
                        match &r.dest {
                            dns::verif::Handler::Forward(v) => t.n(0).n(v.len() as u64),
                            _ => t.n(1).n(0),
                        };
                    }
                }
                2 => {
                    let v: Vec<u64> = cfg.ra.interfaces.iter().flat_map(|i| i.prefixes.iter().map(|p| p.prefixlen as u64)).collect();
                    t.n(v.len() as u64);
                    for l in v {
                        t.n(l);
                    }
                }
                _ => {
                    let v: Vec<u64> = cfg.ra.interfaces.iter().filter_map(|i| i.pref64.as_ref().map(|p| p.prefixlen as u64)).collect();
                    t.n(v.len() as u64);
                    for l in v {
                        t.n(l);
                    }
                }
            }
        }
        let (s2, m) = serve(&rt, &shared);
        sv = s2;
        msg = m;
        t.n(sv);
    }
    note_outcome(stats, &format!("frag{}", f), class, sv, &msg);
    t
}


// ---------------------------------------------------------------- whole documents against the loader model (kind 8)
fn yaml_to_y(y: &yaml_rust::Yaml) -> Y {
    use yaml_rust::Yaml::*;
    match y {
        Real(r) => Y::Real(r.clone()),
        Integer(i) => Y::Int(*i),
        String(st) => Y::Str(st.clone()),
        Boolean(b) => Y::Bool(*b),
        Array(a) => Y::Arr(a.iter().map(yaml_to_y).collect()),
        Hash(h) => Y::Hash(h.iter().map(|(k, v)| (yaml_to_y(k), yaml_to_y(v))).collect()),
        Null => Y::Null,
        Alias(_) | BadValue => Y::Bad,
    }
}

/// AST with values: 0 Real | 1 sign hi lo Integer | 2 n chars | 3 b | 4 n elem* | 5 n (key value)* | 7 Null | 8 Bad
fn put_ast_values(t: &mut Toks, y: &yaml_rust::Yaml, strings: &mut Vec<String>) {
    use yaml_rust::Yaml::*;
    match y {
        Real(_) => {
            t.n(0);
        }
        Integer(i) => {
            let m = i.unsigned_abs();
            t.n(1).n((*i < 0) as u64).n(m >> 32).n(m & 0xffff_ffff);
        }
        String(st) => {
            t.n(2).n(st.chars().count() as u64);
            for c in st.chars() {
                t.n(c as u64);
            }
            strings.push(st.clone());
        }
        Boolean(b) => {
            t.n(3).b(*b);
        }
        Array(a) => {
            t.n(4).n(a.len() as u64);
            for x in a {
                put_ast_values(t, x, strings);
            }
        }
        Hash(h) => {
            t.n(5).n(h.len() as u64);
            for (k, v) in h {
                put_ast_values(t, k, strings);
                put_ast_values(t, v, strings);
            }
        }
        Alias(_) | BadValue => {
            t.n(8);
        }
        Null => {
            t.n(7);
        }
    }
}

/// one row per distinct string and per part before the first '/': what the external parsers say
fn put_oracle_rows(t: &mut Toks, strings: &[String]) {
    let mut all: Vec<String> = strings.to_vec();
    all.extend(strings.iter().map(|st| st.split('/').next().unwrap_or("").to_string()));
    all.sort();
    all.dedup();
    t.n(all.len() as u64);
    for st in &all {
        t.n(st.chars().count() as u64);
        for c in st.chars() {
            t.n(c as u64);
        }
        // str_ip
        let ip: Option<std::net::IpAddr> = match st.as_str() {
            "$self4" => Some(config::INTERFACE4),
            "$self6" => Some(config::INTERFACE6),
            h => h.parse().ok(),
        };
        match ip {
            None => {
                t.n(0);
            }
            Some(std::net::IpAddr::V4(a)) => {
                t.n(4).n(u32::from(a) as u64);
            }
            Some(std::net::IpAddr::V6(a)) => {
                let v = u128::from(a);
                t.n(6).n((v >> 96) as u64 & 0xffff_ffff).n((v >> 64) as u64 & 0xffff_ffff).n((v >> 32) as u64 & 0xffff_ffff).n(v as u64 & 0xffff_ffff);
            }
        }
        match st.parse::<std::net::Ipv4Addr>() {
            Ok(a) => {
                t.n(1).n(u32::from(a) as u64);
            }
            Err(_) => {
                t.n(0);
            }
        }
        let sock = matches!(catch(|| config::str_sockaddr(Some(st.clone()))), Some(Ok(_)));
        t.b(sock);
    }
}

/// 8 K text Y [NDOCS AST ROWS NKEYS class*] LOAD   (K: 1 grammar, 2 byte mutation, 3 example;
/// Y: the text is YAML; class*: the loader's class for every top-level key alone)
fn doc_case8(kind: u64, text: &str, stats: &mut Stats, what: &str) -> Toks {
    if kind != 3 {
        if let Some((w, a, b)) = screen(text) {
            let mut t = Toks::new();
            t.n(6).bytes(text.as_bytes()).n(w).n(a).n(b);
            stats.bump(&format!("{}.not-run-huge-expansion", what));
            return t;
        }
    }
    let mut t = Toks::new();
    t.n(8).n(kind).bytes(text.as_bytes());
    match catch(|| yaml_rust::YamlLoader::load_from_str(text)) {
        Some(Ok(docs)) => {
            t.n(1).n(docs.len() as u64);
            let mut strings = vec![];
            let null = yaml_rust::Yaml::Null;
            let first = docs.first().unwrap_or(&null);
            put_ast_values(&mut t, first, &mut strings);
            put_oracle_rows(&mut t, &strings);
            let rt = new_rt();
            match (docs.len(), first) {
                (1, yaml_rust::Yaml::Hash(h)) => {
                    t.n(h.len() as u64);
                    for (k, v) in h {
                        let single = yamlgen::render(&Y::Hash(vec![(yaml_to_y(k), yaml_to_y(v))]));
                        let (class, _, _) = load(&rt, &single);
                        t.n(class);
                    }
                }
                _ => {
                    t.n(0);
                }
            }
        }
        _ => {
            t.n(0);
            stats.bump(&format!("{}.not-yaml", what));
        }
    }
    let (c, s, m) = put_load_opt(&mut t, text, true);
    note_outcome(stats, what, c, s, &m);
    t
}

// ---------------------------------------------------------------- replay
pub struct Cur<'a>(pub &'a [u64], pub usize);
impl<'a> Cur<'a> {
    pub fn n(&mut self) -> Option<u64> {
        let v = self.0.get(self.1).copied();
        self.1 += 1;
        v
    }
    pub fn bytes(&mut self) -> Option<Vec<u8>> {
        let k = self.n()? as usize;
        if self.1 + k > self.0.len() {
            return None;
        }
        let v = self.0[self.1..self.1 + k].iter().map(|&x| x as u8).collect();
        self.1 += k;
        Some(v)
    }
    pub fn chars(&mut self) -> Option<String> {
        let k = self.n()? as usize;
        if self.1 + k > self.0.len() {
            return None;
        }
        let v = self.0[self.1..self.1 + k].iter().map(|&x| char::from_u32(x as u32).unwrap_or('\u{fffd}')).collect();
        self.1 += k;
        Some(v)
    }
}

fn replay_line(toks: &[u64], stats: &mut Stats) -> Option<Toks> {
    let mut c = Cur(toks, 0);
    match c.n()? {
        k @ (1 | 2 | 6) => {
            let k = if k == 6 { 1 } else { k };
            let b = c.bytes()?;
            Some(doc_case(k, &String::from_utf8_lossy(&b), stats, "replay"))
        }
        3 => {
            let id = c.n()?;
            let b = c.bytes()?;
            Some(example_case(id, &String::from_utf8_lossy(&b), stats))
        }
        4 => {
            let p = c.n()?;
            let st = c.chars()?;
            Some(scalar_case(p, &st, stats))
        }
        5 => {
            let y = ast_from_tokens(&mut c, 0)?;
            Some(name_case(&y, stats))
        }
        8 => {
            let k = c.n()?;
            let b = c.bytes()?;
            Some(doc_case8(k, &String::from_utf8_lossy(&b), stats, "replay"))
        }
        7 => {
            let f = c.n()?;
            let y = full_ast_from_tokens(&mut c, 0)?;
            Some(frag_case(f, &y, stats))
        }
        _ => None,
    }
}

fn main() {
    harness_main("C19", run);
}

pub fn run(args: &Args, out: &mut dyn Write) -> Stats {
    let mut stats = Stats::default();
    if let Some(path) = &args.replay {
        for line in std::fs::read_to_string(path).expect("replay file").lines() {
            if line.starts_with('#') || line.trim().is_empty() {
                continue;
            }
            match replay_line(&parse_tokens(line), &mut stats) {
                Some(t) => writeln!(out, "{}", t.0).unwrap(),
                None => writeln!(out, "#unreadable {}", line).unwrap(),
            }
            stats.bump("replayed");
        }
        return stats;
    }
    let mut r = Rng::new(args.seed);
    // the examples themselves (every run)
    let exs = examples();
    for (i, e) in exs.iter().enumerate() {
        writeln!(out, "{}", doc_case8(3, e, &mut stats, "example").0).unwrap();
    }
    // every duration / integer valued key with every boundary value, min x max intervals (every run)
    for y in yamlgen::sweep() {
        let text = yamlgen::render(&y);
        writeln!(out, "{}", doc_case8(1, &text, &mut stats, "sweep").0).unwrap();
    }
    let n = args.n.max(10);
    // (a) grammar documents: 45 %
    for i in 0..n * 45 / 100 {
        let y = if i % 4 == 3 {
            stats.bump("doc.aimed");
            let mut y = yamlgen::aimed(&mut r);
            if r.chance(1, 5) {
                stats.bump(yamlgen::mutate(&mut r, &mut y));
            }
            y
        } else {
            let mut y = yamlgen::valid_doc(&mut r);
            let k = match r.below(10) {
                0 => 0,
                1..=6 => 1,
                7 | 8 => 2,
                _ => 3,
            };
            if k == 0 {
                stats.bump("doc.valid");
            }
            for _ in 0..k {
                stats.bump(yamlgen::mutate(&mut r, &mut y));
            }
            y
        };
        let text = yamlgen::render(&y);
        writeln!(out, "{}", doc_case8(1, &text, &mut stats, "doc").0).unwrap();
    }
    // (a') scalars through the modelled string parsers: 30 %
    for i in 0..n * 30 / 100 {
        let p = 1 + (i % 8);
        let p = if p == 1 || r.chance(1, 8) { 1 } else { p };
        let st = gen_scalar(&mut r, p);
        writeln!(out, "{}", scalar_case(p, &st, &mut stats).0).unwrap();
    }
    // whole fragments (dns route, RA prefix entry, pref64) against the model's fragment parsers: 10 %
    for i in 0..n * 10 / 100 {
        let f = 1 + (i % 3);
        let y = gen_frag(&mut r, f);
        writeln!(out, "{}", frag_case(f, &y, &mut stats).0).unwrap();
    }
    // type names: 5 %
    for _ in 0..n * 5 / 100 {
        let y = gen_ast(&mut r, 0);
        writeln!(out, "{}", name_case(&y, &mut stats).0).unwrap();
    }
    // (c) byte-level mutations of the examples: 20 %
    for _ in 0..n * 20 / 100 {
        let e = r.pick(&exs[1..]).clone();
        let b = mutate_bytes(&mut r, e.as_bytes());
        let text = String::from_utf8_lossy(&b).to_string();
        writeln!(out, "{}", doc_case8(2, &text, &mut stats, "bytes").0).unwrap();
    }
    stats
}

//! C06: the DNS cache never serves data past its minimum TTL; served TTLs are the
//! original ones minus the whole seconds elapsed; entries only for the same key.
//! The real `CacheHandler::handle_query` (and `expire`) run under tokio's paused
//! clock against a scripted UDP upstream on loopback.
//! Case line (see coq/Model/EntryC06.v):  1 nops op*
#[path = "../util.rs"]
mod util;
use erbium::dns::{self, dnspkt, verif as hk};
use std::io::Write;
use std::sync::atomic::{AtomicU64, Ordering};
use std::sync::{Arc, Mutex};
use tokio::time::{Duration, Instant};
use util::*;

#[derive(Clone, Debug)]
struct Key {
    name: Vec<Vec<u8>>,
    qtype: u16,
    edns_do: bool,
    cd: bool,
}

#[derive(Clone, Debug)]
enum Script {
    Silent,
    Garbage,
    /// TTLs of the answer, authority and additional records; the rcode of the reply
    Reply(Vec<u32>, Vec<u32>, Vec<u32>, u8),
}

#[derive(Clone, Debug)]
enum Op {
    Query(Key, u16, Script),
    /// the same, but the look-up is made to wait for the cache's lock (held by the harness through
    /// the hook) while the clock moves on by the given time; it gets the lock only then
    HeldQuery(Duration, Key, u16, Script),
    Advance(Duration),
    Expire,
}

struct Upstream {
    addr: std::net::SocketAddr,
    hits: Arc<AtomicU64>,
    script: Arc<Mutex<Script>>,
}

fn build_reply(q: &[u8], a: &[u32], n: &[u32], d: &[u32], rcode: u8) -> Option<Vec<u8>> {
    if q.len() < 17 {
        return None;
    }
    let mut i = 12;
    while *q.get(i)? != 0 {
        i += 1 + q[i] as usize;
    }
    i += 5;
    let mut v = vec![q[0], q[1], 0x81, 0x80 | (rcode & 15), 0, 1];
    v.extend((a.len() as u16).to_be_bytes());
    v.extend((n.len() as u16).to_be_bytes());
    v.extend((d.len() as u16).to_be_bytes());
    v.extend(q.get(12..i)?);
    let mut id = 0u8;
    for ttl in a.iter().chain(n.iter()).chain(d.iter()) {
        v.extend([0xC0, 0x0C, 0, 1, 0, 1]);
        v.extend(ttl.to_be_bytes());
        v.extend([0, 4, 10, 0, 0, id]);
        id += 1;
    }
    Some(v)
}

async fn start_upstream() -> Upstream {
    let sock = tokio::net::UdpSocket::bind("127.0.0.1:0").await.expect("bind upstream");
    let addr = sock.local_addr().unwrap();
    let hits = Arc::new(AtomicU64::new(0));
    let script = Arc::new(Mutex::new(Script::Silent));
    let (h2, s2) = (hits.clone(), script.clone());
    tokio::spawn(async move {
        let mut buf = [0u8; 4096];
        loop {
            if let Ok((l, from)) = sock.recv_from(&mut buf).await {
                h2.fetch_add(1, Ordering::SeqCst);
                let s = s2.lock().unwrap().clone();
                match s {
                    Script::Silent => {}
                    Script::Garbage => {
                        let _ = sock.send_to(&[buf[0], buf[1], 0x81], from).await;
                    }
                    Script::Reply(a, n, d, rc) => {
                        if let Some(r) = build_reply(&buf[..l], &a, &n, &d, rc) {
                            let _ = sock.send_to(&r, from).await;
                        }
                    }
                }
            }
        }
    });
    Upstream { addr, hits, script }
}

fn mk_msg(k: &Key, qclass: u16) -> dns::DnsMessage {
    use erbium_net::addr::WithPort as _;
    let qdomain: dnspkt::Domain =
        k.name.iter().map(|l| dnspkt::Label::from(l.clone())).collect::<Vec<_>>().into();
    let in_query = dnspkt::DNSPkt {
        qid: 99,
        rd: true,
        tc: false,
        aa: false,
        qr: false,
        opcode: dnspkt::OPCODE_QUERY,
        cd: k.cd,
        ad: false,
        ra: false,
        rcode: dnspkt::NOERROR,
        bufsize: 4096,
        edns_ver: Some(0),
        edns_do: k.edns_do,
        question: dnspkt::Question { qdomain, qclass: dnspkt::Class(qclass), qtype: dnspkt::Type(k.qtype) },
        answer: vec![],
        nameserver: vec![],
        additional: vec![],
        edns: Some(dnspkt::EdnsData::new()),
    };
    dns::DnsMessage {
        in_query,
        in_size: 64,
        local_ip: std::net::IpAddr::V4(std::net::Ipv4Addr::new(127, 0, 0, 1)),
        remote_addr: std::net::Ipv4Addr::new(127, 0, 0, 1).with_port(5353),
        protocol: dns::Protocol::Udp,
    }
}

fn put_key(t: &mut Toks, k: &Key) {
    t.n(k.name.len() as u64);
    for l in &k.name {
        t.bytes(l);
    }
    t.n(k.qtype as u64).b(k.edns_do).b(k.cd);
}
fn put_ttls(t: &mut Toks, v: &[u32]) {
    t.n(v.len() as u64);
    for &x in v {
        t.n(x as u64);
    }
}
fn put_time(t: &mut Toks, d: Duration) {
    t.n(d.as_secs()).n(d.subsec_nanos() as u64);
}
fn put_rrs(t: &mut Toks, v: &[dnspkt::RR]) {
    t.n(v.len() as u64);
    for rr in v {
        t.n(rr.ttl as u64);
        t.n(match &rr.rdata {
            dnspkt::RData::Other(b) if b.len() == 4 => b[3] as u64,
            _ => 255,
        });
    }
}

async fn run_history(ops: &[Op]) -> Toks {
    let up = start_upstream().await;
    let cache = Arc::new(hk::cache::VerifCache::new());
    // warm-up exchange (class CH: never stored).  The first datagram exchange of a fresh runtime
    // can find the runtime idle before the reply is readable, which lets the paused clock run on
    // through the resolver's retransmission timers; later exchanges do not.  The clock readings
    // taken around every call are what the model is given, so a slip would not be a false alarm,
    // but it would waste the boundary the generator aims at.
    {
        *up.script.lock().unwrap() = Script::Reply(vec![1], vec![], vec![], 0);
        let msg = mk_msg(&Key { name: vec![b"warm".to_vec()], qtype: 1, edns_do: false, cd: false }, 3);
        let _ = cache.handle_query(&msg, up.addr).await;
        for _ in 0..4 {
            tokio::task::yield_now().await;
        }
    }
    let t0 = Instant::now();
    let mut t = Toks::new();
    t.n(1).n(ops.len() as u64);
    for op in ops {
        match op {
            Op::Query(..) | Op::HeldQuery(..) => {
                let (hold, k, qclass, script) = match op {
                    Op::Query(k, c, s) => (None, k, c, s),
                    Op::HeldQuery(h, k, c, s) => (Some(*h), k, c, s),
                    _ => unreachable!(),
                };
                match hold {
                    None => {
                        t.n(1);
                    }
                    Some(h) => {
                        t.n(4);
                        put_time(&mut t, h);
                    }
                }
                put_key(&mut t, k);
                t.n(*qclass as u64);
                match script {
                    Script::Silent => {
                        t.n(0);
                    }
                    Script::Garbage => {
                        t.n(2);
                    }
                    Script::Reply(a, n, d, rc) => {
                        if *rc == 0 {
                            t.n(1);
                        } else {
                            t.n(3).n(*rc as u64);
                        }
                        put_ttls(&mut t, a);
                        put_ttls(&mut t, n);
                        put_ttls(&mut t, d);
                    }
                }
                *up.script.lock().unwrap() = script.clone();
                let h0 = up.hits.load(Ordering::SeqCst);
                let msg = mk_msg(k, *qclass);
                let c2 = cache.clone();
                let addr = up.addr;
                let (tb, res) = match hold {
                    None => {
                        let tb = Instant::now() - t0;
                        (tb, tokio::spawn(async move { c2.handle_query(&msg, addr).await }).await)
                    }
                    Some(h) => {
                        // the look-up starts now, has to wait for the lock, and gets it `h` later:
                        // the instant that counts is the one at which it is served
                        let guard = cache.lock_exclusive().await;
                        let task = tokio::spawn(async move { c2.handle_query(&msg, addr).await });
                        for _ in 0..4 {
                            tokio::task::yield_now().await;
                        }
                        tokio::time::advance(h).await;
                        let tb = Instant::now() - t0;
                        drop(guard);
                        (tb, task.await)
                    }
                };
                let ta = Instant::now() - t0;
                for _ in 0..2 {
                    tokio::task::yield_now().await; // let the upstream task drain retransmissions
                }
                put_time(&mut t, tb);
                put_time(&mut t, ta);
                t.n(up.hits.load(Ordering::SeqCst) - h0);
                match res {
                    Err(_) => {
                        t.n(2);
                    }
                    Ok(Ok(p)) => {
                        t.n(0);
                        put_rrs(&mut t, &p.answer);
                        put_rrs(&mut t, &p.nameserver);
                        put_rrs(&mut t, &p.additional);
                    }
                    Ok(Err(e)) => {
                        t.n(1);
                        let s = format!("{}", e);
                        // outquery::Error is private: told apart by their messages
                        t.n(if s.contains("Timed out") || s.contains("Timeout") {
                            1
                        } else if s.contains("parse") || s.contains("Parse") {
                            5
                        } else {
                            9
                        });
                    }
                }
            }
            Op::Advance(d) => {
                tokio::time::advance(*d).await;
                t.n(2);
                put_time(&mut t, *d);
            }
            Op::Expire => {
                let now = Instant::now();
                let (next, len) = cache.expire(now).await;
                t.n(3);
                put_time(&mut t, now - t0);
                t.n(len as u64);
                put_time(&mut t, next - now);
            }
        }
    }
    t
}

// ---- generator --------------------------------------------------------------
const TTLS: &[u32] = &[0, 1, 1, 2, 2, 3, 5, 7, 8, 9, 30, 60, 600, 1 << 31, u32::MAX];
/// rcodes of scripted replies: every one of 0..5, and a few beyond
const RCODES: &[u8] = &[0, 0, 0, 0, 1, 2, 2, 2, 3, 3, 4, 5, 6, 9, 15];

fn gen_ttls(r: &mut Rng, allow_zero: bool) -> Vec<u32> {
    (0..r.below(4))
        .map(|_| loop {
            let t = *r.pick(TTLS);
            if t != 0 || allow_zero {
                break t;
            }
        })
        .collect()
}

fn base_keys() -> Vec<Key> {
    let n = |s: &[&str]| -> Vec<Vec<u8>> { s.iter().map(|x| x.as_bytes().to_vec()).collect() };
    vec![
        Key { name: n(&["www", "example", "com"]), qtype: 1, edns_do: false, cd: false },
        Key { name: n(&["example", "com"]), qtype: 28, edns_do: true, cd: false },
        Key { name: n(&["a"]), qtype: 16, edns_do: false, cd: true },
    ]
}

fn near_miss(k: &Key, r: &mut Rng) -> Key {
    let mut k = k.clone();
    match r.below(6) {
        0 => k.name[0][0] ^= 0x20, // the same name in another case
        1 => k.qtype = if k.qtype == 1 { 28 } else { 1 },
        2 => k.edns_do = !k.edns_do,
        3 => k.cd = !k.cd,
        4 => k.name.insert(0, b"x".to_vec()),
        _ => {
            k.name.remove(0);
            if k.name.is_empty() {
                k.name.push(b"b".to_vec());
            }
        }
    }
    k
}

fn gen_history(r: &mut Rng, stats: &mut Stats) -> Vec<Op> {
    let keys = base_keys();
    let mut ops = vec![];
    let rounds = r.range(1, 4);
    let mut used_huge = false;
    for _ in 0..rounds {
        let k = r.pick(&keys).clone();
        let qclass = if r.chance(1, 12) { 3 } else { 1 };
        let script = match r.below(14) {
            0 => Script::Silent,
            1 => Script::Garbage,
            2 => Script::Reply(vec![], vec![], vec![], *r.pick(RCODES)),
            3 => Script::Reply(gen_ttls(r, true), gen_ttls(r, true), gen_ttls(r, true), *r.pick(RCODES)),
            _ => {
                let mut a = gen_ttls(r, false);
                if a.is_empty() {
                    a.push(*r.pick(&[1u32, 2, 3, 5, 7, 8, 9, 30, 60]));
                }
                let rc = *r.pick(RCODES);
                if rc != 0 {
                    stats.bump(&format!("reply.rcode{}", rc));
                }
                // an error reply whose only records sit in the authority / additional section
                let (a, n) = if rc != 0 && r.chance(1, 2) { (vec![], a) } else { (a, gen_ttls(r, false)) };
                Script::Reply(a, n, gen_ttls(r, false), rc)
            }
        };
        let life_ms: Option<u64> = match &script {
            Script::Reply(a, n, d, _) => a.iter().chain(n.iter()).chain(d.iter()).min().map(|&m| m as u64 * 1000),
            _ => Some(8000),
        };
        ops.push(Op::Query(k.clone(), qclass, script));
        // look again around the moment the entry runs out
        let looks = r.range(1, 4);
        let mut elapsed_ms: u64 = 0;
        for _ in 0..looks {
            let life = life_ms.unwrap_or(0);
            let target: u64 = match r.below(14) {
                10 => life + 1000,
                11 => 7900,
                12 => 8100,
                13 => life + 999,
                0 => life.saturating_sub(1),
                1 | 2 => life,
                3 | 4 => life + 1,
                5 => life.saturating_sub(1000) + 999,
                6 => 999,
                7 => 1000,
                8 => 0,
                _ => r.below(life.min(100_000) + 2000),
            };
            if target > elapsed_ms {
                if target - elapsed_ms > 1_000_000_000 {
                    if used_huge {
                        continue;
                    }
                    used_huge = true;
                    stats.bump("advance.huge");
                }
                ops.push(Op::Advance(Duration::from_millis(target - elapsed_ms)));
                elapsed_ms = target;
            }
            if r.chance(1, 6) {
                ops.push(Op::Expire);
            }
            let kq = if r.chance(2, 3) {
                k.clone()
            } else if r.chance(1, 2) {
                stats.bump("query.near_miss_key");
                near_miss(&k, r)
            } else {
                r.pick(&keys).clone()
            };
            // what the upstream would say now (different TTLs, so a wrong hit/miss shows)
            let s2 = if r.chance(1, 8) {
                Script::Silent
            } else {
                Script::Reply(vec![*r.pick(&[7u32, 9, 11])], gen_ttls(r, true), vec![], *r.pick(RCODES))
            };
            let qc = if r.chance(1, 15) { 3 } else { 1 };
            // now and then the look-up has to wait for the cache's lock across the moment the entry
            // runs out (or across a whole second of its age)
            if life > elapsed_ms && life - elapsed_ms <= 5000 && r.chance(1, 3) {
                let hold = life - elapsed_ms + *r.pick(&[1u64, 1, 300, 0]);
                stats.bump("query.held_across_expiry");
                ops.push(Op::HeldQuery(Duration::from_millis(hold), kq, qc, s2));
                elapsed_ms += hold;
            } else if r.chance(1, 12) {
                let hold = *r.pick(&[1000u64, 999, 1001, 1500]);
                stats.bump("query.held");
                ops.push(Op::HeldQuery(Duration::from_millis(hold), kq, qc, s2));
                elapsed_ms += hold;
            } else {
                ops.push(Op::Query(kq, qc, s2));
            }
        }
        if r.chance(1, 3) {
            ops.push(Op::Expire);
        }
    }
    stats.add("ops", ops.len() as u64);
    ops
}

// ---- replay -------------------------------------------------------------------
struct Cur<'a>(&'a [u64], usize);
impl<'a> Cur<'a> {
    fn n(&mut self) -> Option<u64> {
        let v = self.0.get(self.1).copied();
        self.1 += 1;
        v
    }
    fn skip(&mut self, k: usize) -> Option<()> {
        self.1 += k;
        if self.1 <= self.0.len() {
            Some(())
        } else {
            None
        }
    }
    fn ttls(&mut self) -> Option<Vec<u32>> {
        let k = self.n()?;
        let mut v = vec![];
        for _ in 0..k {
            v.push(self.n()? as u32);
        }
        Some(v)
    }
    fn key(&mut self) -> Option<Key> {
        let nl = self.n()?;
        let mut name = vec![];
        for _ in 0..nl {
            let l = self.n()?;
            let mut b = vec![];
            for _ in 0..l {
                b.push(self.n()? as u8);
            }
            name.push(b);
        }
        Some(Key { name, qtype: self.n()? as u16, edns_do: self.n()? != 0, cd: self.n()? != 0 })
    }
    fn op(&mut self) -> Option<Op> {
        match self.n()? {
            code @ (1 | 4) => {
                let hold = if code == 4 { Some(Duration::new(self.n()?, self.n()? as u32)) } else { None };
                let k = self.key()?;
                let qclass = self.n()? as u16;
                let script = match self.n()? {
                    0 => Script::Silent,
                    2 => Script::Garbage,
                    3 => {
                        let rc = self.n()? as u8;
                        Script::Reply(self.ttls()?, self.ttls()?, self.ttls()?, rc)
                    }
                    _ => Script::Reply(self.ttls()?, self.ttls()?, self.ttls()?, 0),
                };
                self.skip(5)?; // tb ta asked
                match self.n()? {
                    0 => {
                        for _ in 0..3 {
                            let k = self.n()? as usize;
                            self.skip(2 * k)?;
                        }
                    }
                    1 => self.skip(1)?,
                    _ => {}
                }
                Some(match hold {
                    None => Op::Query(k, qclass, script),
                    Some(h) => Op::HeldQuery(h, k, qclass, script),
                })
            }
            2 => {
                let (s, ns) = (self.n()?, self.n()?);
                Some(Op::Advance(Duration::new(s, ns as u32)))
            }
            3 => {
                self.skip(5)?;
                Some(Op::Expire)
            }
            _ => None,
        }
    }
}

fn parse_history(toks: &[u64]) -> Option<Vec<Op>> {
    let mut c = Cur(toks, 0);
    if c.n()? != 1 {
        return None;
    }
    let k = c.n()?;
    let mut ops = vec![];
    for _ in 0..k {
        ops.push(c.op()?);
    }
    Some(ops)
}

fn run_one(ops: &[Op]) -> Toks {
    // a fresh runtime per history: the clock starts paused
    let rt = tokio::runtime::Builder::new_current_thread().enable_all().start_paused(true).build().unwrap();
    rt.block_on(run_history(ops))
}

fn main() {
    harness_main("C06", run);
}

pub fn run(args: &Args, out: &mut dyn Write) -> Stats {
    let mut stats = Stats::default();
    if let Some(path) = &args.replay {
        for line in std::fs::read_to_string(path).expect("replay file").lines() {
            if line.starts_with('#') || line.trim().is_empty() {
                continue;
            }
            match parse_history(&parse_tokens(line)) {
                Some(ops) => writeln!(out, "{}", run_one(&ops).0).unwrap(),
                None => writeln!(out, "#unreadable {}", line).unwrap(),
            }
            stats.bump("replayed");
        }
        return stats;
    }
    let mut r = Rng::new(args.seed);
    for _ in 0..args.n {
        let ops = gen_history(&mut r, &mut stats);
        writeln!(out, "{}", run_one(&ops).0).unwrap();
        stats.bump("histories");
    }
    stats
}

//! C02: DHCP leases exactly the addresses the configuration grants that client.
//! Case lines (see coq/Model/EntryC02.v):
//!   1 <config> <request> <set>     the address set the policy walk ends with (hook verif_policy_walk)
//!   2 <config> <request> n y* e    a small pool drained to exhaustion through handle_pkt
#[path = "../util.rs"]
mod util;
#[path = "../confgen.rs"]
mod confgen;
use confgen::*;
use erbium::dhcp;
use std::collections::BTreeSet;
use std::io::Write;
use std::net::Ipv4Addr;
use util::*;

const FULL_LIMIT: usize = 4096;
const DRAIN_LIMIT: usize = 300;

fn probe_points(c: &Conf, req: &Req) -> BTreeSet<u32> {
    let mut pts = BTreeSet::new();
    let mut around = |x: u64, pts: &mut BTreeSet<u32>| {
        for d in -3i64..=3 {
            let y = x as i64 + d;
            if (0..=u32::MAX as i64).contains(&y) {
                pts.insert(y as u32);
            }
        }
    };
    around(req.serverip as u64, &mut pts);
    for a in &c.addresses {
        if let Pfx::P4(n, l) = a {
            around(*n as u64, &mut pts);
            around(*n as u64 + (1u64 << (32 - *l as u32)) - 1, &mut pts);
        }
    }
    fn walk(p: &CPolicy, pts: &mut BTreeSet<u32>, around: &mut dyn FnMut(u64, &mut BTreeSet<u32>)) {
        for a in &p.ad {
            match a {
                AItem::Addr(x) => around(*x as u64, pts),
                AItem::Range(s, e) => {
                    around(*s as u64, pts);
                    around(*e as u64, pts);
                }
                AItem::Subnet(n, l) => {
                    around(*n as u64, pts);
                    around(*n as u64 + (1u64 << (32 - *l as u32)) - 1, pts);
                }
            }
        }
        for k in &p.kids {
            walk(k, pts, around);
        }
    }
    for p in &c.policies {
        walk(p, &mut pts, &mut around);
    }
    pts
}

fn header(kind: u64, c: &Conf, req: &Req) -> Toks {
    let mut t = Toks::new();
    t.n(kind);
    put_conf(&mut t, c);
    put_req(&mut t, req);
    t
}

/// returns the case line and, when the walk produced a set, its size
fn case_set(rt: &tokio::runtime::Runtime, c: &Conf, req: &Req, stats: &mut Stats) -> (Toks, Option<usize>) {
    let mut t = header(1, c, req);
    let yaml = render_yaml(c);
    match load(rt, &yaml) {
        Err(()) => {
            stats.bump("loader.panic");
            t.n(2);
            (t, None)
        }
        Ok(None) => {
            stats.bump("loader.rejected");
            t.n(7);
            (t, None)
        }
        Ok(Some(shared)) => {
            let conf = rt.block_on(shared.read());
            let request = mk_request(req);
            match catch(|| dhcp::verif_policy_walk(&conf, &request)) {
                None => {
                    stats.bump("walk.panic");
                    t.n(2);
                    (t, None)
                }
                Some((_, None, _)) => {
                    stats.bump("walk.no_pool");
                    t.n(0);
                    (t, None)
                }
                Some((_, Some(set), _)) => {
                    let n = set.len();
                    if n <= FULL_LIMIT {
                        stats.bump("walk.full_set");
                        let mut xs: Vec<u32> = set.iter().map(|a| u32::from(*a)).collect();
                        xs.sort_unstable();
                        t.n(1).n(n as u64).n(n as u64);
                        for x in xs {
                            t.n(x as u64);
                        }
                    } else {
                        stats.bump("walk.probed_set");
                        let pts = probe_points(c, req);
                        t.n(3).n(n as u64).n(pts.len() as u64);
                        for x in pts {
                            t.n(x as u64).b(set.contains(&Ipv4Addr::from(x)));
                        }
                    }
                    (t, Some(n))
                }
            }
        }
    }
}

/// None: the drain took too long to be meaningful (leases of the first clients may have expired:
/// the minimum lease is 300 s); such a run is discarded, not reported.
fn case_drain(rt: &tokio::runtime::Runtime, c: &Conf, req: &Req, stats: &mut Stats) -> Option<Toks> {
    let started = std::time::Instant::now();
    let mut t = header(2, c, req);
    let yaml = render_yaml(c);
    let shared = match load(rt, &yaml) {
        Ok(Some(s)) => s,
        _ => {
            t.n(0).n(9);
            return Some(t);
        }
    };
    let conf = rt.block_on(shared.read());
    let mut ys: Vec<u32> = vec![];
    let mut end = 0u64;
    let r = catch(|| {
        let mut pool = dhcp::pool::Pool::new_in_memory().expect("pool");
        for i in 0..(DRAIN_LIMIT as u32 + 8) {
            // same interface, same options, another client identifier
            let mut q = req.clone();
            q.opts.retain(|(c, _)| *c != 61); // a requested address (50), if any, is asked for by every client
            q.opts.push((61, vec![0xfe, (i >> 8) as u8, i as u8]));
            let request = mk_request(&q);
            let mut serverids = std::collections::HashSet::new();
            serverids.insert(request.serverip);
            match dhcp::handle_pkt(&mut pool, &request, serverids, &conf) {
                Ok(reply) => ys.push(u32::from(reply.yiaddr)),
                Err(e) => {
                    end = err_code(&e);
                    break;
                }
            }
        }
    });
    if r.is_none() {
        stats.bump("drain.panic");
        end = 8;
    }
    stats.bump("drain");
    stats.add("drain.addresses", ys.len() as u64);
    t.n(ys.len() as u64);
    for y in ys {
        t.n(y as u64);
    }
    t.n(end);
    if started.elapsed().as_secs() >= 120 {
        stats.bump("drain.discarded_too_slow");
        return None;
    }
    Some(t)
}

/// the layout of the manual's example: a pool on the receiving subnet with per-host reservations
fn gen_reservation_layout(r: &mut Rng, net: (u32, u8)) -> CPolicy {
    let mut outer = CPolicy { sn: Some(net), ..Default::default() };
    match r.below(3) {
        0 => outer.ad.push(AItem::Subnet(net.0, net.1.clamp(16, 30))),
        1 => {
            let a = addr_in(r, net);
            outer.ad.push(AItem::Range(a, a.saturating_add(*r.pick(&[0u32, 3, 20, 100]))));
        }
        _ => {
            let a = host_in(r, net);
            outer.ad.push(AItem::Range(net.0 + 1, a.max(net.0 + 1)));
        }
    }
    let k = r.range(1, 3);
    for i in 0..k {
        let mut kid = CPolicy { ch: Some(MACS[i as usize % 4].to_vec()), ..Default::default() };
        let a = match (&outer.ad[0], r.below(3)) {
            (AItem::Range(s, e), 0) => *s.min(e),
            (AItem::Range(s, e), 1) => *e.max(s),
            _ => addr_in(r, net),
        };
        kid.ad.push(AItem::Addr(a));
        if r.chance(1, 4) {
            // a third level: a host inside a host policy
            let mut g = CPolicy { mo: vec![(12, Some(Val::Bytes(b"alpha".to_vec())))], ..Default::default() };
            g.ad.push(AItem::Addr(addr_in(r, net)));
            kid.kids.push(g);
        }
        outer.kids.push(kid);
    }
    outer
}

/// the manual says apply-address / apply-subnet "can be provided multiple times": repeat a key
fn add_duplicate_key(r: &mut Rng, p: &mut CPolicy) -> bool {
    if let Some(pos) = p.ad.iter().position(|a| matches!(a, AItem::Addr(_))) {
        if let AItem::Addr(x) = p.ad[pos] {
            let y = if r.chance(1, 2) { x.wrapping_add(1) } else { x.wrapping_sub(1) };
            if r.chance(1, 2) {
                p.ad.push(AItem::Addr(y));
            } else {
                p.ad.insert(0, AItem::Addr(y));
            }
            return true;
        }
    }
    for k in p.kids.iter_mut() {
        if add_duplicate_key(r, k) {
            return true;
        }
    }
    false
}

/// condition-less parent -> [condition-less group whose descendants cannot match the client,
/// then the host's single-address reservation]; `deep` puts the whole thing one level down
/// (reservation at depth 3).  Returns the policy, the reserved host's MAC and its address.
fn gen_decoy_reservation_layout(r: &mut Rng, net: (u32, u8), deep: bool) -> (CPolicy, Vec<u8>, u32) {
    let mac = r.pick(&MACS)[..].to_vec();
    let a = host_in(r, net);
    let mut group = CPolicy::default();
    let k = r.below(3); // 0 = an empty condition-less group
    for _ in 0..k {
        let mut leaf = CPolicy { ch: Some(DECOY_MAC.to_vec()), ..Default::default() };
        leaf.ad.push(AItem::Addr(addr_in(r, net)));
        group.kids.push(leaf);
    }
    let mut resv = CPolicy { ch: Some(mac.clone()), ..Default::default() };
    resv.ad.push(AItem::Addr(a));
    let mut parent = CPolicy::default();
    if r.chance(1, 2) {
        // the parent's own pool (used by nobody unless a child matches)
        let s = addr_in(r, net);
        parent.ad.push(AItem::Range(s, s.saturating_add(*r.pick(&[0u32, 5, 40]))));
    }
    parent.kids.push(group);
    if r.chance(1, 3) {
        // a second decoy: a conditional policy that fails
        let mut other = CPolicy { ch: Some(DECOY_MAC.to_vec()), ..Default::default() };
        other.ad.push(AItem::Addr(addr_in(r, net)));
        parent.kids.push(other);
    }
    parent.kids.push(resv);
    if deep {
        let mut top = CPolicy::default();
        if r.chance(1, 2) {
            top.sn = Some(net);
        }
        // a condition-less decoy in front at this level too
        if r.chance(1, 2) {
            top.kids.push(CPolicy::default());
        }
        top.kids.push(parent);
        (top, mac, a)
    } else {
        (parent, mac, a)
    }
}

fn strip_clientid(p: &mut CPolicy) {
    p.mo.retain(|(c, _)| *c != 61);
    for k in p.kids.iter_mut() {
        strip_clientid(k);
    }
}

fn replay_line(rt: &tokio::runtime::Runtime, toks: &[u64], stats: &mut Stats) -> Option<Toks> {
    let mut c = Cur(toks, 0);
    let kind = c.n()?;
    let conf = get_conf(&mut c)?;
    let req = get_req(&mut c)?;
    match kind {
        1 => Some(case_set(rt, &conf, &req, stats).0),
        2 => case_drain(rt, &conf, &req, stats),
        _ => None,
    }
}

fn main() {
    harness_main("C02", run);
}

pub fn run(args: &Args, out: &mut dyn Write) -> Stats {
    let mut stats = Stats::default();
    let rt = runtime();
    if let Some(path) = &args.replay {
        for line in std::fs::read_to_string(path).expect("replay file").lines() {
            if line.starts_with('#') || line.trim().is_empty() {
                continue;
            }
            match replay_line(&rt, &parse_tokens(line), &mut stats) {
                Some(t) => writeln!(out, "{}", t.0).unwrap(),
                None => writeln!(out, "#unreadable {}", line).unwrap(),
            }
            stats.bump("replayed");
        }
        return stats;
    }
    let thorough = args.tier == "thorough";
    let mut r = Rng::new(args.seed);
    let g = GenCfg { depth: 3, width: 3, addr_items: true, cond8: 6 };
    let mut huge_budget = if thorough { 12 } else { 2 }; // /8../11: ~1.5 s and 1 GB each in the real code
    let mut i = 0;
    while i < args.n {
        // every prefix length 20..30 often, 12..19 regularly, 8..11 within budget
        let lens = match r.below(20) {
            0 if huge_budget > 0 => {
                huge_budget -= 1;
                stats.bump("gen.huge_prefix");
                (8, 11)
            }
            1..=4 => (12, 19),
            _ => (20, 30),
        };
        let (mut c, mut w) = gen_conf(&mut r, &g, lens);
        if lens.1 <= 11 {
            c.addresses.truncate(1);
        }
        let (mut req, net) = gen_req(&mut r, &w, &c);
        w.sip = Some(req.serverip);
        req.opts.retain(|(c, _)| *c != 53 && *c != 50 && *c != 54);
        req.opts.insert(0, (53, vec![1]));
        let k = r.range(0, 2);
        for _ in 0..k {
            match (net, r.below(2)) {
                (Some(n), 0) => c.policies.push(gen_reservation_layout(&mut r, n)),
                _ => c.policies.push(gen_policy(&mut r, &w, &g, 1, net)),
            }
        }
        // the reservation behind a condition-less group (first in the list, so nothing shadows it)
        let mut reserved: Option<(Vec<u8>, u32)> = None;
        if let (Some(n), true) = (net, r.chance(1, 5)) {
            let deep = r.chance(1, 2);
            let (p, mac, a) = gen_decoy_reservation_layout(&mut r, n, deep);
            c.policies.insert(0, p);
            reserved = Some((mac, a));
            stats.bump(if deep { "gen.decoy_reservation.depth3" } else { "gen.decoy_reservation.depth2" });
        }
        for p in c.policies.iter_mut() {
            strip_clientid(p);
        }
        if r.chance(1, 12) {
            for p in c.policies.iter_mut() {
                if add_duplicate_key(&mut r, p) {
                    stats.bump("gen.duplicate_key");
                    break;
                }
            }
        }
        for a in &c.addresses {
            if let Pfx::P4(_, l) = a {
                stats.bump(&format!("gen.addresses_len.{:02}", l));
            }
        }
        for j in 0..2 {
            if let (0, Some((mac, _))) = (j, &reserved) {
                // the reserved host itself
                req.chaddr = mac.clone();
            }
            if j > 0 {
                // another client on the same interface (reservations are per hardware address)
                req.chaddr = r.pick(&MACS)[..].to_vec();
                if let Some((mac, a)) = &reserved {
                    // somebody else, asking for the reserved address
                    while req.chaddr == *mac {
                        req.chaddr = r.pick(&MACS)[..].to_vec();
                    }
                    req.opts.retain(|(c, _)| *c != 50);
                    req.opts.push((50, a.to_be_bytes().to_vec()));
                }
                if r.chance(1, 2) {
                    req.opts.retain(|(c, _)| *c != 12);
                    req.opts.push((12, b"alpha".to_vec()));
                }
            }
            let (t, size) = case_set(&rt, &c, &req, &mut stats);
            writeln!(out, "{}", t.0).unwrap();
            i += 1;
            if let Some(n) = size {
                // every request of a drain expands all `addresses` prefixes again: with a /8../13 a
                // drain would outlast the leases it is counting
                let cheap = c.addresses.iter().all(|a| !matches!(a, Pfx::P4(_, l) if *l < 14));
                if n <= DRAIN_LIMIT && cheap && (reserved.is_some() || r.chance(1, 2)) {
                    if let Some(t) = case_drain(&rt, &c, &req, &mut stats) {
                        writeln!(out, "{}", t.0).unwrap();
                        i += 1;
                    }
                }
            }
        }
    }
    stats
}

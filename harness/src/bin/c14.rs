//! C14: DNS name compression / message codec round trip.
//! Case kinds 1 (decode bytes, re-encode, decode), 2 with size 65536 (encode
//! a packet, decode), 3 (names only behind a prefix).  Grammar and the case
//! functions are in ../dnsgen.rs.
#[path = "../util.rs"]
mod util;
#[path = "../dnsgen.rs"]
mod dnsgen;
use dnsgen::{Gen, Shape};
use std::io::Write;
use util::*;

fn main() {
    harness_main("C14", run);
}

pub fn run(args: &Args, out: &mut dyn Write) -> Stats {
    if let Some(s) = dnsgen::replay(args, out) {
        return s;
    }
    let mut g = Gen::new(args);
    for t in dnsgen::at16k_cases(&mut g.r, &mut g.stats) {
        writeln!(out, "{}", t.0).unwrap();
    }
    for t in dnsgen::dropfit_cases(&mut g.r, &mut g.stats) {
        writeln!(out, "{}", t.0).unwrap();
    }
    for i in 0..args.n {
        let t = if let Some(k) = g.big_slot(i) {
            match k % 10 {
                0 | 6 => g.k2_unlimited(Some(Shape::Cross16kMany)),
                1 | 7 => g.k2_unlimited(Some(Shape::Near64k)),
                2 | 8 => g.k2_unlimited(Some(Shape::Cross16kFew)),
                3 => g.k1(Some(Shape::Cross16kMany)),
                4 => g.k2_unlimited(Some(Shape::Many)),
                5 => g.k3(true),
                _ => g.k1(Some(Shape::Many)),
            }
        } else if let Some(k) = g.mid_slot(i) {
            match k % 4 {
                3 => g.k1(Some(Shape::Cross16kMany)),
                _ => g.k2_unlimited(Some(Shape::Cross16kMany)),
            }
        } else {
            match g.r.below(100) {
                0..=24 => g.k3(false),
                25..=69 => g.k2_unlimited(None),
                _ => g.k1(None),
            }
        };
        writeln!(out, "{}", t.0).unwrap();
    }
    g.stats
}

//! C12: DHCP codec round trip, Ethernet/IPv4/UDP frame, broadcast bit.
//! Case kinds (see coq/Model/EntryC12.v):
//!  1 flags impl_bool
//!  2 sip*4 sport smac*6 dip*4 dport dmac*6 payload  impl(0 frame | 2)
//!  3 m wire impl_decode           (m's options in the implementation's iteration order)
//!  4 bytes impl_decode
#[path = "../util.rs"]
mod util;
#[path = "../dhcpgen.rs"]
mod dhcpgen;
use dhcpgen::*;
use util::*;
use erbium::dhcp::dhcppkt;
use erbium::dhcp::dhcppkt::verif as hk;
use std::io::Write;

fn case_flags(flags: u16) -> Toks {
    let mut c = Cur(&[1, 1, 6, 0, 0, 0, 0, 0, 0, 0, 0, 0, 0, 0, 0], 0);
    let mut m = get_dhcp(&mut c).unwrap();
    m.flags = flags;
    let mut t = Toks::new();
    t.n(1).n(flags as u64).b(m.get_broadcast_flag());
    t
}

struct FrameArgs {
    sip: [u8; 4],
    sport: u16,
    smac: [u8; 6],
    dip: [u8; 4],
    dport: u16,
    dmac: [u8; 6],
    payload: Vec<u8>,
}

fn case_frame(a: &FrameArgs) -> Toks {
    use erbium_net::addr::Inet4Addr;
    use erbium_net::packet::{Fragment, Tail};
    let mut t = Toks::new();
    t.n(2).raw(&a.sip).n(a.sport as u64).raw(&a.smac).raw(&a.dip).n(a.dport as u64).raw(&a.dmac).bytes(&a.payload);
    let src = Inet4Addr::from(std::net::SocketAddrV4::new(a.sip.into(), a.sport));
    let dst = Inet4Addr::from(std::net::SocketAddrV4::new(a.dip.into(), a.dport));
    match catch(|| Fragment::new_udp4(src, &a.smac, dst, &a.dmac, Tail::Payload(&a.payload)).flatten()) {
        Some(f) => {
            t.n(0).bytes(&f);
        }
        None => {
            t.n(2);
        }
    }
    t
}

fn case_roundtrip(m: &dhcppkt::Dhcp) -> Toks {
    let mut t = Toks::new();
    t.n(3);
    put_dhcp(&mut t, m, false);
    match catch(|| m.serialise()) {
        Some(wire) => {
            t.bytes(&wire);
            put_decode(&mut t, catch(|| dhcppkt::parse(&wire)));
        }
        None => {
            t.n(0).n(2);
        }
    }
    t
}

fn gen_frame(r: &mut Rng, tier_thorough: bool) -> FrameArgs {
    let plen = match r.below(10) {
        0 => 0,
        1 => 1,
        2 => 1472,
        3 => 1471,
        // beyond the length fields: the debug profile panics on the u16 additions, the release
        // profile wraps; the model has the debug semantics, so only offered to a debug harness
        4 if tier_thorough && cfg!(debug_assertions) => *r.pick(&[65507u64, 65508, 65515, 65516, 65527, 65528, 65535, 70000]),
        4 if tier_thorough => 65507,
        _ => r.below(1473),
    } as usize;
    let mut payload = r.bytes(plen);
    if r.chance(1, 5) {
        for x in payload.iter_mut() {
            *x = 0xff;
        }
    } else if r.chance(1, 5) {
        for x in payload.iter_mut() {
            *x = 0;
        }
    }
    let ip = |r: &mut Rng| -> [u8; 4] {
        match r.below(4) {
            0 => [255, 255, 255, 255],
            1 => [0, 0, 0, 0],
            _ => [r.byte(), r.byte(), r.byte(), r.byte()],
        }
    };
    let mac = |r: &mut Rng| -> [u8; 6] {
        if r.chance(1, 4) {
            [255; 6]
        } else {
            [r.byte(), r.byte(), r.byte(), r.byte(), r.byte(), r.byte()]
        }
    };
    FrameArgs {
        sip: ip(r),
        sport: *r.pick(&[67u16, 68, 0, 65535, 1234]),
        smac: mac(r),
        dip: ip(r),
        dport: *r.pick(&[68u16, 67, 0, 65535, 4321]),
        dmac: mac(r),
        payload,
    }
}

fn replay_line(toks: &[u64]) -> Option<Toks> {
    let mut c = Cur(toks, 0);
    match c.n()? {
        1 => Some(case_flags(c.n()? as u16)),
        2 => {
            let sip = c.take(4)?.try_into().ok()?;
            let sport = c.n()? as u16;
            let smac = c.take(6)?.try_into().ok()?;
            let dip = c.take(4)?.try_into().ok()?;
            let dport = c.n()? as u16;
            let dmac = c.take(6)?.try_into().ok()?;
            let payload = c.bytes()?;
            Some(case_frame(&FrameArgs { sip, sport, smac, dip, dport, dmac, payload }))
        }
        3 => Some(case_roundtrip(&get_dhcp(&mut c)?)),
        4 => Some(case_decode(&c.bytes()?)),
        _ => None,
    }
}

fn main() {
    harness_main("C12", run);
}

pub fn run(args: &Args, out: &mut dyn Write) -> Stats {
    let mut stats = Stats::default();
    if let Some(path) = &args.replay {
        for line in std::fs::read_to_string(path).expect("replay file").lines() {
            if line.starts_with('#') || line.trim().is_empty() {
                continue;
            }
            match replay_line(&parse_tokens(line)) {
                Some(t) => writeln!(out, "{}", t.0).unwrap(),
                None => writeln!(out, "#unreadable {}", line).unwrap(),
            }
            stats.bump("replayed");
        }
        return stats;
    }
    let thorough = args.tier == "thorough";
    let mut r = Rng::new(args.seed);
    // all 65536 flag values, exhaustively, in both tiers
    for f in 0..=65535u16 {
        writeln!(out, "{}", case_flags(f).0).unwrap();
    }
    stats.add("flags", 65536);
    for i in 0..args.n {
        match i % 4 {
            0 => {
                let a = gen_frame(&mut r, thorough);
                stats.bump(if a.payload.len() % 2 == 0 { "frame.even" } else { "frame.odd" });
                writeln!(out, "{}", case_frame(&a).0).unwrap();
            }
            1 | 2 => {
                let m = gen_msg(&mut r);
                stats.bump("roundtrip");
                if m.options.other.values().any(|v| v.len() > 255) {
                    stats.bump("roundtrip.long_option");
                }
                if m.options.other.values().any(|v| v.is_empty()) {
                    stats.bump("roundtrip.empty_option");
                }
                if m.hlen != 6 {
                    stats.bump("roundtrip.hlen_not_6");
                }
                writeln!(out, "{}", case_roundtrip(&m).0).unwrap();
            }
            _ => {
                let w = gen_wire(&mut r, &mut stats);
                writeln!(out, "{}", case_decode(&w).0).unwrap();
            }
        }
    }
    stats
}

//! C08: ACLs -- first match wins, on DNS recursion and every HTTP endpoint;
//! prefix containment incl. host bits and IPv4-mapped clients.
//! Case kinds (see coq/Model/EntryC08.v):
//!  1 rules client op impl            acl::require_permission on rules rendered to YAML and loaded by the real loader
//!  2 rules client get path status    http::serve_request through http::verif::serve (no sockets)
//!  3 prefix client impl              config::Prefix::contains
//!  4 rules client impl               dns ACL gate (DnsAclHandler::handle_query with an ANY question)
//!  5 n prefixes client op impl       default ACLs derived from `addresses`
//!  6 impl                            address conversion for an unnamed unix-socket client
//! rules   = n { has_subnet nsub prefix* unix nacc acc* }      unix: 0 none 1 false 2 true
//! prefix  = 4 addr len | 6 w3 w2 w1 w0 len ; client = 4 addr | 6 w3 w2 w1 w0 | 0 (unix)
#[path = "../util.rs"]
mod util;
use erbium::acl;
use erbium::config::{self, Match as _};
use erbium_net::addr::{NetAddr, ToNetAddr as _, UnixAddr, WithPort as _};
use std::io::Write;
use std::net::{IpAddr, Ipv4Addr, Ipv6Addr};
use util::*;

#[derive(Clone, Copy, Debug, PartialEq)]
enum Pfx {
    V4(u32, u8),
    V6(u128, u8),
}
#[derive(Clone, Copy, Debug, PartialEq)]
enum Cl {
    V4(u32),
    V6(u128),
    Unix,
}
#[derive(Clone, Debug)]
struct Rule {
    subnet: Option<Vec<Pfx>>,
    unix: Option<bool>,
    acc: Vec<u8>,
}
const ACCESS: [&str; 6] = ["dhcp-client", "dns-recursion", "http", "http-metrics", "http-leases", "http-ro"];
const MAPPED: u128 = 0xffff_0000_0000;

// ---------------------------------------------------------------- tokens
fn put_u128(t: &mut Toks, v: u128) {
    for i in (0..4).rev() {
        t.n(((v >> (32 * i)) & 0xffff_ffff) as u64);
    }
}
fn put_pfx(t: &mut Toks, p: &Pfx) {
    match p {
        Pfx::V4(a, l) => {
            t.n(4).n(*a as u64).n(*l as u64);
        }
        Pfx::V6(a, l) => {
            t.n(6);
            put_u128(t, *a);
            t.n(*l as u64);
        }
    }
}
fn put_cl(t: &mut Toks, c: &Cl) {
    match c {
        Cl::V4(a) => {
            t.n(4).n(*a as u64);
        }
        Cl::V6(a) => {
            t.n(6);
            put_u128(t, *a);
        }
        Cl::Unix => {
            t.n(0);
        }
    }
}
fn put_rules(t: &mut Toks, rs: &[Rule]) {
    t.n(rs.len() as u64);
    for r in rs {
        match &r.subnet {
            None => {
                t.n(0).n(0);
            }
            Some(ps) => {
                t.n(1).n(ps.len() as u64);
                for p in ps {
                    put_pfx(t, p);
                }
            }
        }
        t.n(match r.unix {
            None => 0,
            Some(false) => 1,
            Some(true) => 2,
        });
        t.bytes(&r.acc);
    }
}

struct Cur<'a>(&'a [u64], usize);
impl<'a> Cur<'a> {
    fn n(&mut self) -> Option<u64> {
        let v = self.0.get(self.1).copied();
        self.1 += 1;
        v
    }
    fn u128(&mut self) -> Option<u128> {
        let mut v = 0u128;
        for _ in 0..4 {
            v = (v << 32) | (self.n()? as u128 & 0xffff_ffff);
        }
        Some(v)
    }
    fn pfx(&mut self) -> Option<Pfx> {
        match self.n()? {
            4 => Some(Pfx::V4(self.n()? as u32, self.n()? as u8)),
            6 => Some(Pfx::V6(self.u128()?, self.n()? as u8)),
            _ => None,
        }
    }
    fn cl(&mut self) -> Option<Cl> {
        match self.n()? {
            4 => Some(Cl::V4(self.n()? as u32)),
            6 => Some(Cl::V6(self.u128()?)),
            0 => Some(Cl::Unix),
            _ => None,
        }
    }
    fn rules(&mut self) -> Option<Vec<Rule>> {
        let n = self.n()?;
        let mut rs = vec![];
        for _ in 0..n {
            let hs = self.n()?;
            let ns = self.n()?;
            let mut ps = vec![];
            for _ in 0..ns {
                ps.push(self.pfx()?);
            }
            let unix = match self.n()? {
                0 => None,
                1 => Some(false),
                _ => Some(true),
            };
            let na = self.n()?;
            let mut acc = vec![];
            for _ in 0..na {
                acc.push(self.n()? as u8);
            }
            rs.push(Rule { subnet: if hs == 0 { None } else { Some(ps) }, unix, acc });
        }
        Some(rs)
    }
}

// ---------------------------------------------------------------- to the real types
fn pfx_str(p: &Pfx) -> String {
    match p {
        Pfx::V4(a, l) => format!("{}/{}", Ipv4Addr::from(*a), l),
        Pfx::V6(a, l) => format!("{}/{}", Ipv6Addr::from(*a), l),
    }
}
fn pfx_real(p: &Pfx) -> config::Prefix {
    match p {
        Pfx::V4(a, l) => config::Prefix::V4(config::Prefix4 { addr: Ipv4Addr::from(*a), prefixlen: *l }),
        Pfx::V6(a, l) => config::Prefix::V6(config::Prefix6 { addr: Ipv6Addr::from(*a), prefixlen: *l }),
    }
}
fn cl_real(c: &Cl, port: u16) -> NetAddr {
    match c {
        Cl::V4(a) => Ipv4Addr::from(*a).with_port(port),
        Cl::V6(a) => Ipv6Addr::from(*a).with_port(port),
        Cl::Unix => UnixAddr::new("/run/erbium-verif-client").unwrap().to_net_addr(),
    }
}
fn yaml_rules(rs: &[Rule]) -> String {
    let mut s = String::from("---\n");
    if rs.is_empty() {
        s.push_str("acls: []\n");
        return s;
    }
    s.push_str("acls:\n");
    for r in rs {
        let mut keys = vec![];
        if let Some(ps) = &r.subnet {
            keys.push(format!(
                "match-subnets: [{}]",
                ps.iter().map(|p| format!("'{}'", pfx_str(p))).collect::<Vec<_>>().join(", ")
            ));
        }
        if let Some(u) = r.unix {
            keys.push(format!("match-unix: {}", u));
        }
        if !r.acc.is_empty() || r.subnet.is_none() && r.unix.is_none() {
            keys.push(format!(
                "apply-access: [{}]",
                r.acc.iter().map(|a| format!("'{}'", ACCESS[*a as usize % 6])).collect::<Vec<_>>().join(", ")
            ));
        }
        for (i, k) in keys.iter().enumerate() {
            s.push_str(if i == 0 { " - " } else { "   " });
            s.push_str(k);
            s.push('\n');
        }
    }
    s
}
fn yaml_default(addresses: &[Pfx]) -> String {
    format!(
        "---\naddresses: [{}]\n",
        addresses.iter().map(|p| format!("'{}'", pfx_str(p))).collect::<Vec<_>>().join(", ")
    )
}

struct Env {
    rt: tokio::runtime::Runtime,
    dhcp: Option<std::sync::Arc<erbium::dhcp::DhcpService>>,
    dhcp_err: String,
    gate: erbium::dns::verif_acl::Gate,
}

fn load(env: &Env, yaml: &str) -> Option<config::SharedConfig> {
    catch(|| config::verif_load_config_from_string(yaml).ok()).flatten()
}

fn perm_of(op: u64) -> acl::PermissionType {
    match op {
        0 => acl::PermissionType::DnsRecursion,
        1 => acl::PermissionType::Http,
        2 => acl::PermissionType::HttpLeases,
        _ => acl::PermissionType::HttpMetrics,
    }
}

fn decide(env: &Env, yaml: &str, cl: &Cl, op: u64) -> u64 {
    let conf = match load(env, yaml) {
        Some(c) => c,
        None => return 4,
    };
    let r = catch(|| {
        let c = env.rt.block_on(conf.read());
        acl::require_permission(&c.acls, &acl::Attributes { addr: cl_real(cl, 40000) }, perm_of(op))
    });
    match r {
        None => 3,
        Some(Ok(())) => 0,
        Some(Err(acl::AclError::NotAuthenticated)) => 1,
        Some(Err(acl::AclError::NotAuthorised(_))) => 2,
    }
}

fn case_decision(env: &Env, rs: &[Rule], cl: &Cl, op: u64) -> Toks {
    let mut t = Toks::new();
    t.n(1);
    put_rules(&mut t, rs);
    put_cl(&mut t, cl);
    t.n(op).n(decide(env, &yaml_rules(rs), cl, op));
    t
}

fn case_default(env: &Env, addrs: &[Pfx], cl: &Cl, op: u64) -> Toks {
    let mut t = Toks::new();
    t.n(5).n(addrs.len() as u64);
    for p in addrs {
        put_pfx(&mut t, p);
    }
    put_cl(&mut t, cl);
    t.n(op).n(decide(env, &yaml_default(addrs), cl, op));
    t
}

const PATHS: [&[&str]; 4] = [
    &["/", "/?x=1"],
    &["/metrics", "/metrics?format=text"],
    &["/api/v1/leases.json", "/api/v1/leases.json?all"],
    &["/nope", "/api/v1/leases.json/", "/metrics/", "//", "/api/v1/leases.jsonx", "/index.html", "/api/v1/", "/Metrics"],
];

fn case_http(env: &Env, rs: &[Rule], cl: &Cl, get: bool, path: u64, variant: usize) -> Option<Toks> {
    let dhcp = env.dhcp.as_ref()?;
    let mut t = Toks::new();
    t.n(2);
    put_rules(&mut t, rs);
    put_cl(&mut t, cl);
    t.b(get).n(path);
    let alts = PATHS[path.min(3) as usize];
    let uri = alts[variant % alts.len()];
    let method = if get { "GET" } else { ["POST", "HEAD", "PUT"][variant % 3] };
    let status = match load(env, &yaml_rules(rs)) {
        None => 1,
        Some(conf) => {
            match catch(|| env.rt.block_on(erbium::http::verif::serve(conf, method, uri, cl_real(cl, 40001), dhcp.clone()))) {
                None => 0,
                Some((st, _body)) => st as u64,
            }
        }
    };
    t.n(status);
    Some(t)
}

fn case_contains(p: &Pfx, cl: &Cl) -> Toks {
    let mut t = Toks::new();
    t.n(3);
    put_pfx(&mut t, p);
    put_cl(&mut t, cl);
    let real = pfx_real(p);
    let ip: IpAddr = match cl {
        Cl::V4(a) => IpAddr::V4(Ipv4Addr::from(*a)),
        Cl::V6(a) => IpAddr::V6(Ipv6Addr::from(*a)),
        Cl::Unix => unreachable!(),
    };
    t.n(match catch(|| real.contains(ip)) {
        None => 2,
        Some(b) => b as u64,
    });
    t
}

fn case_dns(env: &Env, rs: &[Rule], cl: &Cl) -> Toks {
    let mut t = Toks::new();
    t.n(4);
    put_rules(&mut t, rs);
    put_cl(&mut t, cl);
    let r = match load(env, &yaml_rules(rs)) {
        None => 2,
        Some(conf) => catch(|| {
            env.rt.block_on(async {
                let acls = std::mem::take(&mut conf.write().await.acls);
                env.gate.check(acls, cl_real(cl, 40002)).await
            })
        })
        .map(|x| x as u64)
        .unwrap_or(2),
    };
    t.n(r);
    t
}

fn case_unnamed(env: &Env) -> Toks {
    let mut t = Toks::new();
    t.n(6);
    let dir = std::env::temp_dir().join(format!("erbium-verif-c08-{}", std::process::id()));
    let _ = std::fs::create_dir_all(&dir);
    let path = dir.join("sock");
    let _ = std::fs::remove_file(&path);
    let r = catch(|| {
        env.rt.block_on(async {
            let l = tokio::net::UnixListener::bind(&path).unwrap();
            let _c = tokio::net::UnixStream::connect(&path).await.unwrap();
            let (_s, addr) = l.accept().await.unwrap();
            let ua = erbium::http::verif::tokio_to_unixaddr(&addr);
            let na: NetAddr = ua.to_net_addr();
            na.as_unix_addr().is_some()
        })
    });
    let _ = std::fs::remove_file(&path);
    let _ = std::fs::remove_dir(&dir);
    t.n(match r {
        Some(true) => 0,
        Some(false) => 1,
        None => 2,
    });
    t
}

// ---------------------------------------------------------------- generators
fn mask(w: u32, len: u8) -> u128 {
    let ones: u128 = if w == 128 { u128::MAX } else { (1u128 << w) - 1 };
    if len as u32 >= w {
        ones
    } else if len == 0 {
        0
    } else {
        ones & !(ones >> len)
    }
}

fn gen_pfx(r: &mut Rng) -> Pfx {
    if r.chance(1, 2) {
        let base: u32 = match r.below(7) {
            0 => 0xc000_0200,
            1 => 0x0a00_0000,
            2 => 0x7f00_0000,
            3 => 0,
            4 => 0xffff_ffff,
            5 => 0xc000_0235,
            _ => r.next() as u32,
        };
        let len = match r.below(8) {
            0 => 0,
            1 => 32,
            2 => 31,
            3 => 24,
            4 => 1,
            _ => r.below(33) as u8,
        };
        let m = mask(32, len) as u32;
        let a = if r.chance(1, 2) { (base & m) | (r.next() as u32 & !m) } else { base & m };
        Pfx::V4(a, len)
    } else {
        let mapped = r.chance(1, 3);
        let base: u128 = if mapped {
            MAPPED | *r.pick(&[0xc000_0200u128, 0x0a00_0000, 0x7f00_0001, 0, 0xffff_ffff])
        } else {
            match r.below(7) {
                0 => 0x2001_0db8u128 << 96,
                1 => 0,
                2 => 1,
                3 => 0xfe80u128 << 112,
                4 => u128::MAX,
                5 => (0x2001_0db8u128 << 96) | 0xffff_0000_0000, // looks mapped in the low half only
                _ => ((r.next() as u128) << 64) | r.next() as u128,
            }
        };
        let len = if mapped {
            match r.below(6) {
                0 => 96,
                1 => 128,
                2 => 120,
                3 => r.below(97) as u8, // shorter than the mapped prefix itself
                _ => 96 + r.below(33) as u8,
            }
        } else {
            match r.below(8) {
                0 => 0,
                1 => 128,
                2 => 127,
                3 => 64,
                4 => 1,
                _ => r.below(129) as u8,
            }
        };
        let m = mask(128, len);
        let noise = ((r.next() as u128) << 64) | r.next() as u128;
        let a = if r.chance(1, 2) { (base & m) | (noise & !m) } else { base & m };
        Pfx::V6(a, len)
    }
}

/// clients at the boundary of `p`: first/last address inside, one outside on
/// each side, the written address, a random inside one -- in every form the
/// address can be seen (plain IPv4, IPv4-mapped, near-miss mapped).
fn gen_client_near(r: &mut Rng, p: &Pfx) -> Cl {
    let (w, a, len) = match p {
        Pfx::V4(a, l) => (32u32, *a as u128, *l),
        Pfx::V6(a, l) => (128u32, *a, *l),
    };
    let ones = mask(w, w as u8);
    let m = mask(w, len);
    let net = a & m;
    let last = net | (ones & !m);
    let noise = (((r.next() as u128) << 64) | r.next() as u128) & ones;
    let x = match r.below(8) {
        0 => net,
        1 => last,
        2 => net.wrapping_sub(1) & ones,
        3 => last.wrapping_add(1) & ones,
        4 => a,
        5 => net | (noise & !m),
        6 => {
            // flip one bit just inside / just outside the prefix
            let bit = if len == 0 { 0 } else { (w - len as u32).min(w - 1) };
            let bit = if r.chance(1, 2) && bit > 0 { bit - 1 } else { bit };
            a ^ (1u128 << bit)
        }
        _ => noise,
    };
    if w == 32 {
        match r.below(6) {
            0 | 1 | 2 => Cl::V4(x as u32),
            3 | 4 => Cl::V6(MAPPED | x),
            _ => {
                // near miss: the mapped form with exactly one of its upper 96 bits flipped
                let bit = match r.below(8) {
                    0 => 32,
                    1 => 47,
                    2 => 48,
                    3 => 127,
                    4 => 120,
                    5 => 119,
                    _ => 32 + r.below(96) as u32,
                };
                Cl::V6((MAPPED | x) ^ (1u128 << bit))
            }
        }
    } else if x >> 32 == 0xffff && r.chance(1, 2) {
        Cl::V4(x as u32)
    } else if r.chance(1, 12) {
        Cl::V4(x as u32)
    } else {
        Cl::V6(x)
    }
}

fn gen_rules(r: &mut Rng) -> (Vec<Rule>, Vec<Pfx>) {
    // a small family of related prefixes so that rules overlap
    let mut fam = vec![];
    for _ in 0..r.range(1, 3) {
        let p = gen_pfx(r);
        fam.push(p);
        // same base, other length / other host bits
        let q = match p {
            Pfx::V4(a, _) => Pfx::V4(a, r.below(33) as u8),
            Pfx::V6(a, _) => Pfx::V6(a, r.below(129) as u8),
        };
        fam.push(q);
        if let Pfx::V4(a, l) = p {
            if r.chance(1, 2) {
                fam.push(Pfx::V6(MAPPED | a as u128, 96 + l));
            }
        }
    }
    let n = match r.below(8) {
        0 => 0,
        1 => 1,
        2 => 6,
        _ => r.range(2, 5),
    };
    let mut rs = vec![];
    for _ in 0..n {
        let subnet = match r.below(15) {
            0 | 1 | 2 => None,
            3 => Some(vec![]),
            _ => Some((0..r.range(1, 3)).map(|_| if r.chance(4, 5) { *r.pick(&fam) } else { gen_pfx(r) }).collect()),
        };
        let unix = match r.below(6) {
            0 => Some(true),
            1 => Some(false),
            _ => None,
        };
        let acc = (0..r.below(4)).map(|_| r.below(6) as u8).collect();
        rs.push(Rule { subnet, unix, acc });
    }
    (rs, fam)
}

fn gen_client(r: &mut Rng, fam: &[Pfx]) -> Cl {
    if r.chance(1, 8) {
        Cl::Unix
    } else {
        let p = *r.pick(fam);
        gen_client_near(r, &p)
    }
}

fn replay_line(env: &Env, toks: &[u64]) -> Option<Toks> {
    let mut c = Cur(toks, 0);
    match c.n()? {
        1 => {
            let rs = c.rules()?;
            let cl = c.cl()?;
            let op = c.n()?;
            Some(case_decision(env, &rs, &cl, op))
        }
        2 => {
            let rs = c.rules()?;
            let cl = c.cl()?;
            let get = c.n()? != 0;
            let path = c.n()?;
            case_http(env, &rs, &cl, get, path, 0)
        }
        3 => {
            let p = c.pfx()?;
            let cl = c.cl()?;
            Some(case_contains(&p, &cl))
        }
        4 => {
            let rs = c.rules()?;
            let cl = c.cl()?;
            Some(case_dns(env, &rs, &cl))
        }
        5 => {
            let n = c.n()?;
            let mut ps = vec![];
            for _ in 0..n {
                ps.push(c.pfx()?);
            }
            let cl = c.cl()?;
            let op = c.n()?;
            Some(case_default(env, &ps, &cl, op))
        }
        6 => Some(case_unnamed(env)),
        _ => None,
    }
}

fn main() {
    harness_main("C08", run);
}

fn make_env() -> Env {
    let rt = tokio::runtime::Builder::new_current_thread().enable_all().build().unwrap();
    let r = catch(|| {
        rt.block_on(async {
            let conf = config::verif_load_config_from_string("---\nacls: []\n").map_err(|e| e.to_string())?;
            let netinfo = tokio::time::timeout(std::time::Duration::from_secs(10), erbium_net::netinfo::SharedNetInfo::new())
                .await
                .map_err(|_| "netinfo timeout".to_string())?;
            let pool = erbium::dhcp::pool::Pool::new_in_memory().map_err(|e| e.to_string())?;
            erbium::dhcp::DhcpService::verif_new_with_pool(netinfo, conf, pool).await
        })
    });
    let (dhcp, dhcp_err) = match r {
        Some(Ok(d)) => (Some(std::sync::Arc::new(d)), String::new()),
        Some(Err(e)) => (None, e),
        None => (None, format!("panic: {}", last_panic())),
    };
    let gate = rt.block_on(erbium::dns::verif_acl::Gate::new());
    Env { rt, dhcp, dhcp_err, gate }
}

pub fn run(args: &Args, out: &mut dyn Write) -> Stats {
    let mut stats = Stats::default();
    let env = make_env();
    if env.dhcp.is_none() {
        eprintln!("c08: no DhcpService ({}), HTTP gate cases skipped", env.dhcp_err);
        stats.bump("http.unavailable");
    }
    if let Some(path) = &args.replay {
        for line in std::fs::read_to_string(path).expect("replay file").lines() {
            if line.starts_with('#') || line.trim().is_empty() {
                continue;
            }
            match replay_line(&env, &parse_tokens(line)) {
                Some(t) => writeln!(out, "{}", t.0).unwrap(),
                None => writeln!(out, "#unreadable {}", line).unwrap(),
            }
            stats.bump("replayed");
        }
        return stats;
    }
    let mut r = Rng::new(args.seed);
    writeln!(out, "{}", case_unnamed(&env).0).unwrap();
    stats.bump("unnamed-unix");
    // every prefix length, with and without host bits, at its boundaries (both families)
    for len in 0..=32u8 {
        for hb in [false, true] {
            let m = mask(32, len) as u32;
            let a = (0xc000_0235u32 & m) | if hb { 0x0000_0235 & !m } else { 0 };
            let p = Pfx::V4(a, len);
            for _ in 0..6 {
                let cl = gen_client_near(&mut r, &p);
                writeln!(out, "{}", case_contains(&p, &cl).0).unwrap();
                stats.bump("contains.sweep4");
            }
        }
    }
    for len in 0..=128u8 {
        for hb in [false, true] {
            let m = mask(128, len);
            let base = if len % 3 == 0 { MAPPED | 0xc000_0235 } else { (0x2001_0db8u128 << 96) | 0x35 };
            let a = (base & m) | if hb { base & !m } else { 0 };
            let p = Pfx::V6(a, len);
            for _ in 0..3 {
                let cl = gen_client_near(&mut r, &p);
                writeln!(out, "{}", case_contains(&p, &cl).0).unwrap();
                stats.bump("contains.sweep6");
            }
        }
    }
    for i in 0..args.n {
        let (rs, fam) = gen_rules(&mut r);
        let cl = gen_client(&mut r, &fam);
        stats.bump(&format!("rules.{}", rs.len()));
        stats.bump(match cl {
            Cl::V4(_) => "client.v4",
            Cl::V6(x) if x >> 32 == 0xffff => "client.mapped",
            Cl::V6(_) => "client.v6",
            Cl::Unix => "client.unix",
        });
        match i % 10 {
            0 | 1 | 2 | 3 => {
                let op = r.below(4);
                writeln!(out, "{}", case_decision(&env, &rs, &cl, op).0).unwrap();
                stats.bump("decision");
            }
            4 | 5 => {
                let get = !r.chance(1, 8);
                let path = r.below(4);
                let v = r.below(24) as usize;
                if let Some(t) = case_http(&env, &rs, &cl, get, path, v) {
                    writeln!(out, "{}", t.0).unwrap();
                    stats.bump("http");
                }
            }
            6 | 7 => {
                let p = *r.pick(&fam);
                let cl = gen_client_near(&mut r, &p);
                writeln!(out, "{}", case_contains(&p, &cl).0).unwrap();
                stats.bump("contains");
            }
            8 => {
                writeln!(out, "{}", case_dns(&env, &rs, &cl).0).unwrap();
                stats.bump("dns");
            }
            _ => {
                let k = r.below(4) as usize;
                let addrs: Vec<Pfx> = (0..k).map(|_| *r.pick(&fam)).collect();
                // localhost and unix clients matter for the default rules
                let cl = match r.below(6) {
                    0 => Cl::V4(0x7f00_0000 | (r.next() as u32 & 0x00ff_ffff)),
                    1 => Cl::V6(1),
                    2 => Cl::V6(MAPPED | 0x7f00_0001),
                    3 => Cl::Unix,
                    4 => *r.pick(&[Cl::V4(0x7eff_ffff), Cl::V4(0x8000_0000), Cl::V6(0), Cl::V6(2)]),
                    _ => cl,
                };
                let op = r.below(4);
                writeln!(out, "{}", case_default(&env, &addrs, &cl, op).0).unwrap();
                stats.bump("default");
            }
        }
    }
    stats
}

//! C11: DHCP policies select and override options as erbium.conf(5) says.
//! Case line (see coq/Model/EntryC11.v):  1 <config> <request> <impl>
//! The configuration is generated as an abstract tree, rendered to YAML,
//! loaded by erbium's own loader (string-loader hook) and served by
//! `dhcp::handle_pkt` with a fresh in-memory pool.
#[path = "../util.rs"]
mod util;
#[path = "../confgen.rs"]
mod confgen;
use confgen::*;
use erbium::dhcp;
use std::io::Write;
use util::*;

fn run_case(rt: &tokio::runtime::Runtime, c: &Conf, req: &Req, stats: &mut Stats) -> Toks {
    let mut t = Toks::new();
    t.n(1);
    put_conf(&mut t, c);
    put_req(&mut t, req);
    let yaml = render_yaml(c);
    match load(rt, &yaml) {
        Err(()) => {
            stats.bump("loader.panic");
            t.n(2);
        }
        Ok(None) => {
            stats.bump("loader.rejected");
            t.n(7);
        }
        Ok(Some(shared)) => {
            let conf = rt.block_on(shared.read());
            let request = mk_request(req);
            let mut serverids = std::collections::HashSet::new();
            serverids.insert(request.serverip);
            // the same loaded configuration has served another client before, on the same address, while the
            // interface had another MTU and default route: nothing of that exchange may show in this one
            {
                let mut warm = mk_request(req);
                warm.if_mtu = if req.mtu == Some(9000) { Some(1400) } else { Some(9000) };
                warm.if_router = if req.router.is_some() { None } else { Some(std::net::Ipv4Addr::new(192, 0, 2, 254)) };
                warm.pkt.chaddr = vec![2, 9, 9, 9, 9, 9];
                warm.pkt.hlen = 6;
                warm.pkt.xid = 0x0bad_cafe;
                let ids = serverids.clone();
                let _ = catch(|| {
                    let mut pool = dhcp::pool::Pool::new_in_memory().expect("pool");
                    dhcp::handle_pkt(&mut pool, &warm, ids, &conf)
                });
            }
            let r = catch(|| {
                let mut pool = dhcp::pool::Pool::new_in_memory().expect("pool");
                dhcp::handle_pkt(&mut pool, &request, serverids, &conf)
            });
            match &r {
                None => stats.bump("impl.panic"),
                Some(Ok(_)) => stats.bump("impl.reply"),
                Some(Err(_)) => stats.bump("impl.error"),
            }
            put_outcome(&mut t, r);
        }
    }
    t
}

fn depth_of(p: &CPolicy) -> u32 {
    1 + p.kids.iter().map(depth_of).max().unwrap_or(0)
}

fn main() {
    harness_main("C11", run);
}

pub fn run(args: &Args, out: &mut dyn Write) -> Stats {
    let mut stats = Stats::default();
    let rt = runtime();
    if let Some(path) = &args.replay {
        for line in std::fs::read_to_string(path).expect("replay file").lines() {
            if line.starts_with('#') || line.trim().is_empty() {
                continue;
            }
            let toks = parse_tokens(line);
            let mut c = Cur(&toks, 0);
            let parsed = (|| {
                if c.n()? != 1 {
                    return None;
                }
                let conf = get_conf(&mut c)?;
                let req = get_req(&mut c)?;
                Some((conf, req))
            })();
            match parsed {
                Some((conf, req)) => writeln!(out, "{}", run_case(&rt, &conf, &req, &mut stats).0).unwrap(),
                None => writeln!(out, "#unreadable {}", line).unwrap(),
            }
            stats.bump("replayed");
        }
        return stats;
    }
    let mut r = Rng::new(args.seed);
    let g = GenCfg { depth: 3, width: 3, addr_items: true, cond8: 6 };
    let mut i = 0;
    while i < args.n {
        let (mut c, mut w) = gen_conf(&mut r, &g, (22, 29));
        let (req0, net) = gen_req(&mut r, &w, &c);
        w.sip = Some(req0.serverip);
        let k = r.range(0, 3);
        for _ in 0..k {
            c.policies.push(gen_policy(&mut r, &w, &g, 1, net));
        }
        if !c.policies.is_empty() && r.chance(1, 6) {
            // a condition-less policy that cannot apply, in front of the others
            c.policies.insert(0, gen_decoy(&mut r, &w, true));
            stats.bump("gen.top_level_decoy");
        }
        // a rare misaligned subnet: the loader must reject it
        if r.chance(1, 60) {
            if let Some(p) = c.policies.first_mut() {
                p.sn = Some((0x0a00_0001, 24));
                stats.bump("gen.misaligned_subnet");
            }
        }
        stats.bump(&format!("gen.top_policies.{}", c.policies.len()));
        stats.bump(&format!("gen.depth.{}", c.policies.iter().map(depth_of).max().unwrap_or(0)));
        let mut req = req0;
        for j in 0..2 {
            if j > 0 {
                // same configuration, same interface, another client
                let (r2, _) = gen_req(&mut r, &w, &c);
                req = Req { serverip: req.serverip, ..r2 };
            }
            writeln!(out, "{}", run_case(&rt, &c, &req, &mut stats).0).unwrap();
            i += 1;
        }
    }
    stats
}

//! C03: reply assembly (upstream reply -> client reply, upstream query,
//! error replies, ttl decrement).
//! Case kinds 6, 7, 9, 8.  Grammar and the case functions are in
//! ../dnsgen.rs.
#[path = "../util.rs"]
mod util;
#[path = "../dnsgen.rs"]
mod dnsgen;
use dnsgen::{Gen, Shape};
use std::io::Write;
use util::*;

fn main() {
    harness_main("C03", run);
}

pub fn run(args: &Args, out: &mut dyn Write) -> Stats {
    if let Some(s) = dnsgen::replay(args, out) {
        return s;
    }
    let mut g = Gen::new(args);
    for i in 0..args.n {
        let t = if let Some(k) = g.big_slot(i) {
            match k % 10 {
                0 | 5 => g.k6(Some(Shape::Cross16kMany)),
                1 | 7 => g.k6(Some(Shape::Near64k)),
                2 | 8 => g.k6(Some(Shape::Many)),
                3 => g.k6(Some(Shape::Cross16kFew)),
                4 => g.k9(Some(Shape::Many)),
                6 => g.k9(Some(Shape::Cross16kMany)),
                _ => g.k6(Some(Shape::Medium)),
            }
        } else if let Some(k) = g.mid_slot(i) {
            match k % 4 {
                3 => g.k9(Some(Shape::Cross16kMany)),
                _ => g.k6(Some(Shape::Cross16kMany)),
            }
        } else {
            match g.r.below(100) {
                0..=69 => g.k6(None),
                70..=79 => g.k7(),
                80..=94 => g.k9(None),
                _ => g.k8(),
            }
        };
        writeln!(out, "{}", t.0).unwrap();
    }
    g.stats
}

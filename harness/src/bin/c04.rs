//! C04: truncation to the advertised size.
//! Case kinds 2 (encode with a size limit, decode), 5 (what goes on the wire
//! for a query with an advertised size), 8 (error replies).  Grammar and the
//! case functions are in ../dnsgen.rs.
#[path = "../util.rs"]
mod util;
#[path = "../dnsgen.rs"]
mod dnsgen;
use dnsgen::{Gen, Shape};
use std::io::Write;
use util::*;

fn main() {
    harness_main("C04", run);
}

pub fn run(args: &Args, out: &mut dyn Write) -> Stats {
    if let Some(s) = dnsgen::replay(args, out) {
        return s;
    }
    let mut g = Gen::new(args);
    // the limit function: both transports x boundary and random advertised sizes
    for tcp in [false, true] {
        for adv in [0u16, 1, 511, 512, 513, 1231, 1232, 1233, 4095, 4096, 4097, 16383, 16384, 65534, 65535] {
            writeln!(out, "{}", dnsgen::case4(tcp, adv).0).unwrap();
            g.stats.bump("k4.boundary");
        }
        for _ in 0..40 {
            let adv = g.r.next() as u16;
            writeln!(out, "{}", dnsgen::case4(tcp, adv).0).unwrap();
            g.stats.bump("k4.random");
        }
    }
    for t in dnsgen::at16k_cases(&mut g.r, &mut g.stats) {
        writeln!(out, "{}", t.0).unwrap();
    }
    for t in dnsgen::dropfit_cases(&mut g.r, &mut g.stats) {
        writeln!(out, "{}", t.0).unwrap();
    }
    for i in 0..args.n {
        let t = if let Some(k) = g.big_slot(i) {
            match k % 10 {
                0 | 5 => g.k2_sized(Some(Shape::Cross16kMany)),
                1 | 6 => g.k2_sized(Some(Shape::Near64k)),
                2 => g.k5(Some(Shape::Near64k)),
                3 | 8 => g.k2_sized(Some(Shape::Cross16kFew)),
                4 => g.k2_sized(Some(Shape::Many)),
                7 => g.k5(Some(Shape::Cross16kMany)),
                _ => g.k5(Some(Shape::Many)),
            }
        } else if let Some(k) = g.mid_slot(i) {
            match k % 3 {
                2 => g.k5(Some(Shape::Cross16kMany)),
                _ => g.k2_sized(Some(Shape::Cross16kMany)),
            }
        } else {
            match g.r.below(100) {
                0..=49 => g.k2_sized(None),
                50..=74 => g.k5(None),
                // what the server emits is mostly a re-encoding of what it decoded from the upstream:
                // byte strings through decoder -> encoder -> decoder (incl. names assembled through
                // pointers up to and beyond the 255-octet limit)
                75..=87 => g.k1(None),
                _ => g.k8(),
            }
        };
        writeln!(out, "{}", t.0).unwrap();
    }
    g.stats
}

//! S01 (pseudo-property): the composed DHCPv4 server step.
//! The REAL path, as recvdhcp runs it: octets -> dhcppkt::parse -> dhcp::handle_pkt (real
//! configuration loaded from YAML by erbium's own loader, real SQLite file store) ->
//! ServerIds update -> to_array(chaddr) -> Dhcp::serialise -> reply_frame (size guard + Fragment::new_udp4(..).flatten()).
//! The frame octets are compared with coq/Model/DhcpServer.v `server_step` given the pool's
//! answer read off the reply / the rows (token grammar in coq/Model/EntryS01.v):
//!
//!   case := <config> universe nsteps step*
//!   universe := n x*          every address any policy or prefix of the configuration names
//!   step := serverip (0|1 mtu) (0|1 router) mac*6 port bytes(datagram) tlo thi outcome rows
//!   outcome := 0 | 1 bytes(frame) | 2 (panic)
#[path = "../util.rs"]
mod util;
#[path = "../confgen.rs"]
mod confgen;
use confgen::*;
use erbium::dhcp;
use erbium::dhcp::dhcppkt;
use erbium::dhcp::pool;
use std::io::Write;
use std::net::Ipv4Addr;
use util::*;

#[derive(Clone, Debug)]
struct Step {
    serverip: u32,
    mtu: Option<u32>,
    router: Option<u32>,
    mac: [u8; 6],
    port: u16,
    pkt: Vec<u8>,
}

fn wall() -> u64 {
    std::time::SystemTime::now().duration_since(std::time::UNIX_EPOCH).unwrap().as_secs()
}

fn universe(c: &Conf) -> Vec<u32> {
    let mut v: Vec<u32> = vec![];
    fn block(v: &mut Vec<u32>, n: u32, l: u8) {
        let size = 1u64 << (32 - l.min(32) as u32);
        for k in 0..size.min(4096) {
            v.push(n.wrapping_add(k as u32));
        }
    }
    fn walk(v: &mut Vec<u32>, p: &CPolicy) {
        for i in &p.ad {
            match i {
                AItem::Addr(x) => v.push(*x),
                AItem::Range(s, e) => {
                    if s <= e {
                        for x in *s..=(*e).min(s.saturating_add(4096)) {
                            v.push(x);
                        }
                    }
                }
                AItem::Subnet(n, l) => block(v, *n & mask(*l), *l),
            }
        }
        for k in &p.kids {
            walk(v, k);
        }
    }
    for a in &c.addresses {
        if let Pfx::P4(n, l) = a {
            block(&mut v, *n & mask(*l), *l);
        }
    }
    for p in &c.policies {
        walk(&mut v, p);
    }
    v.sort();
    v.dedup();
    v
}

struct Server {
    path: String,
    pool: Option<pool::Pool>,
    ids: std::collections::HashSet<Ipv4Addr>,
}
static COUNTER: std::sync::atomic::AtomicU64 = std::sync::atomic::AtomicU64::new(0);
impl Server {
    fn new() -> Server {
        let k = COUNTER.fetch_add(1, std::sync::atomic::Ordering::SeqCst);
        let dir = if std::path::Path::new("/dev/shm").is_dir() { "/dev/shm" } else { "." };
        let path = format!("{}/verif-s01-{}-{}.sqlite", dir, std::process::id(), k);
        let _ = std::fs::remove_file(&path);
        let p = pool::Pool::verif_open(&path).expect("open store");
        Server { path, pool: Some(p), ids: Default::default() }
    }
    fn rows(&mut self, t: &mut Toks) {
        match self.pool.as_mut().unwrap().get_leases() {
            Ok(mut ls) => {
                ls.sort_by_key(|l| u32::from(l.ip));
                t.n(ls.len() as u64);
                for l in ls {
                    t.ip4(l.ip).bytes(&l.client_id).n(l.start as u64).n(l.expire as u64);
                }
            }
            Err(_) => {
                t.n(0);
            }
        }
    }
    /// what recvdhcp does with one datagram, up to (not including) the send
    fn step(&mut self, conf: &erbium::config::Config, s: &Step, t: &mut Toks, stats: &mut Stats) {
        t.n(s.serverip as u64);
        match s.mtu {
            None => t.n(0),
            Some(m) => t.n(1).n(m as u64),
        };
        match s.router {
            None => t.n(0),
            Some(m) => t.n(1).n(m as u64),
        };
        t.raw(&s.mac).n(s.port as u64).bytes(&s.pkt);
        let pool = self.pool.as_mut().unwrap();
        let ids = &mut self.ids;
        let t0 = wall();
        let r = catch(|| -> Option<Vec<u8>> {
            let req = match dhcppkt::parse(&s.pkt) {
                Err(_) => return None,
                Ok(p) => p,
            };
            let request = dhcp::DHCPRequest {
                pkt: req,
                serverip: Ipv4Addr::from(s.serverip),
                ifindex: 1,
                if_mtu: s.mtu,
                if_router: s.router.map(Ipv4Addr::from),
            };
            dhcp::verif::log_options(&request.pkt);
            let reply = match dhcp::handle_pkt(pool, &request, ids.clone(), conf) {
                Err(_) => return None,
                Ok(r) => r,
            };
            if let Some(si) = reply.options.get_serverid() {
                ids.insert(si);
            }
            dhcp::verif::log_options(&reply);
            let chaddr = dhcp::verif::to_array(&reply.chaddr)?;
            let dst_ip = if request.pkt.get_broadcast_flag() { Ipv4Addr::BROADCAST } else { reply.yiaddr };
            let replybuf = reply.serialise();
            use erbium_net::addr::Inet4Addr;
            let src = Inet4Addr::from(std::net::SocketAddrV4::new(request.serverip, 67));
            let dst = Inet4Addr::from(std::net::SocketAddrV4::new(dst_ip, s.port));
            // the frame as the receive loop builds it (None: the reply does not fit a datagram and is not sent)
            dhcp::verif::reply_frame(src, &s.mac, dst, &chaddr, &replybuf)
        });
        let t1 = wall();
        t.n(t0).n(t1);
        match r {
            None => {
                t.n(2);
                stats.bump("impl.panic");
            }
            Some(None) => {
                t.n(0);
                stats.bump("impl.no-frame");
            }
            Some(Some(f)) => {
                t.n(1).bytes(&f);
                stats.bump("impl.frame");
            }
        }
        self.rows(t);
    }
}
impl Drop for Server {
    fn drop(&mut self) {
        self.pool = None;
        let _ = std::fs::remove_file(&self.path);
        let _ = std::fs::remove_file(format!("{}-journal", self.path));
    }
}

fn run_case(rt: &tokio::runtime::Runtime, c: &Conf, steps: &[Step], stats: &mut Stats) -> Option<Toks> {
    let yaml = render_yaml(c);
    let shared = match load(rt, &yaml) {
        Ok(Some(s)) => s,
        Ok(None) => {
            stats.bump("loader.rejected");
            return None;
        }
        Err(()) => {
            stats.bump("loader.panic");
            return None;
        }
    };
    let conf = rt.block_on(shared.read());
    let mut t = Toks::new();
    put_conf(&mut t, c);
    let u = universe(c);
    t.n(u.len() as u64);
    for x in &u {
        t.n(*x as u64);
    }
    t.n(steps.len() as u64);
    let mut srv = Server::new();
    for s in steps {
        srv.step(&conf, s, &mut t, stats);
    }
    stats.add("steps", steps.len() as u64);
    Some(t)
}

/// the datagram a client would send for `req`, with the per-step variations
fn mk_datagram(r: &mut Rng, req: &Req, last_yiaddr: Option<u32>, stats: &mut Stats) -> Vec<u8> {
    let mut request = mk_request(req);
    let p = &mut request.pkt;
    p.xid = r.next() as u32;
    p.flags = match r.below(6) {
        0 | 1 => 0x8000,
        2 => 0x0080,
        3 => r.next() as u16,
        _ => 0,
    };
    p.secs = if r.chance(1, 3) { r.next() as u16 } else { 0 };
    if r.chance(1, 6) {
        p.giaddr = Ipv4Addr::from(0x0a00_0001u32 + r.below(200) as u32);
    }
    if r.chance(1, 8) {
        p.hops = r.below(4) as u8;
    }
    let is_request = req.opts.iter().any(|(c, v)| *c == 53 && v == &vec![3u8]);
    if let Some(y) = last_yiaddr {
        if is_request && r.chance(1, 2) {
            p.ciaddr = Ipv4Addr::from(y);
        }
        if r.chance(1, 2) {
            p.options.other.insert(dhcppkt::OPTION_ADDRESSREQUEST, y.to_be_bytes().to_vec());
        }
    } else if r.chance(1, 5) {
        p.options.other.insert(dhcppkt::OPTION_ADDRESSREQUEST, (req.serverip ^ 2).to_be_bytes().to_vec());
    }
    if r.chance(1, 4) {
        let k = r.range(0, 9) as usize;
        let mut id = vec![1u8];
        id.extend(r.bytes(k));
        if r.chance(1, 6) {
            id.clear();
        }
        p.options.other.insert(dhcppkt::OPTION_CLIENTID, id);
    }
    // other message types / none
    match r.below(12) {
        0 => {
            let t = *r.pick(&[2u8, 4, 5, 6, 7, 8, 0, 200]);
            p.options.other.insert(dhcppkt::OPTION_MSGTYPE, vec![t]);
            stats.bump("gen.other-msgtype");
        }
        1 => {
            p.options.other.remove(&dhcppkt::OPTION_MSGTYPE);
            stats.bump("gen.no-msgtype");
        }
        2 => {
            p.options.other.insert(dhcppkt::OPTION_MSGTYPE, vec![1, 3]);
            stats.bump("gen.msgtype-two-octets");
        }
        _ => {}
    }
    // hardware address length
    match r.below(10) {
        0 => {
            p.chaddr.truncate(r.range(0, 5) as usize);
            p.hlen = p.chaddr.len() as u8;
            stats.bump("gen.short-chaddr");
        }
        1 => {
            let k = r.range(1, 10) as usize;
            p.chaddr.extend(r.bytes(k));
            p.hlen = p.chaddr.len() as u8;
            stats.bump("gen.long-chaddr");
        }
        _ => {}
    }
    let mut b = p.serialise();
    match r.below(14) {
        0 => {
            let k = r.below(b.len() as u64 + 1) as usize;
            b.truncate(k);
            stats.bump("gen.truncated");
        }
        1 => {
            b[236] ^= 0xff;
            stats.bump("gen.bad-magic");
        }
        2 => {
            let k = r.range(0, 400) as usize;
            b = r.bytes(k);
            stats.bump("gen.garbage");
        }
        3 => {
            b[2] = r.range(17, 255) as u8; // hlen > 16
            stats.bump("gen.hlen-over-16");
        }
        _ => {}
    }
    b
}

fn put_step_inputs(c: &mut Cur) -> Option<Step> {
    let serverip = c.n()? as u32;
    let mtu = match c.n()? {
        0 => None,
        _ => Some(c.n()? as u32),
    };
    let router = match c.n()? {
        0 => None,
        _ => Some(c.n()? as u32),
    };
    let mut mac = [0u8; 6];
    for m in mac.iter_mut() {
        *m = c.n()? as u8;
    }
    let port = c.n()? as u16;
    let pkt = c.bytes()?;
    c.n()?; // tlo
    c.n()?; // thi
    match c.n()? {
        1 => {
            c.bytes()?;
        }
        _ => {}
    }
    let k = c.n()?;
    for _ in 0..k {
        c.n()?;
        c.bytes()?;
        c.n()?;
        c.n()?;
    }
    Some(Step { serverip, mtu, router, mac, port, pkt })
}

fn main() {
    harness_main("S01", run);
}

pub fn run(args: &Args, out: &mut dyn Write) -> Stats {
    let mut stats = Stats::default();
    let rt = runtime();
    if let Some(path) = &args.replay {
        for line in std::fs::read_to_string(path).expect("replay file").lines() {
            if line.starts_with('#') || line.trim().is_empty() {
                continue;
            }
            let toks = parse_tokens(line);
            let mut c = Cur(&toks, 0);
            let parsed = (|| {
                let conf = get_conf(&mut c)?;
                let k = c.n()?;
                for _ in 0..k {
                    c.n()?;
                }
                let n = c.n()?;
                let mut steps = vec![];
                for _ in 0..n {
                    steps.push(put_step_inputs(&mut c)?);
                }
                Some((conf, steps))
            })();
            match parsed.and_then(|(conf, steps)| run_case(&rt, &conf, &steps, &mut stats)) {
                Some(t) => writeln!(out, "{}", t.0).unwrap(),
                None => writeln!(out, "#unreadable {}", line).unwrap(),
            }
            stats.bump("replayed");
        }
        return stats;
    }
    let mut r = Rng::new(args.seed ^ 0x501);
    // configurations whose policy selects more option data than a UDP datagram holds (the loader puts no bound
    // on it): around 65507 octets of reply -- every length of the 16-bit overflow window would be slow, a few are
    // taken -- and well beyond 65535
    for n in [60000usize, 64737, 64738, 64750, 64757 + 8, 64770, 65300, 70000] {
        let c = Conf {
            policies: vec![CPolicy {
                sn: Some((0xC000_0200, 24)),
                ao: vec![(252, Some(Val::Bytes(vec![b'a'; n])))],
                ad: vec![AItem::Range(0xC000_020A, 0xC000_0214)],
                ..Default::default()
            }],
            ..Default::default()
        };
        let req = Req { serverip: 0xC000_0201, mtu: None, router: None, chaddr: vec![2, 0, 0x5e, 0x10, 0, 9], opts: vec![(53, vec![1]), (55, vec![1, 3, 252])] };
        let steps = vec![Step { serverip: req.serverip, mtu: None, router: None, mac: [2, 0, 0x5e, 0x10, 0, 1], port: 68, pkt: mk_request(&req).pkt.serialise() }];
        if let Some(t) = run_case(&rt, &c, &steps, &mut stats) {
            writeln!(out, "{}", t.0).unwrap();
            stats.bump("fixed.reply-around-64k");
        }
    }
    let g = GenCfg { depth: 2, width: 2, addr_items: true, cond8: 5 };
    let mut i = 0;
    let mut tries = 0;
    while i < args.n && tries < args.n * 20 {
        tries += 1;
        let (mut c, w) = gen_conf(&mut r, &g, (24, 29));
        let (req0, net) = gen_req(&mut r, &w, &c);
        for _ in 0..r.range(0, 2) {
            c.policies.push(gen_policy(&mut r, &w, &g, 1, net));
        }
        let nsteps = r.range(1, 6);
        let mut steps = vec![];
        let mut last: Option<u32> = None;
        let mac = [0x02, 0x00, 0x5e, 0x10, 0x00, r.byte()];
        // the steps are generated adaptively (a REQUEST may name the address just offered), so
        // the case is executed once to learn the yiaddrs and then once more for the record
        let mut reqs = vec![];
        for _ in 0..nsteps {
            let (r2, _) = gen_req(&mut r, &w, &c);
            let req = if r.chance(4, 5) { Req { serverip: req0.serverip, ..r2 } } else { r2 };
            reqs.push(req);
        }
        // first pass: learn yiaddrs with plain datagrams
        {
            let yaml = render_yaml(&c);
            if let Ok(Some(shared)) = load(&rt, &yaml) {
                let conf = rt.block_on(shared.read());
                let mut p = pool::Pool::new_in_memory().expect("pool");
                for req in &reqs {
                    let request = mk_request(req);
                    if let Some(Ok(reply)) = catch(|| dhcp::handle_pkt(&mut p, &request, Default::default(), &conf)) {
                        last = Some(u32::from(reply.yiaddr));
                    }
                }
            }
        }
        for req in &reqs {
            let hint = if r.chance(2, 3) { last } else { None };
            let pkt = mk_datagram(&mut r, req, hint, &mut stats);
            steps.push(Step {
                serverip: req.serverip,
                mtu: req.mtu,
                router: req.router,
                mac,
                port: if r.chance(9, 10) { 68 } else { r.range(1, 65535) as u16 },
                pkt,
            });
        }
        if let Some(t) = run_case(&rt, &c, &steps, &mut stats) {
            writeln!(out, "{}", t.0).unwrap();
            i += 1;
        }
    }
    stats
}

//! C01: lease-store histories (generator and runner shared in ../poolgen.rs;
//! token grammar in coq/Model/PoolEntry.v).  The three lease-store properties
//! differ in the generator's profile weights and in the predicates the model
//! entry point check_C01 evaluates.
#[path = "../util.rs"]
mod util;
#[path = "../poolgen.rs"]
mod poolgen;
use util::*;

fn run(args: &Args, out: &mut dyn std::io::Write) -> Stats {
    poolgen::run("C01", args, out)
}

fn main() {
    harness_main("C01", run)
}

//! D01 (pseudo-property): the composed DNS pipeline.  The REAL service (`DnsListenerHandler`
//! behind `DnsService`, started by the hook `dns::verif::service_from_config` on a configuration
//! rendered as YAML and loaded by the real loader) runs inside the harness on 127.0.0.1; clients on
//! other loopback addresses send generated queries over UDP and TCP; two scripted upstreams (UDP
//! and TCP on one port each) answer.  Everything a client and an upstream see is written down and
//! compared with `dns_step` (coq/Model/DnsPipeline.v) by coq/Model/EntryD01.v.
//!
//! One history per line:
//!   1 <rules> <table> cur prev nsteps step*
//!   step = t_s t_ns(s ns) t_ins(s ns) <client> port tcp <local> b1 b2 <nsid text> <issued cookie> <query> nup {srv tcp <octets>}*
//!          <udp answer> <tcp answer> <reply>   [replay block: sleep_ms nscript script*]
#[path = "../util.rs"]
mod util;
use erbium::dns::verif as hk;
use std::io::Write;
use std::net::{IpAddr, Ipv4Addr, SocketAddr};
use std::sync::{Arc, Mutex};
use std::time::{Duration, Instant};
use tokio::io::{AsyncReadExt, AsyncWriteExt};
use tokio::net::{TcpListener, TcpSocket, UdpSocket};
use util::*;

type Name = Vec<Vec<u8>>;

#[derive(Clone, Debug)]
struct Rule {
    subnet: Option<Vec<(u32, u8)>>,
    acc: Vec<u8>, // indices into ACCESS
}
const ACCESS: [&str; 6] = ["dhcp-client", "dns-recursion", "http", "http-metrics", "http-leases", "http-ro"];

#[derive(Clone, Debug, PartialEq)]
struct Route {
    forward: bool,
    servers: Vec<u64>,
    suffixes: Vec<Name>,
}

#[derive(Clone, Debug)]
enum Script {
    Reply { a: Vec<u32>, n: Vec<u32>, d: Vec<u32>, rdlen: usize, tc: bool, wrong_id: bool, rcode: u8, stray: bool, delay_ms: u64 },
    Garbage,
    Silent,
}

#[derive(Clone, Debug)]
struct Step {
    sleep_ms: u64,
    client: [u8; 4],
    /// the server address the query is sent to (the service listens on the wildcard address)
    local: [u8; 4],
    port53: bool,
    tcp: bool,
    query: Vec<u8>,
    script: Script,
}

#[derive(Clone, Debug)]
struct Hist {
    rules: Vec<Rule>,
    table: Vec<Route>,
    cur: [u8; 8],
    prev: [u8; 8],
    steps: Vec<Step>,
}

// ---- rendering ------------------------------------------------------------------------------
fn name_str(n: &Name) -> String {
    n.iter().map(|l| String::from_utf8(l.clone()).unwrap()).collect::<Vec<_>>().join(".")
}
fn render(h: &Hist) -> String {
    let mut s = String::from("---\n");
    if h.rules.is_empty() {
        s.push_str("acls: []\n");
    } else {
        s.push_str("acls:\n");
        for r in &h.rules {
            let mut keys = vec![];
            if let Some(ps) = &r.subnet {
                keys.push(format!(
                    "match-subnets: [{}]",
                    ps.iter().map(|(a, l)| format!("'{}/{}'", Ipv4Addr::from(*a), l)).collect::<Vec<_>>().join(", ")
                ));
            }
            keys.push(format!(
                "apply-access: [{}]",
                r.acc.iter().map(|a| format!("'{}'", ACCESS[*a as usize % 6])).collect::<Vec<_>>().join(", ")
            ));
            for (i, k) in keys.iter().enumerate() {
                s.push_str(if i == 0 { " - " } else { "   " });
                s.push_str(k);
                s.push('\n');
            }
        }
    }
    s.push_str("dns-routes:\n");
    for rt in &h.table {
        s.push_str(if rt.forward { "  - type: forward\n" } else { "  - type: forge-nxdomain\n" });
        if rt.forward {
            let v: Vec<String> = rt.servers.iter().map(|k| format!("127.0.0.{}", k + 1)).collect();
            s.push_str(&format!("    dns-servers: [{}]\n", v.join(", ")));
        }
        let v: Vec<String> = rt.suffixes.iter().map(|n| format!("'{}'", name_str(n))).collect();
        s.push_str(&format!("    domain-suffixes: [{}]\n", v.join(", ")));
    }
    s
}

fn put_rules(t: &mut Toks, rs: &[Rule]) {
    t.n(rs.len() as u64);
    for r in rs {
        match &r.subnet {
            None => {
                t.n(0).n(0);
            }
            Some(ps) => {
                t.n(1).n(ps.len() as u64);
                for (a, l) in ps {
                    t.n(4).n(*a as u64).n(*l as u64);
                }
            }
        }
        t.n(0); // match-unix: not given
        t.bytes(&r.acc);
    }
}
fn put_name(t: &mut Toks, n: &Name) {
    t.n(n.len() as u64);
    for l in n {
        t.bytes(l);
    }
}
fn put_table(t: &mut Toks, tb: &[Route]) {
    t.n(tb.len() as u64);
    for r in tb {
        t.n(r.forward as u64);
        t.n(r.servers.len() as u64);
        for &s in &r.servers {
            t.n(s);
        }
        t.n(r.suffixes.len() as u64);
        for s in &r.suffixes {
            put_name(t, s);
        }
    }
}
fn put_opt(t: &mut Toks, o: &Option<Vec<u8>>) {
    match o {
        None => {
            t.n(0);
        }
        Some(b) => {
            t.n(1).bytes(b);
        }
    }
}
fn script_toks(s: &Script) -> Vec<u64> {
    match s {
        Script::Garbage => vec![1],
        Script::Silent => vec![2],
        Script::Reply { a, n, d, rdlen, tc, wrong_id, rcode, stray, delay_ms } => {
            let mut v = vec![3, *rcode as u64, *rdlen as u64, *tc as u64, *wrong_id as u64];
            for l in [a, n, d] {
                v.push(l.len() as u64);
                v.extend(l.iter().map(|&x| x as u64));
            }
            v.push(*stray as u64);
            v.push(*delay_ms);
            v
        }
    }
}

// ---- the scripted upstreams -------------------------------------------------------------------
struct UpState {
    script: Mutex<Script>,
    seen: Mutex<Vec<(u64, bool, Vec<u8>)>>,
    udp_sent: Mutex<Option<Vec<u8>>>,
    tcp_sent: Mutex<Option<Vec<u8>>>,
    /// when an upstream last answered (the service stores the result right after that)
    answered_at: Mutex<Option<Instant>>,
    conns: Mutex<Vec<tokio::task::JoinHandle<()>>>,
}

fn build_reply(q: &[u8], a: &[u32], n: &[u32], d: &[u32], rdlen: usize, tc: bool, wrong_id: bool, rcode: u8) -> Option<Vec<u8>> {
    if q.len() < 17 {
        return None;
    }
    let mut i = 12;
    while *q.get(i)? != 0 {
        i += 1 + q[i] as usize;
    }
    i += 5;
    let id = u16::from_be_bytes([q[0], q[1]]);
    let id = if wrong_id { id.wrapping_add(1) } else { id };
    let mut v = id.to_be_bytes().to_vec();
    v.extend([0x81 | if tc { 2 } else { 0 }, 0x80 | (rcode & 15), 0, 1]);
    v.extend((a.len() as u16).to_be_bytes());
    v.extend((n.len() as u16).to_be_bytes());
    v.extend((d.len() as u16).to_be_bytes());
    v.extend(q.get(12..i)?);
    let mut k = 0u8;
    for ttl in a.iter().chain(n.iter()).chain(d.iter()) {
        v.extend([0xC0, 0x0C, 0, 16, 0, 1]); // TXT-typed opaque data
        v.extend(ttl.to_be_bytes());
        v.extend((rdlen as u16).to_be_bytes());
        v.extend(std::iter::repeat(k).take(rdlen));
        k = k.wrapping_add(1);
    }
    Some(v)
}

fn answer(st: &UpState, q: &[u8], over_tcp: bool) -> Option<Vec<u8>> {
    let s = st.script.lock().unwrap().clone();
    match s {
        // over TCP the scripted upstream always answers a well-formed message
        Script::Silent | Script::Garbage if over_tcp => build_reply(q, &[], &[], &[], 4, false, false, 0),
        Script::Silent => None,
        Script::Garbage => Some(vec![q[0], q[1], 0x81]),
        Script::Reply { a, n, d, rdlen, tc, wrong_id, rcode, .. } => {
            build_reply(q, &a, &n, &d, rdlen, tc && !over_tcp, wrong_id && !over_tcp, rcode)
        }
    }
}

async fn udp_upstream(sock: Arc<UdpSocket>, srv: u64, st: Arc<UpState>) {
    let mut buf = [0u8; 4096];
    loop {
        if let Ok((l, from)) = sock.recv_from(&mut buf).await {
            let q = buf[..l].to_vec();
            st.seen.lock().unwrap().push((srv, false, q.clone()));
            if l >= 12 {
                if let Some(r) = answer(&st, &q, false) {
                    *st.udp_sent.lock().unwrap() = Some(r.clone());
                    *st.answered_at.lock().unwrap() = Some(Instant::now());
                    let _ = sock.send_to(&r, from).await;
                }
            }
        }
    }
}
async fn tcp_upstream(l: TcpListener, srv: u64, st: Arc<UpState>) {
    loop {
        if let Ok((mut s, _)) = l.accept().await {
            let st2 = st.clone();
            let st = st.clone();
            let h = tokio::spawn(async move {
                loop {
                    let mut lb = [0u8; 2];
                    if s.read_exact(&mut lb).await.is_err() {
                        return;
                    }
                    let mut q = vec![0u8; u16::from_be_bytes(lb) as usize];
                    if s.read_exact(&mut q).await.is_err() {
                        return;
                    }
                    st.seen.lock().unwrap().push((srv, true, q.clone()));
                    match if q.len() >= 12 { answer(&st, &q, true) } else { None } {
                        Some(r) => {
                            // a slow upstream: the answer comes, but late
                            let delay = match *st.script.lock().unwrap() {
                                Script::Reply { delay_ms, .. } => delay_ms,
                                _ => 0,
                            };
                            if delay > 0 {
                                tokio::time::sleep(Duration::from_millis(delay)).await;
                            }
                            *st.tcp_sent.lock().unwrap() = Some(r.clone());
                            *st.answered_at.lock().unwrap() = Some(Instant::now());
                            let mut o = vec![];
                            if matches!(*st.script.lock().unwrap(), Script::Reply { stray: true, .. }) {
                                // first a well-formed reply under the same id to a question that was not asked on
                                // this connection (a late or repeated reply whose id is in use again): to be ignored
                                let mut x = vec![q[0], q[1], 0x81, 0x80, 0, 1, 0, 1, 0, 0, 0, 0];
                                x.extend([5, b's', b't', b'r', b'a', b'y', 7, b'i', b'n', b'v', b'a', b'l', b'i', b'd', 0, 0, 1, 0, 1]);
                                x.extend([0xC0, 0x0C, 0, 1, 0, 1, 0, 0, 0, 60, 0, 4, 192, 0, 2, 66]);
                                o.extend((x.len() as u16).to_be_bytes());
                                o.extend(x);
                            }
                            o.extend((r.len() as u16).to_be_bytes());
                            o.extend(r);
                            if s.write_all(&o).await.is_err() {
                                return;
                            }
                        }
                        None => return,
                    }
                }
            });
            st2.conns.lock().unwrap().push(h);
        }
    }
}
async fn bind_upstream() -> (Arc<UdpSocket>, TcpListener, SocketAddr) {
    loop {
        let u = UdpSocket::bind("127.0.0.1:0").await.unwrap();
        let a = u.local_addr().unwrap();
        if let Ok(t) = TcpListener::bind(a).await {
            return (Arc::new(u), t, a);
        }
    }
}

// ---- one history ---------------------------------------------------------------------------------
async fn run_history(h: &Hist) -> Option<Toks> {
    use erbium_net::addr::WithPort as _;
    let st = Arc::new(UpState {
        script: Mutex::new(Script::Silent),
        seen: Default::default(),
        udp_sent: Default::default(),
        tcp_sent: Default::default(),
        answered_at: Default::default(),
        conns: Default::default(),
    });
    let mut upaddrs = vec![];
    let mut tasks = vec![];
    for srv in 0..2u64 {
        let (u, t, a) = bind_upstream().await;
        upaddrs.push(a);
        tasks.push(tokio::spawn(udp_upstream(u, srv, st.clone())));
        tasks.push(tokio::spawn(tcp_upstream(t, srv, st.clone())));
    }
    let conf = catch(|| erbium::config::verif_load_config_from_string(&render(h)))?.ok()?;
    let ua = upaddrs.clone();
    hk::routes_retarget(&conf, &move |_i, a: SocketAddr| match a.ip() {
        IpAddr::V4(v4) => ua.get((v4.octets()[3] as usize).wrapping_sub(1)).copied().unwrap_or(a),
        _ => a,
    })
    .await;
    hk::set_cookie_keys(h.cur, h.prev).await;
    // upstream TCP connections idle for 0.7 s are closed (120 s in production): histories that pause reach the
    // re-opening of a connection
    // (a history with a slow upstream keeps the production value: its point is a reply later than any time-out
    // the resolver may have of its own, on a connection that is still open)
    let slow = h.steps.iter().any(|s| matches!(s.script, Script::Reply { delay_ms, .. } if delay_ms > 0));
    hk::set_tcp_idle_timeout(if slow { Duration::from_secs(120) } else { Duration::from_millis(700) });
    let (svc, udp, tcp) = hk::service_from_config(conf, vec![IpAddr::V4(Ipv4Addr::UNSPECIFIED).with_port(0)]).await.ok()?;
    let t_svc = tokio::spawn(async move {
        let _ = svc.run().await;
    });
    let t0 = Instant::now();
    let mut t = Toks::new();
    t.n(1);
    put_rules(&mut t, &h.rules);
    put_table(&mut t, &h.table);
    t.bytes(&h.cur).bytes(&h.prev);
    t.n(h.steps.len() as u64);
    for s in &h.steps {
        if s.sleep_ms > 0 {
            tokio::time::sleep(Duration::from_millis(s.sleep_ms)).await;
        }
        *st.script.lock().unwrap() = s.script.clone();
        st.seen.lock().unwrap().clear();
        *st.udp_sent.lock().unwrap() = None;
        *st.tcp_sent.lock().unwrap() = None;
        *st.answered_at.lock().unwrap() = None;
        let cip = Ipv4Addr::from(s.client);
        let lip = Ipv4Addr::from(s.local);
        let wait = Duration::from_millis(match s.script {
            Script::Silent => 20_000,
            Script::Reply { delay_ms, .. } if delay_ms > 0 => delay_ms + 3000,
            _ => 300,
        });
        let t_s = std::time::SystemTime::now().duration_since(std::time::UNIX_EPOCH).unwrap().as_secs();
        let t_ns = t0.elapsed();
        let mut sport = 0u16;
        let mut reply: Option<Vec<u8>> = None;
        if s.tcp {
            let sock = TcpSocket::new_v4().ok()?;
            let _ = sock.set_reuseaddr(true);
            sock.bind(SocketAddr::new(IpAddr::V4(cip), 0)).ok()?;
            if let Ok(Ok(mut c)) = tokio::time::timeout(Duration::from_secs(2), sock.connect(SocketAddr::new(IpAddr::V4(lip), tcp[0].port()))).await {
                sport = c.local_addr().map(|a| a.port()).unwrap_or(0);
                let mut o = (s.query.len() as u16).to_be_bytes().to_vec();
                o.extend(&s.query);
                let _ = c.write_all(&o).await;
                // (over TCP the service always answers; a late answer under load must not be taken for silence)
                let r = tokio::time::timeout(wait.max(Duration::from_millis(2000)), async {
                    let mut lb = [0u8; 2];
                    c.read_exact(&mut lb).await.ok()?;
                    let mut b = vec![0u8; u16::from_be_bytes(lb) as usize];
                    c.read_exact(&mut b).await.ok()?;
                    Some(b)
                })
                .await;
                reply = r.ok().flatten();
            }
        } else {
            let c = UdpSocket::bind(SocketAddr::new(IpAddr::V4(cip), if s.port53 { 53 } else { 0 })).await.ok()?;
            sport = c.local_addr().map(|a| a.port()).unwrap_or(0);
            // a connected socket, as a stub resolver has: only a reply from the address the query went to is received
            let _ = c.connect(SocketAddr::new(IpAddr::V4(lip), udp[0].port())).await;
            let _ = c.send(&s.query).await;
            let mut buf = vec![0u8; 65536];
            if let Ok(Ok(l)) = tokio::time::timeout(wait, c.recv(&mut buf)).await {
                reply = Some(buf[..l].to_vec());
            } else if st.udp_sent.lock().unwrap().is_some() || st.tcp_sent.lock().unwrap().is_some() {
                // an upstream has answered and nothing has come back yet: on a loaded machine the
                // service may simply not have been scheduled; give it more time before calling it silence
                if let Ok(Ok(l)) = tokio::time::timeout(Duration::from_secs(3), c.recv(&mut buf)).await {
                    reply = Some(buf[..l].to_vec());
                }
            }
        }
        // when the result was stored: just before the reply arrived; without a reply (dropped by the limiter), just
        // after the upstream answered -- not after the time spent waiting for a reply that never came
        let t_after = match (&reply, *st.answered_at.lock().unwrap()) {
            (None, Some(at)) => at.duration_since(t0),
            _ => t0.elapsed(),
        };
        // let the upstream tasks record what is still in their queues (retransmissions)
        for _ in 0..3 {
            tokio::task::yield_now().await;
        }
        let (b1, b2) = hk::limiter_buckets(IpAddr::V4(cip));
        t.n(t_s).n(t_ns.as_secs()).n(t_ns.subsec_nanos() as u64);
        t.n(t_after.as_secs()).n(t_after.subsec_nanos() as u64); // the reply is here: the result has been stored
        t.n(4).n(u32::from(cip) as u64).n(sport as u64).b(s.tcp);
        t.n(4).n(u32::from(lip) as u64);
        t.n(b1 as u64).n(b2 as u64);
        t.bytes(format!("{}", lip).as_bytes()); // the NSID text: the receiving address
        // the server cookie this server issues now to this client for the query's client cookie
        let iss = erbium::dns::dnspkt::verif::parse(&s.query)
            .ok()
            .and_then(|p| p.edns.as_ref().and_then(|e| e.get_cookie().map(|(c, _)| c.to_vec())))
            .map(|c| issued(&c, s.client, s.local, &h.cur))
            .unwrap_or_default();
        t.bytes(&iss);
        t.bytes(&s.query);
        // upstream queries: retransmissions of the same datagram count once
        let mut seen: Vec<(u64, bool, Vec<u8>)> = vec![];
        for x in st.seen.lock().unwrap().iter() {
            if !seen.contains(x) {
                seen.push(x.clone());
            }
        }
        t.n(seen.len() as u64);
        for (srv, tr, b) in &seen {
            t.n(*srv).b(*tr).bytes(b);
        }
        put_opt(&mut t, &st.udp_sent.lock().unwrap().clone());
        put_opt(&mut t, &st.tcp_sent.lock().unwrap().clone());
        put_opt(&mut t, &reply);
        // replay block (not read by the model)
        t.n(s.sleep_ms);
        let sc = script_toks(&s.script);
        t.n(sc.len() as u64);
        for x in sc {
            t.n(x);
        }
    }
    t_svc.abort();
    for k in tasks {
        k.abort();
    }
    for k in st.conns.lock().unwrap().drain(..) {
        k.abort(); // close the upstream side of the resolver's persistent TCP connection
    }
    Some(t)
}

// ---- generator ----------------------------------------------------------------------------------
/// rcodes of scripted upstream replies: every one of 0..5 and a few beyond, with records or without
const RCODES: &[u8] = &[0, 0, 0, 0, 0, 1, 2, 2, 3, 3, 4, 5, 6, 9, 15];
fn lab(s: &str) -> Vec<u8> {
    s.as_bytes().to_vec()
}
fn nm(s: &[&str]) -> Name {
    s.iter().map(|x| lab(x)).collect()
}

struct QSpec {
    id: u16,
    rd: bool,
    cd: bool,
    hdr: u8, // further bits of the first flags octet (AA 0x04, TC 0x02): the client's to set, never to be echoed
    name: Name,
    qtype: u16,
    qclass: u16,
    edns: Option<(u16, bool, bool, Option<Vec<u8>>)>, // bufsize, DO, NSID asked, cookie data
}
fn query_bytes(q: &QSpec) -> Vec<u8> {
    let mut v = q.id.to_be_bytes().to_vec();
    v.push(q.rd as u8 | q.hdr);
    v.push(if q.cd { 0x20 } else { 0 });
    v.extend([0, 1, 0, 0, 0, 0, 0, q.edns.is_some() as u8]);
    for l in &q.name {
        v.push(l.len() as u8);
        v.extend(l);
    }
    v.push(0);
    v.extend(q.qtype.to_be_bytes());
    v.extend(q.qclass.to_be_bytes());
    if let Some((bufsize, d, nsid, cookie)) = &q.edns {
        v.extend([0, 0, 41]);
        v.extend(bufsize.to_be_bytes());
        v.extend([0, 0, if *d { 0x80 } else { 0 }, 0]);
        let mut o = vec![];
        if *nsid {
            o.extend([0, 3, 0, 0]);
        }
        if let Some(c) = cookie {
            o.extend([0, 10]);
            o.extend((c.len() as u16).to_be_bytes());
            o.extend(c);
        }
        v.extend((o.len() as u16).to_be_bytes());
        v.extend(o);
    }
    v
}

/// the server cookie this server issues to (client cookie, client address) under `key`
fn issued(cookie: &[u8], client: [u8; 4], local: [u8; 4], key: &[u8]) -> Vec<u8> {
    use erbium::dns::dnspkt::verif as pk;
    use erbium_net::addr::WithPort as _;
    let q = pk::parse(&query_bytes(&QSpec {
        id: 1, rd: false, cd: false, hdr: 0, name: nm(&["a"]), qtype: 1, qclass: 1, edns: None,
    }))
    .unwrap();
    let msg = erbium::dns::DnsMessage {
        in_query: q,
        in_size: 0,
        local_ip: IpAddr::V4(Ipv4Addr::from(local)),
        remote_addr: Ipv4Addr::from(client).with_port(1),
        protocol: erbium::dns::Protocol::Udp,
    };
    hk::server_cookie(&msg, cookie, key).to_vec()
}

fn gen_hist(r: &mut Rng, stats: &mut Stats, thorough: bool) -> Hist {
    let cur: [u8; 8] = r.bytes(8).try_into().unwrap();
    let prev: [u8; 8] = r.bytes(8).try_into().unwrap();
    // ACLs over 127.0.1.0/24 (usually allowed), 127.0.2.0/24 (usually refused), 127.0.3.0/24 (no rule)
    let net = |a: u8, b: u8, l: u8| (u32::from(Ipv4Addr::new(127, 0, a, b)), l);
    let mut rules = vec![];
    if r.chance(1, 3) {
        // a more specific rule first, with the opposite grant
        rules.push(Rule { subnet: Some(vec![net(1, 128, 25)]), acc: vec![2] });
    }
    rules.push(Rule { subnet: Some(vec![net(2, 0, 24)]), acc: if r.chance(1, 5) { vec![1] } else { vec![2, 3] } });
    rules.push(Rule { subnet: Some(vec![net(1, 7, 24), net(4, 0, 24)]), acc: vec![*r.pick(&[1u8, 0, 1, 1]), 2] });
    if r.chance(1, 4) {
        rules.push(Rule { subnet: None, acc: if r.chance(1, 2) { vec![1] } else { vec![] } });
    }
    // routes
    let mut table = vec![
        Route { forward: false, servers: vec![], suffixes: vec![nm(&["blocked", "example"]), nm(&["ads"])] },
        Route { forward: true, servers: vec![0], suffixes: vec![nm(&["example"]), nm(&["Corp", "lan"])] },
    ];
    if r.chance(3, 4) {
        table.push(Route { forward: true, servers: vec![1], suffixes: vec![vec![], nm(&["www", "example"])] });
    }
    if r.chance(1, 2) {
        table.reverse();
    }
    let names: Vec<Name> = vec![
        nm(&["www", "example"]), nm(&["a", "example"]), nm(&["x", "blocked", "example"]), nm(&["ads"]),
        nm(&["host", "corp", "LAN"]), nm(&["other", "org"]), nm(&["WWW", "Example"]), vec![],
    ];
    let clients: Vec<[u8; 4]> = vec![[127, 0, 1, 5], [127, 0, 1, 200], [127, 0, 2, 9], [127, 0, 3, 3], [127, 0, 4, 1]];
    let mut steps = vec![];
    let flavour = r.below(9);
    let nsteps = if flavour == 6 || flavour == 8 { r.range(3, 5) } else { r.range(5, 12) };
    let heavy = *r.pick(&clients);
    let (home_local, other_local) = if r.chance(1, 4) { ([127, 0, 0, 2], [127, 0, 0, 1]) } else { ([127, 0, 0, 1], [127, 0, 0, 2]) };
    let focus = r.pick(&names).clone();
    let mut sleeps = 0;
    for i in 0..nsteps {
        let client = if flavour == 0 { heavy } else if r.chance(1, 2) { [127, 0, 1, 5] } else { *r.pick(&clients) };
        // flavour 1 (the one that sleeps between look-ups) keeps asking the same question from the
        // same allowed client, and its upstream answers carry short TTLs: ageing and expiry of one
        // entry, whatever the rcode
        let steady = flavour == 1 && r.chance(4, 5);
        let client = if steady { [127, 0, 1, 5] } else { client };
        let name = if steady || r.chance(3, 5) { focus.clone() } else { r.pick(&names).clone() };
        let tcp = (r.chance(1, 6) && flavour != 0) || flavour == 6 || flavour == 8;
        // the server has two addresses; a history mostly stays with one
        let local = if r.chance(1, 5) { other_local } else { home_local };
        let cookie = match r.below(9) {
            0 => Some(r.bytes(8)),
            1 => {
                let c = r.bytes(8);
                let mut d = c.clone();
                d.extend(issued(&c, client, local, &cur)); // a cookie this server handed out earlier
                stats.bump("cookie.valid");
                Some(d)
            }
            2 => {
                let c = r.bytes(8);
                let mut d = c.clone();
                d.extend(issued(&c, [127, 0, 9, 9], local, &cur)); // issued to another address
                Some(d)
            }
            3 => {
                let k = r.range(1, 7) as usize; // shorter than a client cookie
                Some(r.bytes(k))
            }
            4 => {
                let c = r.bytes(8);
                let mut d = c.clone();
                // issued to this client by this server, but at its other address
                d.extend(issued(&c, client, if local == home_local { other_local } else { home_local }, &cur));
                stats.bump("cookie.other-server-address");
                Some(d)
            }
            _ => None,
        };
        let edns = if r.chance(2, 3) || cookie.is_some() {
            Some((*r.pick(&[512u16, 0, 1232, 4096, 700, 4097, 8192, 16384, 65535]), !steady && r.chance(1, 8), r.chance(1, 5), cookie))
        } else {
            None
        };
        // flavour 6: queries over TCP for different names from an allowed client, a second apart: the resolver's
        // upstream TCP connection goes idle, is closed and opened again.  flavour 7: the same question with and
        // without RD, in class IN and CH: what the cache holds must not answer a query that may not be forwarded
        let idle = flavour == 6 || flavour == 8;
        let rdflip = flavour == 7;
        let (client, name) = if idle { ([127, 0, 1, 5], names[i as usize % 5].clone()) } else if rdflip { ([127, 0, 1, 5], focus.clone()) } else { (client, name) };
        let mut q = QSpec {
            id: r.next() as u16,
            rd: steady || !r.chance(1, 8),
            cd: !steady && r.chance(1, 10),
            hdr: if !steady && r.chance(1, 6) { *r.pick(&[2u8, 4, 6]) } else { 0 },
            name,
            qtype: if steady { 1 } else if r.chance(1, 12) { 255 } else { *r.pick(&[1u16, 1, 1, 1, 1, 28, 16]) },
            qclass: if !steady && r.chance(1, 15) { 3 } else { 1 },
            edns,
        };
        if idle {
            q.rd = true;
            q.qclass = 1;
            q.hdr = 0;
        }
        if rdflip {
            q.rd = i % 2 == 0;
            q.qclass = if i % 3 == 2 { 3 } else { 1 };
            q.qtype = 1;
            q.cd = false;
            q.hdr = 0;
        }
        let script = match if idle || rdflip { 13 } else { r.below(14) } {
            0 => Script::Garbage,
            1 if thorough && r.chance(1, 6) => Script::Silent,
            2 => Script::Reply { a: vec![], n: vec![], d: vec![], rdlen: 4, tc: false, wrong_id: false, rcode: *r.pick(RCODES), stray: r.chance(1, 3), delay_ms: 0 },
            _ => {
                let ttl = |r: &mut Rng| {
                    if steady {
                        *r.pick(&[1u32, 1, 2, 3])
                    } else if rdflip {
                        *r.pick(&[30u32, 60, 600])
                    } else {
                        *r.pick(&[1u32, 1, 2, 3, 7, 8, 9, 30, 60, 600, 0, 86400])
                    }
                };
                let big = r.chance(1, 4);
                Script::Reply {
                    a: (0..r.range(1, 3)).map(|_| ttl(r).max(1)).collect(),
                    n: (0..r.below(3)).map(|_| ttl(r).max(1)).collect(),
                    d: (0..r.below(2)).map(|_| if r.chance(1, 10) { 0 } else { ttl(r).max(1) }).collect(),
                    // (the larger ones make replies of 4-13k octets: beyond what the service itself advertises upstream)
                    rdlen: if big { *r.pick(&[150usize, 200, 240, 1400, 2100]) } else { 4 },
                    tc: !idle && !rdflip && r.chance(1, 12),
                    wrong_id: !idle && !rdflip && r.chance(1, 14),
                    rcode: if idle || rdflip { 0 } else { *r.pick(RCODES) },
                    stray: r.chance(1, 3),
                    // flavour 8: the first answer over TCP takes 3.5 s
                    delay_ms: if flavour == 8 && i == 0 { 3500 } else { 0 },
                }
            }
        };
        let sleep_ms = if flavour == 1 && i > 0 && sleeps < 2 && r.chance(1, 3) {
            sleeps += 1;
            stats.bump("sleep.1100ms");
            1100
        } else if flavour == 8 && i == 1 {
            // after the slow answer nothing is asked for a second: a resolver that gave up on the slow upstream before
            // its answer came still has to cope with that answer arriving, with no other query in between
            stats.bump("sleep.1000ms-after-slow-upstream");
            1000
        } else if flavour == 6 && i > 0 && sleeps < 3 {
            sleeps += 1;
            stats.bump("sleep.1000ms-tcp-idle");
            1000
        } else {
            0
        };
        steps.push(Step { sleep_ms, client, local, port53: !tcp && r.chance(1, 40), tcp, query: query_bytes(&q), script });
    }
    if flavour == 0 {
        // one source hammering: the same refused (or not authoritative) query 13 times
        // ... sometimes presenting a server cookie that this server did issue to this client -- at its other address
        let edns = if r.chance(1, 3) {
            let c = r.bytes(8);
            let mut d = c.clone();
            d.extend(issued(&c, heavy, other_local, &cur));
            stats.bump("hammer.cookie-from-other-address");
            Some((1232u16, false, false, Some(d)))
        } else {
            None
        };
        let refused = Step {
            sleep_ms: 0,
            client: heavy,
            local: home_local,
            port53: false,
            tcp: false,
            query: query_bytes(&QSpec { id: 7, rd: false, cd: false, hdr: 0, name: nm(&["www", "example"]), qtype: 255, qclass: 1, edns }),
            script: Script::Garbage,
        };
        for _ in 0..13 {
            steps.push(refused.clone());
        }
        stats.bump("history.hammer");
    }
    stats.add("steps", steps.len() as u64);
    Hist { rules, table, cur, prev, steps }
}

// ---- replay --------------------------------------------------------------------------------------
struct Cur<'a>(&'a [u64], usize);
impl<'a> Cur<'a> {
    fn n(&mut self) -> Option<u64> {
        let v = self.0.get(self.1).copied();
        self.1 += 1;
        v
    }
    fn bytes(&mut self) -> Option<Vec<u8>> {
        let k = self.n()?;
        (0..k).map(|_| self.n().map(|x| x as u8)).collect()
    }
    fn nums(&mut self) -> Option<Vec<u64>> {
        let k = self.n()?;
        (0..k).map(|_| self.n()).collect()
    }
    fn optbytes(&mut self) -> Option<Option<Vec<u8>>> {
        Some(if self.n()? == 0 { None } else { Some(self.bytes()?) })
    }
    fn name(&mut self) -> Option<Name> {
        let k = self.n()?;
        (0..k).map(|_| self.bytes()).collect()
    }
}
fn parse_hist(toks: &[u64]) -> Option<Hist> {
    let mut c = Cur(toks, 0);
    if c.n()? != 1 {
        return None;
    }
    let mut rules = vec![];
    for _ in 0..c.n()? {
        let hs = c.n()?;
        let np = c.n()?;
        let mut ps = vec![];
        for _ in 0..np {
            if c.n()? != 4 {
                return None;
            }
            ps.push((c.n()? as u32, c.n()? as u8));
        }
        c.n()?;
        rules.push(Rule { subnet: if hs == 0 { None } else { Some(ps) }, acc: c.bytes()? });
    }
    let mut table = vec![];
    for _ in 0..c.n()? {
        let forward = c.n()? != 0;
        let servers = c.nums()?;
        let mut suffixes = vec![];
        for _ in 0..c.n()? {
            suffixes.push(c.name()?);
        }
        table.push(Route { forward, servers, suffixes });
    }
    let cur: [u8; 8] = c.bytes()?.try_into().ok()?;
    let prev: [u8; 8] = c.bytes()?.try_into().ok()?;
    let mut steps = vec![];
    for _ in 0..c.n()? {
        c.n()?;
        c.n()?;
        c.n()?;
        c.n()?;
        c.n()?; // t_s t_ns t_ins
        c.n()?;
        let client = (c.n()? as u32).to_be_bytes();
        let port = c.n()?;
        let tcp = c.n()? != 0;
        c.n()?;
        let local = (c.n()? as u32).to_be_bytes(); // local
        c.n()?;
        c.n()?; // buckets
        c.bytes()?;
        c.bytes()?; // NSID text, issued cookie
        let query = c.bytes()?;
        for _ in 0..c.n()? {
            c.n()?;
            c.n()?;
            c.bytes()?;
        }
        c.optbytes()?;
        c.optbytes()?;
        c.optbytes()?;
        let sleep_ms = c.n()?;
        let sc = c.nums()?;
        let script = match sc.first()? {
            1 => Script::Garbage,
            2 => Script::Silent,
            code => {
                let mut k = Cur(&sc, 1);
                let rcode = if *code == 3 { k.n()? as u8 } else { 0 };
                let rdlen = k.n()? as usize;
                let tc = k.n()? != 0;
                let wrong_id = k.n()? != 0;
                let mut l = vec![];
                for _ in 0..3 {
                    l.push(k.nums()?.into_iter().map(|x| x as u32).collect::<Vec<u32>>());
                }
                let stray = k.n().unwrap_or(0) != 0;
                let delay_ms = k.n().unwrap_or(0);
                Script::Reply { a: l[0].clone(), n: l[1].clone(), d: l[2].clone(), rdlen, tc, wrong_id, rcode, stray, delay_ms }
            }
        };
        steps.push(Step { sleep_ms, client, local, port53: port == 53, tcp, query, script });
    }
    Some(Hist { rules, table, cur, prev, steps })
}

fn main() {
    harness_main("D01", run);
}

pub fn run(args: &Args, out: &mut dyn Write) -> Stats {
    let rt = tokio::runtime::Builder::new_current_thread().enable_all().build().unwrap();
    let mut stats = Stats::default();
    if let Some(path) = &args.replay {
        for line in std::fs::read_to_string(path).expect("replay file").lines() {
            if line.starts_with('#') || line.trim().is_empty() {
                continue;
            }
            match parse_hist(&parse_tokens(line)).and_then(|h| rt.block_on(run_history(&h))) {
                Some(t) => writeln!(out, "{}", t.0).unwrap(),
                None => writeln!(out, "#unreadable {}", line).unwrap(),
            }
            stats.bump("replayed");
        }
        return stats;
    }
    let thorough = args.tier == "thorough";
    let mut r = Rng::new(args.seed);
    for _ in 0..args.n {
        let h = gen_hist(&mut r, &mut stats, thorough);
        match rt.block_on(run_history(&h)) {
            Some(t) => writeln!(out, "{}", t.0).unwrap(),
            None => stats.bump("history.not_started"),
        }
        stats.bump("histories");
    }
    stats
}

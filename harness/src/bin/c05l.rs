//! C05L: the LLDP and DHCP option-value parts of C05, runnable on their own.
//! Case kinds 100..199: ../c05_dhcpopt.rs; 400..499: ../c05_lldp.rs.
#[path = "../util.rs"]
mod util;
#[path = "../c05_log.rs"]
mod c05_log;
#[path = "../c05_dhcpopt.rs"]
mod c05_dhcpopt;
#[path = "../c05_lldp.rs"]
mod c05_lldp;

fn run(args: &util::Args, out: &mut dyn std::io::Write) -> util::Stats {
    let mut st = c05_dhcpopt::run(args, out);
    let st2 = c05_lldp::run(args, out);
    for (k, v) in st2.counts {
        st.add(&k, v);
    }
    st
}

fn main() {
    util::harness_main("C05L", run)
}

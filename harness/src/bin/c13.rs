//! C13: only DHCP messages meant for this server are answered or change lease state.
//! kind 1: cfg nids ids.. serverip <m> <db before> res <db after>
//!   res = 0 <reply> | 1 errkind | 2 (panic)
//!   <db> = n (addr client(bytes) start expiry)*   sorted by address
#[path = "../util.rs"]
mod util;
#[path = "../dhcpgen.rs"]
mod dhcpgen;
use dhcpgen::*;
use erbium::dhcp;
use erbium::dhcp::dhcppkt;
use erbium::dhcp::dhcppkt::verif as hk;
use erbium::dhcp::pool;
use std::io::Write;
use util::*;

const CONFIGS: [&str; 6] = [
    // 0: a small pool on 192.0.2.0/24
    "
dhcp-policies:
  - match-subnet: 192.0.2.0/24
    apply-range: {start: 192.0.2.10, end: 192.0.2.13}
",
    // 1: a single reserved address for one hardware address, nothing for anybody else
    "
dhcp-policies:
  - match-subnet: 192.0.2.0/24
    policies:
      - match-hardware-address: 02:00:00:00:00:01
        apply-address: 192.0.2.50
",
    // 2: a policy that matches but assigns no addresses
    "
dhcp-policies:
  - match-subnet: 192.0.2.0/24
    apply-dns-servers: [192.0.2.53]
",
    // 3: top-level addresses only (default pool = the whole prefix)
    "
addresses: [198.51.100.1/29]
",
    // 4, 5: the small pool under a policy that itself says something about option 54 (another server's
    // address / null): replies must still name THIS server
    "
dhcp-policies:
  - match-subnet: 192.0.2.0/24
    apply-range: {start: 192.0.2.10, end: 192.0.2.13}
    apply-server-id: 192.0.2.3
",
    "
dhcp-policies:
  - match-subnet: 192.0.2.0/24
    apply-range: {start: 192.0.2.10, end: 192.0.2.13}
    apply-server-id: null
",
];

fn dump_db(p: &pool::Pool, t: &mut Toks) {
    let conn = p.verif_conn();
    let mut rows: Vec<(u32, Vec<u8>, u32, u32)> = conn
        .prepare("SELECT address, clientid, start, expiry FROM leases")
        .unwrap()
        .query_map([], |r| {
            Ok((
                r.get::<_, String>(0)?.parse::<std::net::Ipv4Addr>().map(u32::from).unwrap_or(0),
                r.get::<_, Option<Vec<u8>>>(1)?.unwrap_or_default(),
                r.get::<_, u32>(2)?,
                r.get::<_, u32>(3)?,
            ))
        })
        .unwrap()
        .map(|x| x.unwrap())
        .collect();
    rows.sort();
    t.n(rows.len() as u64);
    for (a, c, s, e) in rows {
        t.n(a as u64).bytes(&c).n(s as u64).n(e as u64);
    }
}

struct Case {
    cfg: usize,
    rows: Vec<(u32, Vec<u8>, u32, u32)>, // leases written straight into the store (addr, client, start, expiry)
    ids: Vec<u32>,
    serverip: u32,
    m: dhcppkt::Dhcp,
}

fn run_case(c: &Case, confs: &[erbium::config::SharedConfig]) -> Toks {
    let mut t = Toks::new();
    t.n(1).n(c.cfg as u64).n(c.ids.len() as u64);
    for i in &c.ids {
        t.n(*i as u64);
    }
    t.n(c.serverip as u64);
    put_dhcp(&mut t, &c.m, true);
    let mut p = pool::Pool::new_in_memory().expect("pool");
    for (addr, client, s, e) in c.rows.iter() {
        p.verif_conn()
            .execute(
                "INSERT OR REPLACE INTO leases (address, clientid, start, expiry) VALUES (?1, ?2, ?3, ?4)",
                rusqlite::params![std::net::Ipv4Addr::from(*addr).to_string(), client, s, e],
            )
            .unwrap();
    }
    dump_db(&p, &mut t);
    let req = dhcp::DHCPRequest {
        pkt: get_dhcp(&mut Cur(&parse_tokens(&{
            let mut x = Toks::new();
            put_dhcp(&mut x, &c.m, true);
            x.0
        }), 0))
        .unwrap(),
        serverip: c.serverip.into(),
        ifindex: 1,
        if_mtu: None,
        if_router: None,
    };
    let ids: std::collections::HashSet<std::net::Ipv4Addr> = c.ids.iter().map(|x| (*x).into()).collect();
    let conf = confs[c.cfg].try_read().unwrap();
    match catch(|| dhcp::handle_pkt(&mut p, &req, ids, &conf)) {
        None => {
            t.n(2);
        }
        Some(Ok(rep)) => {
            t.n(0);
            put_dhcp(&mut t, &rep, true);
        }
        Some(Err(e)) => {
            t.n(1).n(match e {
                dhcp::DhcpError::UnknownMessageType(_) => 1,
                dhcp::DhcpError::ParseError(_) => 2,
                dhcp::DhcpError::OtherServer(_) => 3,
                dhcp::DhcpError::NoPolicyConfigured => 4,
                dhcp::DhcpError::NoLeasesConfigured => 5,
                dhcp::DhcpError::PoolError(pool::Error::NoAssignableAddress) => 6,
                dhcp::DhcpError::PoolError(pool::Error::RequestedAddressInUse) => 7,
                dhcp::DhcpError::PoolError(_) => 8,
                dhcp::DhcpError::InternalError(_) => 9,
            });
        }
    }
    dump_db(&p, &mut t);
    t
}

fn gen_case(r: &mut Rng, stats: &mut Stats) -> Case {
    let cfg = r.below(6) as usize;
    let serverip: u32 = match (cfg, r.below(8)) {
        (_, 0) => 0x0A00_0001,             // outside every policy
        (3, _) => 0xC633_6401,             // 198.51.100.1
        _ => 0xC000_0201,                  // 192.0.2.1
    };
    let other = 0xC000_02FE_u32;
    let mut ids = vec![];
    if r.chance(1, 2) {
        ids.push(serverip);
    }
    if r.chance(1, 3) {
        ids.push(other);
    }
    let mut m = gen_msg(r);
    m.options.other.remove(&hk::mk_option(53));
    m.options.other.remove(&hk::mk_option(54));
    m.options.other.remove(&hk::mk_option(50));
    // message type: every value 0..255, absent, and wrong lengths
    match r.below(20) {
        0 => {
            stats.bump("type.absent");
        }
        1 => {
            stats.bump("type.badlen");
            let k = *r.pick(&[0usize, 2, 3]);
            m.options.other.insert(hk::mk_option(53), r.bytes(k));
        }
        2..=7 => {
            stats.bump("type.discover");
            m.options.other.insert(hk::mk_option(53), vec![1]);
        }
        8..=15 => {
            stats.bump("type.request");
            m.options.other.insert(hk::mk_option(53), vec![3]);
        }
        _ => {
            stats.bump("type.other");
            let t = r.byte();
            m.options.other.insert(hk::mk_option(53), vec![t]);
        }
    }
    // server identifier: absent, wrong length, receiving address, a remembered id, foreign
    match r.below(6) {
        0 | 1 => {
            stats.bump("sid.absent");
        }
        2 => {
            stats.bump("sid.badlen");
            let k = *r.pick(&[0usize, 3, 5]);
            m.options.other.insert(hk::mk_option(54), r.bytes(k));
        }
        3 => {
            stats.bump("sid.receiving-address");
            m.options.other.insert(hk::mk_option(54), serverip.to_be_bytes().to_vec());
        }
        4 => {
            stats.bump("sid.remembered-other");
            m.options.other.insert(hk::mk_option(54), other.to_be_bytes().to_vec());
        }
        _ => {
            stats.bump("sid.foreign");
            m.options.other.insert(hk::mk_option(54), (r.next() as u32).to_be_bytes().to_vec());
        }
    }
    if r.chance(1, 3) {
        let a = 0xC000_020A_u32 + r.below(5) as u32;
        m.options.other.insert(hk::mk_option(50), a.to_be_bytes().to_vec());
    }
    if r.chance(1, 4) {
        m.ciaddr = (0xC000_020A_u32 + r.below(5) as u32).into();
    } else {
        m.ciaddr = 0.into();
    }
    if r.chance(1, 3) {
        // the client asks for the server identifier (and a few others) in its parameter list
        stats.bump("prl.asks-for-54");
        m.options.other.insert(hk::mk_option(55), vec![1, 3, 54, 51, 6]);
    }
    if r.chance(1, 3) {
        m.chaddr = vec![2, 0, 0, 0, 0, 1];
        m.hlen = 6;
    }
    // other clients occupy part (sometimes all) of the small pool
    let now = std::time::SystemTime::now().duration_since(std::time::UNIX_EPOCH).unwrap().as_secs() as u32;
    let mut prefill: Vec<(Vec<u8>, u32)> = vec![];
    let k = match r.below(4) {
        0 => 0,
        1 => 8,
        _ => r.below(5),
    };
    for j in 0..k {
        let client = vec![9, 9, j as u8];
        prefill.push((client, 0xC000_020A_u32 + (j % 4) as u32));
    }
    if r.chance(1, 4) {
        // the client itself already holds something
        prefill.push((m.get_client_id(), 0xC000_020A_u32 + r.below(4) as u32));
    }
    if r.chance(1, 3) {
        // ... and a lease on another subnet of the same server (one client id, two pools): not this exchange's row
        stats.bump("prefill.same-client-other-subnet");
        prefill.push((m.get_client_id(), 0xC633_6414_u32 + r.below(3) as u32));
        if r.chance(1, 2) {
            prefill.push((m.get_client_id(), 0xCB00_7105_u32));
        }
    }
    // half of them expired, half current -- or all current (pool exhausted for everybody else)
    let all_current = r.chance(1, 3);
    let rows = prefill
        .into_iter()
        .enumerate()
        .map(|(i, (client, addr))| {
            let (s, e) = if all_current || i % 2 == 0 { (now - 100, now + 1000) } else { (now - 1000, now - 10) };
            (addr, client, s, e)
        })
        .collect();
    Case { cfg, rows, ids, serverip, m }
}

pub fn run(args: &Args, out: &mut dyn Write) -> Stats {
    let mut stats = Stats::default();
    let confs: Vec<erbium::config::SharedConfig> = CONFIGS
        .iter()
        .map(|c| erbium::config::verif_load_config_from_string(c).expect("harness config must load"))
        .collect();
    if let Some(file) = &args.replay {
        for line in std::fs::read_to_string(file).expect("replay file").lines() {
            if line.starts_with('#') || line.trim().is_empty() {
                continue;
            }
            let toks = parse_tokens(line);
            let mut c = Cur(&toks, 0);
            let case = (|| {
                if c.n()? != 1 {
                    return None;
                }
                let cfg = c.n()? as usize;
                let nids = c.n()?;
                let mut ids = vec![];
                for _ in 0..nids {
                    ids.push(c.n()? as u32);
                }
                let serverip = c.n()? as u32;
                let m = get_dhcp(&mut c)?;
                let n = c.n()?;
                let mut rows = vec![];
                for _ in 0..n {
                    let a = c.n()? as u32;
                    let cl = c.bytes()?;
                    rows.push((a, cl, c.n()? as u32, c.n()? as u32));
                }
                Some(Case { cfg: cfg % CONFIGS.len(), rows, ids, serverip, m })
            })();
            match case {
                Some(cs) => writeln!(out, "{}", run_case(&cs, &confs).0).unwrap(),
                None => writeln!(out, "#unreadable {}", line).unwrap(),
            }
            stats.bump("replayed");
        }
        return stats;
    }
    let mut r = Rng::new(args.seed);
    for _ in 0..args.n {
        let c = gen_case(&mut r, &mut stats);
        stats.bump(&format!("config.{}", c.cfg));
        writeln!(out, "{}", run_case(&c, &confs).0).unwrap();
    }
    stats
}

fn main() {
    harness_main("C13", run);
}

//! C18: leases survive restarts, schema upgrades and crashes.
//! kind 1 (schema part, see coq/Model/EntryC18.v):
//!   1 <store s> k r1 <store d1> r2 <store d2>
//! The harness builds the store `s` with raw SQL in a file, opens it through
//! the real `Pool` with a simulated kill at statement boundary `k` of
//! `setup_db` (0 = none; r1 = 3 when killed), dumps the file, opens it again
//! without a kill and dumps again.
//! <store> = sv ver(0 | 1 m | 2 m) leases(0 | 1 hascol n rows) ;
//! row = addr client(bytes) start expiry opts(0 | 1 bytes)
#[path = "../util.rs"]
mod util;
#[path = "../poolgen.rs"]
mod poolgen;
use erbium::dhcp::pool;
use std::io::Write;
use util::*;

#[derive(Clone, Debug)]
struct Row {
    addr: u32,
    client: Vec<u8>,
    start: u32,
    expiry: u32,
    opts: Option<Vec<u8>>,
}
#[derive(Clone, Debug)]
struct Store {
    sv: bool,
    ver: Option<i64>,
    leases: Option<(bool, Vec<Row>)>,
}

fn put_store(t: &mut Toks, s: &Store) {
    t.b(s.sv);
    match s.ver {
        None => {
            t.n(0);
        }
        Some(v) if v < 0 => {
            t.n(2).n(v.unsigned_abs());
        }
        Some(v) => {
            t.n(1).n(v as u64);
        }
    }
    match &s.leases {
        None => {
            t.n(0);
        }
        Some((col, rows)) => {
            t.n(1).b(*col).n(rows.len() as u64);
            for r in rows {
                t.n(r.addr as u64).bytes(&r.client).n(r.start as u64).n(r.expiry as u64);
                match &r.opts {
                    None => {
                        t.n(0);
                    }
                    Some(o) => {
                        t.n(1).bytes(o);
                    }
                }
            }
        }
    }
}

struct Cur<'a>(&'a [u64], usize);
impl<'a> Cur<'a> {
    fn n(&mut self) -> Option<u64> {
        let v = self.0.get(self.1).copied();
        self.1 += 1;
        v
    }
    fn bytes(&mut self) -> Option<Vec<u8>> {
        let k = self.n()? as usize;
        if self.1 + k > self.0.len() {
            return None;
        }
        let v = self.0[self.1..self.1 + k].iter().map(|&x| x as u8).collect();
        self.1 += k;
        Some(v)
    }
}
fn get_store(c: &mut Cur) -> Option<Store> {
    let sv = c.n()? != 0;
    let ver = match c.n()? {
        0 => None,
        1 => Some(c.n()? as i64),
        _ => Some(-(c.n()? as i64)),
    };
    let leases = match c.n()? {
        0 => None,
        _ => {
            let col = c.n()? != 0;
            let n = c.n()?;
            let mut rows = vec![];
            for _ in 0..n {
                let addr = c.n()? as u32;
                let client = c.bytes()?;
                let start = c.n()? as u32;
                let expiry = c.n()? as u32;
                let opts = match c.n()? {
                    0 => None,
                    _ => Some(c.bytes()?),
                };
                rows.push(Row { addr, client, start, expiry, opts });
            }
            Some((col, rows))
        }
    };
    Some(Store { sv, ver, leases })
}

fn build(path: &str, s: &Store) {
    let _ = std::fs::remove_file(path);
    let _ = std::fs::remove_file(format!("{}-journal", path));
    let conn = rusqlite::Connection::open(path).expect("open");
    if s.sv {
        conn.execute(
            "CREATE TABLE schema_version (key TEXT NOT NULL, version INTEGER NOT NULL, PRIMARY KEY (key))",
            [],
        )
        .unwrap();
        if let Some(v) = s.ver {
            conn.execute("INSERT INTO schema_version (key, version) VALUES ('pool', ?1)", rusqlite::params![v])
                .unwrap();
        }
    }
    if let Some((col, rows)) = &s.leases {
        if *col {
            conn.execute(
                "CREATE TABLE leases (address TEXT NOT NULL, chaddr BLOB, clientid BLOB, start INTEGER NOT NULL, expiry INTEGER NOT NULL, options BLOB, PRIMARY KEY (address))",
                [],
            )
            .unwrap();
        } else {
            conn.execute(
                "CREATE TABLE leases (address TEXT NOT NULL, chaddr BLOB, clientid BLOB, start INTEGER NOT NULL, expiry INTEGER NOT NULL, PRIMARY KEY (address))",
                [],
            )
            .unwrap();
        }
        for r in rows {
            let ip = std::net::Ipv4Addr::from(r.addr).to_string();
            if *col {
                conn.execute(
                    "INSERT INTO leases (address, clientid, start, expiry, options) VALUES (?1, ?2, ?3, ?4, ?5)",
                    rusqlite::params![ip, r.client, r.start, r.expiry, r.opts],
                )
                .unwrap();
            } else {
                conn.execute(
                    "INSERT INTO leases (address, clientid, start, expiry) VALUES (?1, ?2, ?3, ?4)",
                    rusqlite::params![ip, r.client, r.start, r.expiry],
                )
                .unwrap();
            }
        }
    }
}

fn dump(path: &str) -> Store {
    let conn = rusqlite::Connection::open(path).expect("open for dump");
    let has_table = |name: &str| -> bool {
        conn.query_row(
            "SELECT count(*) FROM sqlite_master WHERE type='table' AND name=?1",
            rusqlite::params![name],
            |r| r.get::<_, i64>(0),
        )
        .unwrap()
            > 0
    };
    let sv = has_table("schema_version");
    let ver = if sv {
        conn.query_row("SELECT version FROM schema_version WHERE key='pool'", [], |r| r.get::<_, i64>(0)).ok()
    } else {
        None
    };
    let leases = if has_table("leases") {
        let col = conn
            .prepare("PRAGMA table_info(leases)")
            .unwrap()
            .query_map([], |r| r.get::<_, String>(1))
            .unwrap()
            .any(|n| n.unwrap() == "options");
        let sql = if col {
            "SELECT address, clientid, start, expiry, options FROM leases"
        } else {
            "SELECT address, clientid, start, expiry, NULL FROM leases"
        };
        let mut rows: Vec<Row> = conn
            .prepare(sql)
            .unwrap()
            .query_map([], |r| {
                Ok(Row {
                    addr: r.get::<_, String>(0)?.parse::<std::net::Ipv4Addr>().map(u32::from).unwrap_or(0),
                    client: r.get::<_, Option<Vec<u8>>>(1)?.unwrap_or_default(),
                    start: r.get(2)?,
                    expiry: r.get(3)?,
                    opts: r.get(4)?,
                })
            })
            .unwrap()
            .map(|x| x.unwrap())
            .collect();
        rows.sort_by_key(|r| r.addr);
        Some((col, rows))
    } else {
        None
    };
    Store { sv, ver, leases }
}

fn open_class(path: &str, crash: i64) -> u64 {
    pool::verif::set_crash_after(if crash > 0 { crash } else { -1 });
    let r = catch(|| pool::Pool::verif_open(path));
    pool::verif::set_crash_after(-1);
    match r {
        None => 4, // panic
        Some(Ok(mut p)) => {
            // the opened store must be usable: get_leases is what the server relies on
            match catch(|| p.get_leases()) {
                Some(Ok(_)) => 0,
                _ => 5,
            }
        }
        Some(Err(e)) => {
            let m = e.to_string();
            if m.contains("simulated crash") {
                3
            } else if m.contains("newer than") {
                2
            } else {
                1
            }
        }
    }
}

fn case_schema(path: &str, s: &Store, k: u64) -> Toks {
    let mut t = Toks::new();
    t.n(1);
    put_store(&mut t, s);
    t.n(k);
    build(path, s);
    let r1 = open_class(path, k as i64);
    let d1 = dump(path);
    t.n(r1);
    put_store(&mut t, &d1);
    let r2 = open_class(path, 0);
    let d2 = dump(path);
    t.n(r2);
    put_store(&mut t, &d2);
    t
}

fn gen_rows(r: &mut Rng, with_opts: bool) -> Vec<Row> {
    let n = match r.below(4) {
        0 => 0,
        1 => 1,
        _ => r.range(2, 6),
    };
    let base = *r.pick(&[0xC000_0200u32, 0x0A00_0000, 0xFFFF_FF00, 0]);
    let mut addrs: Vec<u32> = (0..n).map(|_| base + r.below(200) as u32).collect();
    addrs.sort();
    addrs.dedup();
    addrs
        .into_iter()
        .map(|addr| {
            let start = match r.below(3) {
                0 => 0,
                1 => 1_700_000_000,
                _ => r.next() as u32,
            };
            let k = r.below(20) as usize;
            Row {
                addr,
                client: r.bytes(k),
                start,
                expiry: if r.chance(1, 5) { u32::MAX } else { start.saturating_add(r.below(100_000) as u32) },
                opts: if with_opts && r.chance(2, 3) {
                    let k = r.below(12) as usize;
                    Some(r.bytes(k))
                } else {
                    None
                },
            }
        })
        .collect()
}

fn gen_store(r: &mut Rng, stats: &mut Stats) -> Store {
    match r.below(12) {
        0 => {
            stats.bump("store.fresh");
            Store { sv: false, ver: None, leases: None }
        }
        1 | 2 | 3 => {
            stats.bump("store.v0-unversioned");
            Store { sv: false, ver: None, leases: Some((false, gen_rows(r, false))) }
        }
        4 | 5 => {
            stats.bump("store.v1");
            Store { sv: true, ver: Some(1), leases: Some((true, gen_rows(r, true))) }
        }
        6 => {
            stats.bump("store.v0-versioned");
            Store { sv: true, ver: Some(0), leases: Some((false, gen_rows(r, false))) }
        }
        7 => {
            stats.bump("store.sv-only");
            Store { sv: true, ver: None, leases: None }
        }
        8 => {
            stats.bump("store.sv+v0");
            Store { sv: true, ver: None, leases: Some((false, gen_rows(r, false))) }
        }
        9 | 10 => {
            stats.bump("store.newer");
            let v = *r.pick(&[2i64, 3, 100, -1, 2147483647, -2147483648]);
            Store { sv: true, ver: Some(v), leases: Some((true, gen_rows(r, true))) }
        }
        _ => {
            stats.bump("store.odd");
            // states no released erbium leaves behind: the model must still agree on what open does
            let col = r.chance(1, 2);
            Store {
                sv: true,
                ver: *r.pick(&[None, Some(0), Some(1)]),
                leases: if r.chance(1, 4) { None } else { Some((col, gen_rows(r, col))) },
            }
        }
    }
}

pub fn run(args: &Args, out: &mut dyn Write) -> Stats {
    let mut stats = Stats::default();
    let dir = std::env::var("VERIF_TMP").unwrap_or_else(|_| {
        if std::path::Path::new("/dev/shm").is_dir() {
            "/dev/shm".into()
        } else {
            ".".into()
        }
    });
    let path = format!("{}/verif-c18-{}-{}.sqlite", dir, std::process::id(), args.seed);
    if let Some(file) = &args.replay {
        for line in std::fs::read_to_string(file).expect("replay file").lines() {
            if line.starts_with('#') || line.trim().is_empty() {
                continue;
            }
            let toks = parse_tokens(line);
            let mut c = Cur(&toks, 0);
            let done = (|| {
                match c.n()? {
                    2 => {
                        let t = poolgen::replay_case(&toks[1..], &mut stats)?;
                        let mut x = Toks::new();
                        x.n(2);
                        x.append(&t);
                        Some(x)
                    }
                    1 => {
                        let s = get_store(&mut c)?;
                        let k = c.n()?;
                        Some(case_schema(&path, &s, k))
                    }
                    _ => None,
                }
            })();
            match done {
                Some(t) => writeln!(out, "{}", t.0).unwrap(),
                None => writeln!(out, "#unreadable {}", line).unwrap(),
            }
            stats.bump("replayed");
        }
        let _ = std::fs::remove_file(&path);
        return stats;
    }
    // kind 2: whole DHCP histories on a file store with close/reopen events (generator of C01);
    // every line is prefixed with the kind
    {
        struct Prefix<'a>(&'a mut dyn Write, bool);
        impl<'a> Write for Prefix<'a> {
            fn write(&mut self, buf: &[u8]) -> std::io::Result<usize> {
                for &b in buf {
                    if self.1 {
                        self.0.write_all(b"2 ")?;
                        self.1 = false;
                    }
                    self.0.write_all(&[b])?;
                    if b == b'\n' {
                        self.1 = true;
                    }
                }
                Ok(buf.len())
            }
            fn flush(&mut self) -> std::io::Result<()> {
                self.0.flush()
            }
        }
        let sub = Args { seed: args.seed, n: args.n * 2, tier: args.tier.clone(), replay: None, extra: vec!["--no-exhaustive".into()] };
        let mut pw = Prefix(out, true);
        let st = poolgen::run("C18", &sub, &mut pw);
        for (k, v) in st.counts {
            stats.add(&format!("history.{}", k), v);
        }
    }
    match case_multihomed(&path) {
        Some(t) => {
            writeln!(out, "{}", t.0).unwrap();
            stats.bump("multihomed-witness");
        }
        None => stats.bump("multihomed-witness.unavailable"),
    }
    let mut r = Rng::new(args.seed);
    for _ in 0..args.n {
        let s = gen_store(&mut r, &mut stats);
        // every crash point of setup_db for this store, plus the uninterrupted open
        for k in 0..=5u64 {
            writeln!(out, "{}", case_schema(&path, &s, k).0).unwrap();
            stats.bump(&format!("crash_at.{}", k));
        }
    }
    let _ = std::fs::remove_file(&path);
    let _ = std::fs::remove_file(format!("{}-journal", path));
    stats
}

/// kind 3: the multi-homed witness of S05_multihomed_refuted on the real code.  A server whose host has the
/// address 127.0.0.1 (any host has) serves 127.0.0.0/8 and 198.51.100.0/24.  It answers a DISCOVER received on
/// 127.0.0.1 and, as the receive loop does, remembers that identifier; then a REQUEST naming 127.0.0.1 arrives
/// on 198.51.100.1 -- once on the uninterrupted service, once after a restart (a NEW DhcpService object around
/// the reopened store: nothing remembered).  The identifiers handed to handle_pkt are the receive loop's own
/// (`verif_own_serverids`).      3 a1 a2 b1 b2      a = uninterrupted, b = restarted; 1 = answered
fn case_multihomed(path: &str) -> Option<Toks> {
    use erbium::dhcp;
    use erbium::dhcp::dhcppkt;
    use erbium::dhcp::dhcppkt::verif as hk;
    let conf = erbium::config::verif_load_config_from_string(
        "dhcp-policies:\n  - match-subnet: 127.0.0.0/8\n    apply-range: {start: 127.0.0.10, end: 127.0.0.20}\n  - match-subnet: 198.51.100.0/24\n    apply-range: {start: 198.51.100.10, end: 198.51.100.20}\n",
    )
    .ok()?;
    let a: std::net::Ipv4Addr = "127.0.0.1".parse().unwrap();
    let b: std::net::Ipv4Addr = "198.51.100.1".parse().unwrap();
    let mk = |mt: u8, serverip: std::net::Ipv4Addr, sid: Option<std::net::Ipv4Addr>| {
        let mut options = dhcppkt::DhcpOptions::default();
        options.other.insert(hk::mk_option(53), vec![mt]);
        if let Some(s) = sid {
            options.other.insert(hk::mk_option(54), s.octets().to_vec());
        }
        dhcp::DHCPRequest {
            pkt: dhcppkt::Dhcp {
                op: hk::mk_op(1),
                htype: hk::mk_htype(1),
                hlen: 6,
                hops: 0,
                xid: 7,
                secs: 0,
                flags: 0,
                ciaddr: std::net::Ipv4Addr::UNSPECIFIED,
                yiaddr: std::net::Ipv4Addr::UNSPECIFIED,
                siaddr: std::net::Ipv4Addr::UNSPECIFIED,
                giaddr: std::net::Ipv4Addr::UNSPECIFIED,
                chaddr: vec![0, 0, 0x5e, 0, 0x53, 1],
                sname: vec![],
                file: vec![],
                options,
            },
            serverip,
            ifindex: 1,
            if_mtu: None,
            if_router: None,
        }
    };
    let rt = tokio::runtime::Builder::new_current_thread().enable_all().build().ok()?;
    let service = |rt: &tokio::runtime::Runtime| -> Option<dhcp::DhcpService> {
        let c2 = conf.clone();
        let p = pool::Pool::verif_open(path).ok()?;
        catch(|| {
            rt.block_on(async {
                let netinfo = tokio::time::timeout(std::time::Duration::from_secs(10), erbium_net::netinfo::SharedNetInfo::new()).await.ok()?;
                dhcp::DhcpService::verif_new_with_pool(netinfo, c2, p).await.ok()
            })
        })
        .flatten()
    };
    let mut t = Toks::new();
    t.n(3);
    for restart in [false, true] {
        let _ = std::fs::remove_file(path);
        let mut svc = service(&rt)?;
        let lockedconf = conf.try_read().ok()?;
        let r1 = rt.block_on(async {
            let ids = svc.verif_own_serverids().await;
            let pl = svc.verif_pool();
            let mut p = pl.lock().await;
            let r = catch(|| dhcp::handle_pkt(&mut p, &mk(1, a, None), ids, &lockedconf));
            if let Some(Ok(reply)) = &r {
                if let Some(si) = reply.options.get_serverid() {
                    svc.verif_learn_serverid(si).await;
                }
            }
            r
        })?;
        if restart {
            drop(svc);
            svc = service(&rt)?;
        }
        let r2 = rt.block_on(async {
            let ids = svc.verif_own_serverids().await;
            let pl = svc.verif_pool();
            let mut p = pl.lock().await;
            catch(|| dhcp::handle_pkt(&mut p, &mk(3, b, Some(a)), ids, &lockedconf))
        })?;
        t.b(r1.is_ok()).b(r2.is_ok());
    }
    let _ = std::fs::remove_file(path);
    Some(t)
}

fn main() {
    harness_main("C18", run);
}

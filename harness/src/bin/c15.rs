//! C15: DNS route selection (longest suffix, any order, any case) and what is
//! done with the selected route.  The real `DnsRouteHandler::handle_query` is
//! run on configurations rendered as YAML and loaded by the real loader; the
//! forward routes are pointed at scripted UDP upstreams on loopback (one per
//! server number), so that "which server saw the query" is observed directly.
//!
//! Case line (see coq/Model/EntryC15.v):
//!   1 <table> <query name> rd | res rcode nhits hit*
#[path = "../util.rs"]
mod util;
use erbium::dns::{self, dnspkt, verif as hk};
use std::io::Write;
use std::sync::atomic::{AtomicU64, Ordering};
use std::sync::Arc;
use util::*;

type Name = Vec<Vec<u8>>;
#[derive(Clone, PartialEq, Debug)]
struct Route {
    forward: bool,
    servers: Vec<u64>,
    suffixes: Vec<Name>,
}
type Table = Vec<Route>;

const NSRV: usize = 4;

struct Upstreams {
    ports: Vec<u16>,
    hits: Arc<Vec<AtomicU64>>,
}

async fn start_upstreams() -> Upstreams {
    let hits: Arc<Vec<AtomicU64>> = Arc::new((0..NSRV).map(|_| AtomicU64::new(0)).collect());
    let mut ports = vec![];
    for i in 0..NSRV {
        let sock = tokio::net::UdpSocket::bind("127.0.0.1:0").await.expect("bind upstream");
        ports.push(sock.local_addr().unwrap().port());
        let hits = hits.clone();
        tokio::spawn(async move {
            let mut buf = [0u8; 4096];
            loop {
                if let Ok((l, from)) = sock.recv_from(&mut buf).await {
                    hits[i].fetch_add(1, Ordering::SeqCst);
                    if l >= 12 {
                        buf[2] |= 0x80; // QR: the reply is the query with the response bit set
                        let _ = sock.send_to(&buf[..l], from).await;
                    }
                }
            }
        });
    }
    Upstreams { ports, hits }
}

fn name_to_string(n: &Name) -> String {
    n.iter().map(|l| String::from_utf8(l.clone()).unwrap()).collect::<Vec<_>>().join(".")
}

fn render(t: &Table, r: &mut Rng) -> String {
    let mut s = String::from("---\ndns-routes:\n");
    for rt in t {
        // the keys of a route in any order; a forge-nxdomain route may carry a (meaningless, accepted) dns-servers line
        let mut lines = vec![String::from(if rt.forward { "type: forward" } else { "type: forge-nxdomain" })];
        if !rt.servers.is_empty() {
            let v: Vec<String> = rt.servers.iter().map(|k| format!("127.0.0.{}", k + 1)).collect();
            lines.push(format!("dns-servers: [{}]", v.join(", ")));
        }
        if !rt.suffixes.is_empty() || r.chance(1, 2) {
            let v: Vec<String> = rt
                .suffixes
                .iter()
                .map(|n| {
                    let mut x = name_to_string(n);
                    if !x.is_empty() && r.chance(1, 6) {
                        x.push('.'); // a trailing dot is accepted by the loader
                    }
                    format!("'{}'", x)
                })
                .collect();
            lines.push(format!("domain-suffixes: [{}]", v.join(", ")));
        }
        for i in (1..lines.len()).rev() {
            let j = r.below(i as u64 + 1) as usize;
            lines.swap(i, j);
        }
        for (i, l) in lines.iter().enumerate() {
            s.push_str(if i == 0 { "  - " } else { "    " });
            s.push_str(l);
            s.push('\n');
        }
    }
    s
}

fn put_name(t: &mut Toks, n: &Name) {
    t.n(n.len() as u64);
    for l in n {
        t.bytes(l);
    }
}
fn put_table(t: &mut Toks, tb: &Table) {
    t.n(tb.len() as u64);
    for r in tb {
        t.n(r.forward as u64);
        t.n(r.servers.len() as u64);
        for &s in &r.servers {
            t.n(s);
        }
        t.n(r.suffixes.len() as u64);
        for s in &r.suffixes {
            put_name(t, s);
        }
    }
}

struct Cur<'a>(&'a [u64], usize);
impl<'a> Cur<'a> {
    fn n(&mut self) -> Option<u64> {
        let v = self.0.get(self.1).copied();
        self.1 += 1;
        v
    }
    fn name(&mut self) -> Option<Name> {
        let k = self.n()?;
        let mut v = vec![];
        for _ in 0..k {
            let l = self.n()? as usize;
            let mut b = vec![];
            for _ in 0..l {
                b.push(self.n()? as u8);
            }
            v.push(b);
        }
        Some(v)
    }
    fn table(&mut self) -> Option<Table> {
        let k = self.n()?;
        let mut t = vec![];
        for _ in 0..k {
            let forward = self.n()? != 0;
            let ns = self.n()?;
            let mut servers = vec![];
            for _ in 0..ns {
                servers.push(self.n()?);
            }
            let nsuf = self.n()?;
            let mut suffixes = vec![];
            for _ in 0..nsuf {
                suffixes.push(self.name()?);
            }
            t.push(Route { forward, servers, suffixes });
        }
        Some(t)
    }
}

fn mk_msg(q: &Name, rd: bool, qid: u16) -> dns::DnsMessage {
    use erbium_net::addr::WithPort as _;
    let qdomain: dnspkt::Domain =
        q.iter().map(|l| dnspkt::Label::from(l.clone())).collect::<Vec<_>>().into();
    let in_query = dnspkt::DNSPkt {
        qid,
        rd,
        tc: false,
        aa: false,
        qr: false,
        opcode: dnspkt::OPCODE_QUERY,
        cd: false,
        ad: false,
        ra: false,
        rcode: dnspkt::NOERROR,
        bufsize: 4096,
        edns_ver: None,
        edns_do: false,
        question: dnspkt::Question { qdomain, qclass: dnspkt::CLASS_IN, qtype: dnspkt::RR_A },
        answer: vec![],
        nameserver: vec![],
        additional: vec![],
        edns: None,
    };
    dns::DnsMessage {
        in_query,
        in_size: 64,
        local_ip: std::net::IpAddr::V4(std::net::Ipv4Addr::new(127, 0, 0, 1)),
        remote_addr: std::net::Ipv4Addr::new(127, 0, 0, 1).with_port(5353),
        protocol: dns::Protocol::Udp,
    }
}

/// the loaded table, or the result code for "did not load"
async fn load(yaml: &str, ups: &Upstreams) -> Result<(erbium::config::SharedConfig, Table), u64> {
    let conf = match catch(|| erbium::config::verif_load_config_from_string(yaml)) {
        Some(Ok(c)) => c,
        _ => return Err(6),
    };
    let dump = hk::routes_dump(&conf).await;
    let table: Table = dump
        .iter()
        .map(|(sufs, dest)| Route {
            forward: dest.is_some(),
            servers: dest
                .as_ref()
                .map(|v| {
                    v.iter()
                        .map(|a| match a.ip() {
                            std::net::IpAddr::V4(v4) => (v4.octets()[3] as u64).wrapping_sub(1),
                            _ => 999,
                        })
                        .collect()
                })
                .unwrap_or_default(),
            suffixes: sufs.clone(),
        })
        .collect();
    let ports = ups.ports.clone();
    hk::routes_retarget(&conf, &move |_i, a: std::net::SocketAddr| match a.ip() {
        std::net::IpAddr::V4(v4) => {
            let k = (v4.octets()[3] as usize).wrapping_sub(1);
            std::net::SocketAddr::new(
                std::net::IpAddr::V4(std::net::Ipv4Addr::new(127, 0, 0, 1)),
                ports.get(k).copied().unwrap_or(9),
            )
        }
        _ => a,
    })
    .await;
    Ok((conf, table))
}

/// result code, rcode the client would see (65535: none), servers hit
async fn run_query(router: &Arc<hk::Router>, ups: &Upstreams, q: &Name, rd: bool, qid: u16) -> (u64, u64, Vec<u64>) {
    let before: Vec<u64> = ups.hits.iter().map(|h| h.load(Ordering::SeqCst)).collect();
    let msg = mk_msg(q, rd, qid);
    let r2 = router.clone();
    let out = tokio::spawn(async move { r2.handle_query(&msg).await }).await;
    let (res, err) = match out {
        Err(_) => (5, None),
        Ok(Ok(_)) => (0, None),
        Ok(Err(e)) => (
            match e {
                dns::Error::Blocked => 1,
                dns::Error::NoRouteConfigured => 2,
                dns::Error::NotAuthoritative => 3,
                _ => 4,
            },
            Some(e),
        ),
    };
    // what the listener makes of the error: the rcode in the reply to the client
    let rc = match err {
        Some(e) => {
            let msg = mk_msg(q, rd, qid);
            match tokio::spawn(async move { hk::create_in_error(&msg, e).await }).await {
                Ok(p) => p.rcode.0 as u64,
                Err(_) => 65534,
            }
        }
        None => 65535,
    };
    let hits = ups
        .hits
        .iter()
        .enumerate()
        .filter(|(i, h)| h.load(Ordering::SeqCst) > before[*i])
        .map(|(i, _)| i as u64)
        .collect();
    (res, rc, hits)
}

fn case_line(table: &Table, q: &Name, rd: bool, res: u64, rc: u64, hits: &[u64]) -> Toks {
    let mut t = Toks::new();
    t.n(1);
    put_table(&mut t, table);
    put_name(&mut t, q);
    t.b(rd);
    t.n(res).n(rc).n(hits.len() as u64);
    for &h in hits {
        t.n(h);
    }
    t
}

// ---- generator ----------------------------------------------------------
const LABELS: &[&str] = &[
    "com", "net", "example", "a", "b", "x-y", "ab@", "z[", "q`", "w{", "AZ", "az09", "Corp", "lan", "_tcp",
    "a@z", "m[n]",
];

fn rand_label(r: &mut Rng) -> Vec<u8> {
    r.pick(LABELS).as_bytes().to_vec()
}
fn recase(l: &[u8], r: &mut Rng) -> Vec<u8> {
    l.iter()
        .map(|&b| if b.is_ascii_alphabetic() && r.chance(1, 2) { b ^ 0x20 } else { b })
        .collect()
}
fn recase_name(n: &Name, r: &mut Rng) -> Name {
    n.iter().map(|l| recase(l, r)).collect()
}
/// flips bit 5 of a byte that is NOT a letter (`@`<->`` ` ``, `[`<->`{`, `0`<->`P`-like changes):
/// such names must not match
fn near_miss(n: &Name, r: &mut Rng) -> Name {
    let mut n = n.clone();
    if n.is_empty() {
        return vec![rand_label(r)];
    }
    let i = r.below(n.len() as u64) as usize;
    match r.below(4) {
        0 => {
            // a non-letter with bit 5 flipped
            let l = &mut n[i];
            if let Some(p) = l.iter().position(|b| !b.is_ascii_alphabetic()) {
                l[p] ^= 0x20;
            } else {
                l.insert(0, b'n');
            }
        }
        1 => n[i].insert(0, b'x'), // "xexample" ends with the octets of "example" but is another label
        2 => {
            n[i].push(b'0');
        }
        _ => {
            n.remove(i);
        }
    }
    n
}

fn shuffle<T>(v: &mut [T], r: &mut Rng) {
    for i in (1..v.len()).rev() {
        let j = r.below(i as u64 + 1) as usize;
        v.swap(i, j);
    }
}

fn gen_table(r: &mut Rng, stats: &mut Stats) -> Table {
    let nroutes = r.range(1, 6) as usize;
    let mut table: Table = (0..nroutes)
        .map(|_| {
            let forward = r.chance(3, 5);
            Route { forward, servers: if forward || r.chance(1, 4) { vec![r.below(NSRV as u64)] } else { vec![] }, suffixes: vec![] }
        })
        .collect();
    // a spine of nested names, their siblings, and a few unrelated ones
    let depth = r.range(1, 4) as usize;
    let spine: Name = (0..depth).map(|_| rand_label(r)).collect();
    let mut cands: Vec<Name> = vec![];
    for k in 0..=depth {
        if r.chance(3, 4) {
            cands.push(spine[k..].to_vec());
        }
        if k < depth && r.chance(1, 3) {
            let mut sib = spine[k..].to_vec();
            sib[0] = rand_label(r);
            cands.push(sib);
        }
    }
    for _ in 0..r.below(3) {
        let d = r.range(1, 3) as usize;
        cands.push((0..d).map(|_| rand_label(r)).collect());
    }
    // distinct up to case
    let mut seen: Vec<Name> = vec![];
    cands.retain(|c| {
        let low: Name = c.iter().map(|l| l.to_ascii_lowercase()).collect();
        if seen.contains(&low) {
            false
        } else {
            seen.push(low);
            true
        }
    });
    shuffle(&mut cands, r);
    for c in &cands {
        let i = r.below(nroutes as u64) as usize;
        if table[i].suffixes.len() < 4 {
            table[i].suffixes.push(recase_name(c, r));
        }
    }
    if r.chance(1, 8) && !cands.is_empty() {
        // the same suffix (in another case) listed twice: not functional if the actions differ
        let c = r.pick(&cands).clone();
        let i = r.below(nroutes as u64) as usize;
        if table[i].suffixes.len() < 4 {
            table[i].suffixes.push(recase_name(&c, r));
            stats.bump("table.duplicate_suffix");
        }
    }
    stats.bump(&format!("table.routes{}", nroutes));
    table
}

fn gen_queries(table: &Table, r: &mut Rng, k: usize, stats: &mut Stats) -> Vec<(Name, bool)> {
    let all: Vec<Name> = table.iter().flat_map(|rt| rt.suffixes.iter().cloned()).collect();
    let mut out = vec![];
    for _ in 0..k {
        let rd = r.chance(2, 3);
        let q = match r.below(8) {
            0 | 1 | 2 | 3 if !all.is_empty() => {
                stats.bump("query.under_suffix");
                let mut n = r.pick(&all).clone();
                for _ in 0..r.below(3) {
                    n.insert(0, rand_label(r));
                }
                n
            }
            4 | 5 if !all.is_empty() => {
                stats.bump("query.near_miss");
                let mut n = near_miss(r.pick(&all), r);
                for _ in 0..r.below(2) {
                    n.insert(0, rand_label(r));
                }
                n
            }
            6 => {
                stats.bump("query.root");
                vec![]
            }
            _ => {
                stats.bump("query.random");
                (0..r.below(4)).map(|_| rand_label(r)).collect()
            }
        };
        out.push((recase_name(&q, r), rd));
    }
    out
}

fn variant_route(rt: &Route, r: &mut Rng) -> Route {
    let mut s: Vec<Name> = rt.suffixes.iter().map(|n| recase_name(n, r)).collect();
    shuffle(&mut s, r);
    Route { forward: rt.forward, servers: rt.servers.clone(), suffixes: s }
}
fn variant(t: &Table, r: &mut Rng) -> Table {
    let mut v: Table = t.iter().map(|rt| variant_route(rt, r)).collect();
    shuffle(&mut v, r);
    v
}

fn permutations(n: usize) -> Vec<Vec<usize>> {
    if n == 0 {
        return vec![vec![]];
    }
    let mut out = vec![];
    for p in permutations(n - 1) {
        for i in 0..n {
            let mut q = p.clone();
            q.insert(i, n - 1);
            out.push(q);
        }
    }
    out
}

async fn run_table(
    intent: &Table,
    queries: &[(Name, bool)],
    ups: &Upstreams,
    r: &mut Rng,
    out: &mut dyn Write,
    count: &mut u64,
    qid: &mut u16,
) {
    let yaml = render(intent, r);
    match load(&yaml, ups).await {
        Err(code) => {
            for (q, rd) in queries {
                writeln!(out, "{}", case_line(intent, q, *rd, code, 65535, &[]).0).unwrap();
                *count += 1;
            }
        }
        Ok((conf, loaded)) => {
            // a forge-nxdomain route has no servers, whatever its dns-servers line says
            let written: Table = intent
                .iter()
                .map(|rt| Route { forward: rt.forward, servers: if rt.forward { rt.servers.clone() } else { vec![] }, suffixes: rt.suffixes.clone() })
                .collect();
            let same = loaded == written;
            let router = Arc::new(hk::Router::new(conf).await);
            for (q, rd) in queries {
                *qid = qid.wrapping_add(1);
                let (res, rc, hits) = run_query(&router, ups, q, *rd, *qid).await;
                let res = if same { res } else { 7 };
                writeln!(out, "{}", case_line(&loaded, q, *rd, res, rc, &hits).0).unwrap();
                *count += 1;
            }
        }
    }
}

fn main() {
    harness_main("C15", run);
}

pub fn run(args: &Args, out: &mut dyn Write) -> Stats {
    let rt = tokio::runtime::Builder::new_current_thread().enable_all().build().unwrap();
    rt.block_on(run_async(args, out))
}

async fn run_async(args: &Args, out: &mut dyn Write) -> Stats {
    let mut stats = Stats::default();
    let ups = start_upstreams().await;
    let mut r = Rng::new(args.seed);
    let mut count = 0u64;
    let mut qid = 0u16;
    if let Some(path) = &args.replay {
        for line in std::fs::read_to_string(path).expect("replay file").lines() {
            if line.starts_with('#') || line.trim().is_empty() {
                continue;
            }
            let toks = parse_tokens(line);
            let mut c = Cur(&toks, 0);
            let parsed = (|| {
                if c.n()? != 1 {
                    return None;
                }
                let t = c.table()?;
                let q = c.name()?;
                let rd = c.n()? != 0;
                Some((t, q, rd))
            })();
            match parsed {
                Some((t, q, rd)) => run_table(&t, &[(q, rd)], &ups, &mut r, out, &mut count, &mut qid).await,
                None => writeln!(out, "#unreadable {}", line).unwrap(),
            }
            stats.bump("replayed");
        }
        return stats;
    }
    let thorough = args.tier == "thorough";
    while count < args.n {
        let base = gen_table(&mut r, &mut stats);
        let queries = gen_queries(&base, &mut r, 6, &mut stats);
        // the table as generated, then rearrangements of it with the same queries in another case
        let mut variants: Vec<Table> = vec![base.clone()];
        if base.len() <= 3 && (thorough || r.chance(1, 3)) {
            stats.bump("table.all_permutations");
            for p in permutations(base.len()) {
                let w: Table = p.iter().map(|&i| variant_route(&base[i], &mut r)).collect();
                variants.push(w);
            }
        } else {
            for _ in 0..2 {
                variants.push(variant(&base, &mut r));
            }
        }
        for v in &variants {
            let qs: Vec<(Name, bool)> = queries.iter().map(|(q, rd)| (recase_name(q, &mut r), *rd)).collect();
            run_table(v, &qs, &ups, &mut r, out, &mut count, &mut qid).await;
            stats.bump("tables_loaded");
        }
    }
    stats
}

//! C17: router advertisements carry the configured values in RFC format.
//! Case line (see coq/Model/EntryC17.v):
//!   kind top intf env impl
//!   kind 1: the interface configuration is built directly (radv::verif hook)
//!   kind 2: the same configuration is rendered as YAML and loaded through
//!           config::verif_load_config_from_string; MTU / lifetime are resolved as
//!           RaAdvService::build_announcement does (mirrored here: that function needs netlink)
//!   impl = 0 len octets | 2 (panic) | 3 (loader rejected, kind 2 only)
#[path = "../util.rs"]
mod util;
use erbium::config::ConfigValue as CV;
use erbium::radv::icmppkt;
use erbium::radv::verif as hk;
use std::fmt::Write as _;
use std::io::Write;
use std::net::{IpAddr, Ipv4Addr, Ipv6Addr};
use std::time::Duration;
use util::*;

#[derive(Clone, Debug)]
enum Tri<T> {
    Absent,
    Null,
    Val(T),
}
#[derive(Clone, Copy, Debug, PartialEq)]
struct D {
    secs: u64,
    nanos: u32,
}
impl D {
    fn s(secs: u64) -> D {
        D { secs, nanos: 0 }
    }
    fn dur(&self) -> Duration {
        Duration::new(self.secs, self.nanos)
    }
}
#[derive(Clone, Debug)]
struct APrefix {
    addr: [u8; 16],
    len: u8,
    onlink: bool,
    auto_: bool,
    valid: D,
    preferred: D,
}
#[derive(Clone, Debug)]
struct APref64 {
    lifetime: D,
    prefix: [u8; 16],
    len: u8,
}
#[derive(Clone, Debug)]
struct ACfg {
    dns_servers: Vec<IpAddr>,
    dns_search: Vec<String>,
    captive: Option<String>,
    hop: u8,
    m: bool,
    o: bool,
    lifetime: Tri<D>,
    reachable: D,
    retrans: D,
    prefixes: Vec<APrefix>,
    rdnss_lt: Tri<D>,
    rdnss: Tri<Vec<[u8; 16]>>,
    dnssl_lt: Tri<D>,
    dnssl: Tri<Vec<String>>,
    cp: Tri<String>,
    pref64: Option<APref64>,
    ll: Option<[u8; 6]>,
    mtu: Option<u32>,
    self6: [u8; 16],
    env_lifetime: D,
}

// ---------------------------------------------------------------- tokens
fn put_d(t: &mut Toks, d: &D) {
    t.n(d.secs >> 32).n(d.secs & 0xffff_ffff).n(d.nanos as u64);
}
fn put_tri<T>(t: &mut Toks, v: &Tri<T>, f: impl Fn(&mut Toks, &T)) {
    match v {
        Tri::Absent => {
            t.n(0);
        }
        Tri::Null => {
            t.n(1);
        }
        Tri::Val(x) => {
            t.n(2);
            f(t, x);
        }
    }
}
fn put_cfg(t: &mut Toks, c: &ACfg) {
    t.n(c.dns_servers.len() as u64);
    for s in &c.dns_servers {
        match s {
            IpAddr::V4(a) => {
                t.n(4).raw(&a.octets());
            }
            IpAddr::V6(a) => {
                t.n(6).raw(&a.octets());
            }
        }
    }
    t.n(c.dns_search.len() as u64);
    for s in &c.dns_search {
        t.bytes(s.as_bytes());
    }
    match &c.captive {
        None => {
            t.n(0);
        }
        Some(u) => {
            t.n(1).bytes(u.as_bytes());
        }
    }
    t.n(c.hop as u64).b(c.m).b(c.o);
    put_tri(t, &c.lifetime, put_d);
    put_d(t, &c.reachable);
    put_d(t, &c.retrans);
    t.n(c.prefixes.len() as u64);
    for p in &c.prefixes {
        t.raw(&p.addr).n(p.len as u64).b(p.onlink).b(p.auto_);
        put_d(t, &p.valid);
        put_d(t, &p.preferred);
    }
    put_tri(t, &c.rdnss_lt, put_d);
    put_tri(t, &c.rdnss, |t, v| {
        t.n(v.len() as u64);
        for a in v {
            t.raw(a);
        }
    });
    put_tri(t, &c.dnssl_lt, put_d);
    put_tri(t, &c.dnssl, |t, v| {
        t.n(v.len() as u64);
        for s in v {
            t.bytes(s.as_bytes());
        }
    });
    put_tri(t, &c.cp, |t, s| {
        t.bytes(s.as_bytes());
    });
    match &c.pref64 {
        None => {
            t.n(0);
        }
        Some(p) => {
            t.n(1);
            put_d(t, &p.lifetime);
            t.raw(&p.prefix).n(p.len as u64);
        }
    }
    match &c.ll {
        None => {
            t.n(0);
        }
        Some(a) => {
            t.n(1).raw(a);
        }
    }
    match &c.mtu {
        None => {
            t.n(0);
        }
        Some(m) => {
            t.n(1).n(*m as u64);
        }
    }
    t.raw(&c.self6);
    put_d(t, &c.env_lifetime);
}

struct Cur<'a>(&'a [u64], usize);
impl<'a> Cur<'a> {
    fn n(&mut self) -> Option<u64> {
        let v = self.0.get(self.1).copied();
        self.1 += 1;
        v
    }
    fn take(&mut self, k: usize) -> Option<Vec<u8>> {
        if self.1 + k > self.0.len() {
            return None;
        }
        let v = self.0[self.1..self.1 + k].iter().map(|&x| x as u8).collect();
        self.1 += k;
        Some(v)
    }
    fn arr<const K: usize>(&mut self) -> Option<[u8; K]> {
        self.take(K)?.try_into().ok()
    }
    fn string(&mut self) -> Option<String> {
        let k = self.n()? as usize;
        String::from_utf8(self.take(k)?).ok()
    }
    fn d(&mut self) -> Option<D> {
        let hi = self.n()?;
        let lo = self.n()?;
        let ns = self.n()?;
        Some(D { secs: (hi << 32) | lo, nanos: ns as u32 })
    }
    fn tri<T>(&mut self, f: impl Fn(&mut Self) -> Option<T>) -> Option<Tri<T>> {
        match self.n()? {
            0 => Some(Tri::Absent),
            1 => Some(Tri::Null),
            2 => Some(Tri::Val(f(self)?)),
            _ => None,
        }
    }
    fn opt<T>(&mut self, f: impl Fn(&mut Self) -> Option<T>) -> Option<Option<T>> {
        match self.n()? {
            0 => Some(None),
            1 => Some(Some(f(self)?)),
            _ => None,
        }
    }
    fn list<T>(&mut self, f: impl Fn(&mut Self) -> Option<T>) -> Option<Vec<T>> {
        let k = self.n()?;
        let mut v = vec![];
        for _ in 0..k {
            v.push(f(self)?);
        }
        Some(v)
    }
}
fn get_cfg(c: &mut Cur) -> Option<ACfg> {
    let dns_servers = c.list(|c| match c.n()? {
        4 => Some(IpAddr::V4(Ipv4Addr::from(c.arr::<4>()?))),
        6 => Some(IpAddr::V6(Ipv6Addr::from(c.arr::<16>()?))),
        _ => None,
    })?;
    let dns_search = c.list(|c| c.string())?;
    let captive = c.opt(|c| c.string())?;
    let hop = c.n()? as u8;
    let m = c.n()? != 0;
    let o = c.n()? != 0;
    let lifetime = c.tri(|c| c.d())?;
    let reachable = c.d()?;
    let retrans = c.d()?;
    let prefixes = c.list(|c| {
        Some(APrefix {
            addr: c.arr::<16>()?,
            len: c.n()? as u8,
            onlink: c.n()? != 0,
            auto_: c.n()? != 0,
            valid: c.d()?,
            preferred: c.d()?,
        })
    })?;
    let rdnss_lt = c.tri(|c| c.d())?;
    let rdnss = c.tri(|c| c.list(|c| c.arr::<16>()))?;
    let dnssl_lt = c.tri(|c| c.d())?;
    let dnssl = c.tri(|c| c.list(|c| c.string()))?;
    let cp = c.tri(|c| c.string())?;
    let pref64 = c.opt(|c| Some(APref64 { lifetime: c.d()?, prefix: c.arr::<16>()?, len: c.n()? as u8 }))?;
    let ll = c.opt(|c| c.arr::<6>())?;
    let mtu = c.opt(|c| Some(c.n()? as u32))?;
    let self6 = c.arr::<16>()?;
    let env_lifetime = c.d()?;
    Some(ACfg {
        dns_servers, dns_search, captive, hop, m, o, lifetime, reachable, retrans, prefixes, rdnss_lt, rdnss,
        dnssl_lt, dnssl, cp, pref64, ll, mtu, self6, env_lifetime,
    })
}

// ---------------------------------------------------------------- running the implementation
fn cv<T: Clone, U: Clone>(t: &Tri<T>, f: impl Fn(&T) -> U) -> CV<U> {
    match t {
        Tri::Absent => CV::NotSpecified,
        Tri::Null => CV::DontSet,
        Tri::Val(x) => CV::Value(f(x)),
    }
}
fn to_intf(c: &ACfg) -> hk::Interface {
    hk::Interface {
        name: "eth0".into(),
        hoplimit: c.hop,
        managed: c.m,
        other: c.o,
        max_rtr_adv_interval: CV::NotSpecified,
        min_rtr_adv_interval: CV::NotSpecified,
        lifetime: cv(&c.lifetime, |d| d.dur()),
        reachable: c.reachable.dur(),
        retrans: c.retrans.dur(),
        mtu: match c.mtu {
            Some(m) => CV::Value(m),
            None => CV::DontSet,
        },
        prefixes: c
            .prefixes
            .iter()
            .map(|p| hk::Prefix {
                addr: p.addr.into(),
                prefixlen: p.len,
                onlink: p.onlink,
                autonomous: p.auto_,
                valid: p.valid.dur(),
                preferred: p.preferred.dur(),
            })
            .collect(),
        rdnss_lifetime: cv(&c.rdnss_lt, |d| d.dur()),
        rdnss: cv(&c.rdnss, |v| v.iter().map(|a| Ipv6Addr::from(*a)).collect()),
        dnssl_lifetime: cv(&c.dnssl_lt, |d| d.dur()),
        dnssl: cv(&c.dnssl, |v| v.clone()),
        captive_portal: cv(&c.cp, |s| s.clone()),
        pref64: c.pref64.as_ref().map(|p| hk::Pref64 { lifetime: p.lifetime.dur(), prefix: p.prefix.into(), prefixlen: p.len }),
    }
}

fn run_direct(c: &ACfg) -> Option<Vec<u8>> {
    let conf = erbium::config::Config {
        dns_servers: c.dns_servers.clone(),
        dns_search: c.dns_search.clone(),
        captive_portal: c.captive.clone(),
        ..Default::default()
    };
    let intf = to_intf(c);
    catch(|| {
        let msg = hk::build_announcement_pure(&conf, &intf, c.ll, c.mtu, c.self6.into(), c.env_lifetime.dur());
        icmppkt::serialise(&icmppkt::Icmp6::RtrAdvert(msg))
    })
}

// ---- YAML rendering (kind 2)
fn yq(s: &str) -> String {
    let mut o = String::from("\"");
    for ch in s.chars() {
        match ch {
            '"' => o.push_str("\\\""),
            '\\' => o.push_str("\\\\"),
            c => o.push(c),
        }
    }
    o.push('"');
    o
}
fn ydur(d: &D, style: u64) -> String {
    let s = d.secs;
    match style % 4 {
        0 => format!("{}", s),
        1 => format!("{}s", s),
        2 if s % 86400 == 0 && s > 0 => format!("{}d", s / 86400),
        2 if s % 3600 == 0 && s > 0 => format!("{}h", s / 3600),
        3 if s >= 3600 => format!("{}h {}m {}s", s / 3600, (s % 3600) / 60, s % 60),
        _ => format!("\"{}\"", s),
    }
}
fn yip6(a: &[u8; 16]) -> String {
    if *a == [0u8; 16] {
        "$self6".into()
    } else {
        format!("\"{}\"", Ipv6Addr::from(*a))
    }
}
/// `omit` decides, per field holding its documented default, whether the key is left out.
fn render_yaml(c: &ACfg, style: u64) -> String {
    let mut st = style;
    let mut omit = || {
        st = st.wrapping_mul(6364136223846793005).wrapping_add(1442695040888963407);
        (st >> 33) & 1 == 0
    };
    let mut y = String::from("---\n");
    let servers: Vec<String> = c
        .dns_servers
        .iter()
        .map(|s| match s {
            IpAddr::V4(a) if a.is_unspecified() => "$self4".to_string(),
            IpAddr::V6(a) if a.is_unspecified() => "$self6".to_string(),
            a => format!("\"{}\"", a),
        })
        .collect();
    writeln!(y, "dns-servers: [{}]", servers.join(", ")).unwrap();
    if !(c.dns_search.is_empty() && omit()) {
        writeln!(y, "dns-search: [{}]", c.dns_search.iter().map(|s| yq(s)).collect::<Vec<_>>().join(", ")).unwrap();
    }
    if let Some(u) = &c.captive {
        writeln!(y, "captive-portal: {}", yq(u)).unwrap();
    }
    y.push_str("router-advertisements:\n  eth0:\n");
    let ind = "    ";
    // a key that must always be there so that the interface is a hash
    writeln!(y, "{}managed: {}", ind, c.m).unwrap();
    if !(c.hop == 0 && omit()) {
        writeln!(y, "{}hop-limit: {}", ind, c.hop).unwrap();
    }
    if !(!c.o && omit()) {
        writeln!(y, "{}other: {}", ind, c.o).unwrap();
    }
    match &c.lifetime {
        Tri::Absent => {}
        Tri::Null => writeln!(y, "{}lifetime: null", ind).unwrap(),
        Tri::Val(d) => writeln!(y, "{}lifetime: {}", ind, ydur(d, style >> 3)).unwrap(),
    }
    if !(c.reachable.secs == 0 && omit()) {
        writeln!(y, "{}reachable: {}", ind, ydur(&c.reachable, style >> 5)).unwrap();
    }
    if !(c.retrans.secs == 0 && omit()) {
        writeln!(y, "{}retransmit: {}", ind, ydur(&c.retrans, style >> 7)).unwrap();
    }
    match c.mtu {
        Some(m) => writeln!(y, "{}mtu: {}", ind, m).unwrap(),
        None => writeln!(y, "{}mtu: null", ind).unwrap(),
    }
    if !(c.prefixes.is_empty() && omit()) {
        if c.prefixes.is_empty() {
            writeln!(y, "{}prefixes: []", ind).unwrap();
        } else {
            writeln!(y, "{}prefixes:", ind).unwrap();
        }
        for (k, p) in c.prefixes.iter().enumerate() {
            writeln!(y, "{} - prefix: \"{}/{}\"", ind, Ipv6Addr::from(p.addr), p.len).unwrap();
            if !(p.onlink && omit()) {
                writeln!(y, "{}   on-link: {}", ind, p.onlink).unwrap();
            }
            if !(p.auto_ && omit()) {
                writeln!(y, "{}   autonomous: {}", ind, p.auto_).unwrap();
            }
            if !(p.valid.secs == 2592000 && omit()) {
                writeln!(y, "{}   valid: {}", ind, ydur(&p.valid, style >> (k % 11))).unwrap();
            }
            if !(p.preferred.secs == 604800 && omit()) {
                writeln!(y, "{}   preferred: {}", ind, ydur(&p.preferred, style >> (k % 13 + 1))).unwrap();
            }
        }
    }
    let both_absent = |a: bool, b: bool, o: bool| a && b && o;
    if !both_absent(matches!(c.rdnss, Tri::Absent), matches!(c.rdnss_lt, Tri::Absent), omit()) {
        writeln!(y, "{}dns-servers:", ind).unwrap();
        let mut any = false;
        match &c.rdnss {
            Tri::Absent => {}
            Tri::Null => {
                any = true;
                writeln!(y, "{}  addresses: null", ind).unwrap()
            }
            Tri::Val(v) => {
                any = true;
                writeln!(y, "{}  addresses: [{}]", ind, v.iter().map(yip6).collect::<Vec<_>>().join(", ")).unwrap()
            }
        }
        match &c.rdnss_lt {
            Tri::Absent => {}
            Tri::Null => {
                any = true;
                writeln!(y, "{}  lifetime: null", ind).unwrap()
            }
            Tri::Val(d) => {
                any = true;
                writeln!(y, "{}  lifetime: {}", ind, ydur(d, style >> 9)).unwrap()
            }
        }
        if !any {
            y.truncate(y.len() - 1);
            y.push_str(" {}\n");
        }
    }
    if !both_absent(matches!(c.dnssl, Tri::Absent), matches!(c.dnssl_lt, Tri::Absent), omit()) {
        writeln!(y, "{}dns-search:", ind).unwrap();
        let mut any = false;
        match &c.dnssl {
            Tri::Absent => {}
            Tri::Null => {
                any = true;
                writeln!(y, "{}  domains: null", ind).unwrap()
            }
            Tri::Val(v) => {
                any = true;
                writeln!(y, "{}  domains: [{}]", ind, v.iter().map(|s| yq(s)).collect::<Vec<_>>().join(", ")).unwrap()
            }
        }
        match &c.dnssl_lt {
            Tri::Absent => {}
            Tri::Null => {
                any = true;
                writeln!(y, "{}  lifetime: null", ind).unwrap()
            }
            Tri::Val(d) => {
                any = true;
                writeln!(y, "{}  lifetime: {}", ind, ydur(d, style >> 11)).unwrap()
            }
        }
        if !any {
            y.truncate(y.len() - 1);
            y.push_str(" {}\n");
        }
    }
    match &c.cp {
        Tri::Absent => {}
        Tri::Null => writeln!(y, "{}captive-portal: null", ind).unwrap(),
        Tri::Val(u) => writeln!(y, "{}captive-portal: {}", ind, yq(u)).unwrap(),
    }
    if let Some(p) = &c.pref64 {
        writeln!(y, "{}pref64:", ind).unwrap();
        writeln!(y, "{}  prefix: \"{}/{}\"", ind, Ipv6Addr::from(p.prefix), p.len).unwrap();
        if !(p.lifetime.secs == 600 && omit()) {
            writeln!(y, "{}  lifetime: {}", ind, ydur(&p.lifetime, style >> 13)).unwrap();
        }
    }
    y
}

enum Out {
    Bytes(Vec<u8>),
    Panic,
    Rejected,
}

fn run_yaml(c: &ACfg, style: u64) -> Out {
    let y = render_yaml(c, style);
    let loaded = catch(|| erbium::config::verif_load_config_from_string(&y));
    let shared = match loaded {
        None => return Out::Panic,
        Some(Err(e)) => {
            if std::env::var("VERIF_C17_DEBUG").is_ok() {
                eprintln!("{}\n=> {}", y, e);
            }
            return Out::Rejected;
        }
        Some(Ok(s)) => s,
    };
    let conf = shared.try_read().expect("config lock");
    let intf = match conf.ra.interfaces.iter().find(|i| i.name == "eth0") {
        Some(i) => i,
        None => return Out::Rejected,
    };
    // as RaAdvService::build_announcement resolves them (interface MTU unknown here: None)
    let mtu = match intf.mtu {
        CV::NotSpecified => None,
        CV::Value(v) => Some(v),
        CV::DontSet => None,
    };
    let lifetime = match intf.lifetime {
        CV::NotSpecified => c.env_lifetime.dur(),
        CV::Value(v) => v,
        CV::DontSet => Duration::from_secs(0),
    };
    match catch(|| {
        let msg = hk::build_announcement_pure(&conf, intf, c.ll, mtu, c.self6.into(), lifetime);
        icmppkt::serialise(&icmppkt::Icmp6::RtrAdvert(msg))
    }) {
        Some(b) => Out::Bytes(b),
        None => Out::Panic,
    }
}

/// what can be said in YAML without changing the meaning of the abstract configuration
fn yaml_safe_str(s: &str) -> bool {
    s.bytes().all(|b| (0x20..0x7f).contains(&b))
}
fn sanitise_for_yaml(c: &mut ACfg) {
    let fix = |d: &mut D| {
        d.nanos = 0;
        if d.secs > (1u64 << 32) + 5 {
            d.secs = (1u64 << 32) + (d.secs % 5);
        }
    };
    if let Tri::Val(d) = &mut c.lifetime {
        fix(d)
    }
    if matches!(c.lifetime, Tri::Null) {
        c.env_lifetime = D::s(0);
    }
    fix(&mut c.reachable);
    fix(&mut c.retrans);
    for p in c.prefixes.iter_mut() {
        fix(&mut p.valid);
        fix(&mut p.preferred);
    }
    if let Tri::Val(d) = &mut c.rdnss_lt {
        fix(d)
    }
    if let Tri::Val(d) = &mut c.dnssl_lt {
        fix(d)
    }
    if let Some(p) = &mut c.pref64 {
        fix(&mut p.lifetime)
    }
    let clean = |s: &mut String| {
        if !yaml_safe_str(s) {
            *s = s.bytes().filter(|b| (0x21..0x7f).contains(b)).map(|b| b as char).collect();
        }
    };
    for s in c.dns_search.iter_mut() {
        clean(s)
    }
    if let Some(u) = &mut c.captive {
        clean(u)
    }
    if let Tri::Val(v) = &mut c.dnssl {
        for s in v.iter_mut() {
            clean(s)
        }
    }
    if let Tri::Val(u) = &mut c.cp {
        clean(u)
    }
}

fn case(kind: u64, c: &ACfg, style: u64) -> Toks {
    let mut t = Toks::new();
    t.n(kind);
    put_cfg(&mut t, c);
    let out = if kind == 1 {
        match run_direct(c) {
            Some(b) => Out::Bytes(b),
            None => Out::Panic,
        }
    } else {
        run_yaml(c, style)
    };
    match out {
        Out::Bytes(b) => {
            t.n(0).bytes(&b);
        }
        Out::Panic => {
            t.n(2);
        }
        Out::Rejected => {
            t.n(3);
        }
    }
    t
}

// ---------------------------------------------------------------- generator
const LIFETIMES: [u64; 9] = [0, 1, 8, 9000, 65535, 65536, 86400, 4294967295, 4294967296];

fn gen_secs(r: &mut Rng) -> u64 {
    match r.below(16) {
        0..=8 => *r.pick(&LIFETIMES),
        9 => *r.pick(&[7u64, 9, 600, 1800, 65528, 65529, 65534, 2592000, 604800, 4294967294, 4294967297]),
        10 => r.below(70000),
        11 => r.next() >> r.below(40),
        12 => *r.pick(&[u64::MAX, u64::MAX - 1, 1 << 48, (1 << 33) + 5]),
        _ => r.below(4000),
    }
}
fn gen_d(r: &mut Rng) -> D {
    D { secs: gen_secs(r), nanos: if r.chance(1, 6) { *r.pick(&[1u32, 999_999, 1_000_000, 999_999_999, 500_000_000]) } else { 0 } }
}
fn gen_ms_d(r: &mut Rng) -> D {
    // Reachable Time / Retrans Timer are sent in milliseconds: the boundary is 2^32 ms
    let secs = match r.below(10) {
        0 => 0,
        1 => 30,
        2 => 4294967,
        3 => 4294968,
        4 => 4294966,
        5 => gen_secs(r),
        _ => r.below(3600),
    };
    let nanos = if r.chance(1, 4) { *r.pick(&[295_000_000u32, 296_000_000, 295_999_999, 999_999_999, 1_000_000, 999_999]) } else { 0 };
    D { secs, nanos }
}
fn gen_tri<T>(r: &mut Rng, f: impl Fn(&mut Rng) -> T) -> Tri<T> {
    match r.below(4) {
        0 => Tri::Absent,
        1 => Tri::Null,
        _ => Tri::Val(f(r)),
    }
}
fn gen_addr(r: &mut Rng) -> [u8; 16] {
    let mut a = [0u8; 16];
    match r.below(8) {
        0 => a = [0xff; 16],
        1 => {
            a[0] = 0x20;
            a[1] = 0x01;
            a[2] = 0x0d;
            a[3] = 0xb8;
            a[15] = r.byte();
        }
        2 => {
            a[0] = 0xfd;
            for x in a[1..8].iter_mut() {
                *x = r.byte();
            }
        }
        _ => {
            for x in a.iter_mut() {
                *x = r.byte();
            }
            if a == [0u8; 16] {
                a[0] = 0x20;
            }
        }
    }
    a
}
fn gen_server6(r: &mut Rng) -> [u8; 16] {
    if r.chance(1, 5) {
        [0u8; 16] // $self6
    } else {
        gen_addr(r)
    }
}
fn gen_label(r: &mut Rng, len: usize) -> String {
    const CH: &[u8] = b"abcdefghijklmnopqrstuvwxyz0123456789-";
    (0..len).map(|_| *r.pick(CH) as char).collect()
}
fn gen_domain(r: &mut Rng, stats: &mut Stats) -> String {
    if r.chance(1, 40) {
        stats.bump("domain.illegal");
        return match r.below(6) {
            0 => String::new(),
            1 => "example..com".into(),
            2 => "example.com.".into(),
            3 => gen_label(r, 64),
            4 => format!("{}.org", gen_label(r, 256)),
            _ => {
                let n = 65 + r.below(200) as usize;
                format!("a.{}", gen_label(r, n))
            }
        };
    }
    let nl = r.range(1, 8);
    let mut labels = vec![];
    for _ in 0..nl {
        let len = match r.below(8) {
            0 => 63,
            1 => 1,
            2 => 62,
            _ => r.range(1, 12),
        } as usize;
        labels.push(gen_label(r, len));
    }
    labels.join(".")
}
fn gen_url(r: &mut Rng) -> String {
    let len = match r.below(8) {
        0 => 0,
        1 => 240,
        2 => *r.pick(&[5u64, 6, 7, 13, 14, 15, 237, 238, 239]),
        _ => r.below(241),
    } as usize;
    let mut s = String::from("https://portal.example/");
    s.truncate(len);
    while s.len() < len {
        if r.chance(1, 30) && s.len() + 2 <= len {
            s.push('é');
        } else {
            s.push(r.range(0x21, 0x7e) as u8 as char);
        }
    }
    s
}
fn gen_cfg(r: &mut Rng, stats: &mut Stats) -> ACfg {
    let nserv = *r.pick(&[0u64, 0, 1, 2, 3, 8]);
    let dns_servers = (0..nserv)
        .map(|_| match r.below(5) {
            0 => IpAddr::V4(Ipv4Addr::new(192, 0, 2, r.byte())),
            1 => IpAddr::V4(Ipv4Addr::UNSPECIFIED),
            _ => IpAddr::V6(gen_server6(r).into()),
        })
        .collect();
    let nsearch = *r.pick(&[0u64, 0, 1, 2, 5]);
    let dns_search = (0..nsearch).map(|_| gen_domain(r, stats)).collect();
    let nprefix = match r.below(6) {
        0 => 0,
        1 => 1,
        2 => 16,
        _ => r.below(5),
    };
    let prefixes = (0..nprefix)
        .map(|_| {
            let len = match r.below(12) {
                0..=5 => *r.pick(&[0u8, 1, 7, 8, 9, 48, 56, 63, 64, 65, 120, 127, 128]),
                6 if r.chance(1, 8) => *r.pick(&[129u8, 200, 255]),
                _ => r.below(129) as u8,
            };
            if len > 128 {
                stats.bump("prefix.len>128");
            }
            APrefix {
                addr: gen_addr(r),
                len,
                onlink: !r.chance(1, 3),
                auto_: !r.chance(1, 3),
                valid: if r.chance(1, 4) { D::s(2592000) } else { gen_d(r) },
                preferred: if r.chance(1, 4) { D::s(604800) } else { gen_d(r) },
            }
        })
        .collect();
    let pref64 = if r.chance(1, 2) {
        let len = if r.chance(1, 6) {
            stats.bump("pref64.illegal-len");
            *r.pick(&[0u8, 24, 31, 33, 41, 72, 88, 95, 97, 104, 128, 255])
        } else {
            *r.pick(&[32u8, 40, 48, 56, 64, 96])
        };
        let mut prefix = gen_addr(r);
        if r.chance(1, 2) {
            prefix = [0, 0x64, 0xff, 0x9b, 0, 0, 0, 0, 0, 0, 0, 0, 0, 0, 0, 0];
        }
        Some(APref64 { lifetime: if r.chance(1, 4) { D::s(600) } else { gen_d(r) }, prefix, len })
    } else {
        None
    };
    ACfg {
        dns_servers,
        dns_search,
        captive: if r.chance(1, 3) { Some(gen_url(r)) } else { None },
        hop: {
            let b = r.byte();
            *r.pick(&[0u8, 0, 64, 255, 1, b])
        },
        m: r.chance(1, 2),
        o: r.chance(1, 2),
        lifetime: gen_tri(r, gen_d),
        reachable: if r.chance(1, 3) { D::s(0) } else { gen_ms_d(r) },
        retrans: if r.chance(1, 3) { D::s(0) } else { gen_ms_d(r) },
        prefixes,
        rdnss_lt: gen_tri(r, gen_d),
        rdnss: gen_tri(r, |r| {
            let n = *r.pick(&[0u64, 1, 2, 3, 8]);
            (0..n).map(|_| gen_server6(r)).collect()
        }),
        dnssl_lt: gen_tri(r, gen_d),
        dnssl: {
            let t = match r.below(4) {
                0 => Tri::Absent,
                1 => Tri::Null,
                _ => {
                    let n = *r.pick(&[0u64, 1, 2, 3, 6]);
                    Tri::Val((0..n).map(|_| gen_domain(r, stats)).collect())
                }
            };
            t
        },
        cp: gen_tri(r, gen_url),
        pref64,
        ll: if r.chance(3, 4) { Some([r.byte(), r.byte(), r.byte(), r.byte(), r.byte(), r.byte()]) } else { None },
        mtu: if r.chance(3, 4) { Some(*r.pick(&[0u32, 1280, 1500, 9000, 65535, u32::MAX, 1480])) } else { None },
        self6: {
            let mut a = gen_addr(r);
            a[0] = 0xfd;
            a
        },
        env_lifetime: *r.pick(&[D::s(0), D::s(1800), D::s(65536)]),
    }
}

fn main() {
    harness_main("C17", run);
}

pub fn run(args: &Args, out: &mut dyn Write) -> Stats {
    let mut stats = Stats::default();
    if let Some(path) = &args.replay {
        for line in std::fs::read_to_string(path).expect("replay file").lines() {
            if line.starts_with('#') || line.trim().is_empty() {
                continue;
            }
            let toks = parse_tokens(line);
            let mut c = Cur(&toks, 0);
            let kind = c.n().unwrap_or(0);
            match get_cfg(&mut c) {
                Some(cfg) if kind == 1 || kind == 2 => {
                    // replays of kind 2 try a few renderings of the same configuration
                    writeln!(out, "{}", case(kind, &cfg, 0).0).unwrap();
                    if kind == 2 {
                        for style in [0x5555_5555u64, 0xffff_ffff, 0x1234_5678] {
                            writeln!(out, "{}", case(kind, &cfg, style).0).unwrap();
                        }
                    }
                }
                _ => writeln!(out, "#unreadable {}", line).unwrap(),
            }
            stats.bump("replayed");
        }
        return stats;
    }
    let mut r = Rng::new(args.seed);
    // the documented example first
    for i in 0..args.n {
        let mut cfg = gen_cfg(&mut r, &mut stats);
        let kind = if i % 3 == 2 { 2 } else { 1 };
        if kind == 2 {
            // a URL of about the size the Captive-Portal option can hold (255 * 8 - 2 = 2038 octets) and beyond:
            // what the option cannot carry has to be refused by the loader, not wrapped into the length octet
            if r.chance(1, 12) {
                let len = *r.pick(&[2030u64, 2037, 2038, 2039, 2040, 2046, 2047, 3000, 70000]) as usize;
                let mut u = String::from("https://portal.example/");
                while u.len() < len {
                    u.push(r.range(0x61, 0x7a) as u8 as char);
                }
                if r.chance(1, 2) {
                    cfg.captive = Some(u);
                } else {
                    cfg.cp = Tri::Val(u);
                }
                stats.bump("url.around-2038");
            }
            sanitise_for_yaml(&mut cfg);
            stats.bump("kind.yaml");
        } else {
            // prefixes longer than an address cannot come out of the (repaired) loader:
            // they are only offered to it (kind 2), where it has to refuse them
            for p in cfg.prefixes.iter_mut() {
                if p.len > 128 {
                    p.len %= 129;
                }
            }
            stats.bump("kind.direct");
        }
        let style = r.next();
        writeln!(out, "{}", case(kind, &cfg, style).0).unwrap();
    }
    stats
}

//! C05, ICMPv6 part (stand-alone binary): see ../c05_icmp6.rs.
#[path = "../util.rs"]
mod util;
#[path = "../c05_icmp6.rs"]
mod c05_icmp6;

fn main() {
    util::harness_main("C05Icmp6", c05_icmp6::run)
}

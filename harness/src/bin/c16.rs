//! C16: REFUSED replies are rate-bounded per source; a quiet source still gets
//! one; a server cookie exempts only the client it was issued to.
//! Case lines (see coq/Model/EntryC16.v):
//!   1 cap rate z0 nops {op now n}*          | {res z}*   real GenericTokenBucket, virtual clock
//!   2 cap rate now nops n*                  | res*       real IpRateLimiter, real clock (one second)
//!   3 cap rate now nmsgs {rcode q r <ck>}*  | res*       real should_ratelimit, fresh limiter
//!   4 <ck>                                  | status     real validate_cookie_keys
//!   5 <cur1> <prev1> <cur2> <prev2>         | s0 sff sg  CookieKeys::new() twice; cookies forged under guessable keys
//!   6 cap rate now nops {k v}*              | res*       real IpRateLimiter, time passing by shifting the timestamps
#[path = "../util.rs"]
mod util;
use erbium::dns::{self, dnspkt, verif as hk};
use std::io::Write;
use std::sync::atomic::{AtomicU32, Ordering};
use util::*;

static VNOW: AtomicU32 = AtomicU32::new(0);
struct VClock;
impl hk::Clock for VClock {
    fn now() -> u32 {
        VNOW.load(Ordering::SeqCst)
    }
}

const CAP: u64 = hk::GenericTokenBucket::VERIF_MAX_TOKENS as u64;
const RATE: u64 = hk::GenericTokenBucket::VERIF_TOKENS_PER_SECOND as u64;

// ---- kind 1 ---------------------------------------------------------------
#[derive(Clone)]
struct BucketCase {
    z0: u32,
    ops: Vec<(u64, u32, u32)>,
}

fn case_bucket(c: &BucketCase) -> Toks {
    let mut t = Toks::new();
    t.n(1).n(CAP).n(RATE).n(c.z0 as u64).n(c.ops.len() as u64);
    for &(op, now, n) in &c.ops {
        t.n(op).n(now as u64).n(n as u64);
    }
    let mut b = hk::GenericTokenBucket::verif_with_state(c.z0);
    for &(op, now, n) in &c.ops {
        VNOW.store(now, Ordering::SeqCst);
        let res: u64 = match op {
            0 => match catch(|| b.check::<VClock>(n)) {
                Some(x) => x as u64,
                None => 2,
            },
            1 => match catch(|| {
                // exactly what IpRateLimiter::check does with one bucket
                if b.check::<VClock>(n) {
                    b.deplete::<VClock>(n);
                    true
                } else {
                    false
                }
            }) {
                Some(x) => x as u64,
                None => 2,
            },
            2 => match catch(|| b.deplete::<VClock>(n)) {
                Some(()) => 0,
                None => 2,
            },
            _ => match catch(|| b.refill::<VClock>(n)) {
                Some(()) => 0,
                None => 2,
            },
        };
        t.n(res).n(b.verif_state() as u64);
    }
    t
}

fn gen_bucket(r: &mut Rng, stats: &mut Stats) -> BucketCase {
    let w = (CAP / RATE) as u32;
    let cap = CAP as u32;
    // the arbitrary stream pins the aborts of the debug profile (u32 overflow checks); a release
    // build wraps instead, which the model (of the checked arithmetic) does not describe
    let wild = r.chance(1, 6) && cfg!(debug_assertions);
    let t0: u32 = match r.below(5) {
        0 => w,
        1 => w + r.below(3) as u32,
        2 => 1_700_000_000 + r.below(1000) as u32,
        3 => w + r.below(100_000) as u32,
        _ => r.range(w as u64, 1u64 << 31) as u32,
    };
    let z0: u32 = if wild {
        *r.pick(&[0u32, t0, t0.wrapping_add(5), u32::MAX - 3, u32::MAX, t0.saturating_sub(w)])
    } else {
        match r.below(5) {
            0 => 0,
            1 => t0,
            2 => t0 - r.below(w as u64 + 2).min(t0 as u64) as u32,
            3 => t0.saturating_sub(w),
            _ => t0.saturating_sub(w + 1),
        }
    };
    let nops = r.range(1, 14) as usize;
    let mut now = t0;
    let mut ops = vec![];
    for i in 0..nops {
        if i > 0 {
            let d: u32 = match r.below(12) {
                0 | 1 | 2 => 0,
                3 | 4 => 1,
                5 => w - 1,
                6 => w,
                7 => w + 1,
                8 => r.below(w as u64) as u32,
                9 => w / 2,
                10 => 2,
                _ => r.below(3 * w as u64) as u32,
            };
            now = now.saturating_add(d);
        }
        let n: u32 = match r.below(14) {
            0 => cap,
            1 => cap - 1,
            2 => cap + 1,
            3 => 0,
            4 => 1,
            5 => 2,
            6 => 3,
            7 => 200,
            8 => 199,
            9 => 201,
            10 => cap / 2,
            11 => cap / 2 + 1,
            12 => r.below(2 * cap as u64) as u32,
            _ => r.below(50) as u32,
        };
        let (op, tnow) = if wild {
            (
                r.below(4),
                match r.below(6) {
                    0 => r.below(w as u64) as u32, // below the window: `now - window` underflows
                    1 => now.wrapping_sub(r.below(100) as u32),
                    _ => now,
                },
            )
        } else {
            (if r.chance(1, 5) { 0 } else { 1 }, now)
        };
        let n = if wild && r.chance(1, 10) { u32::MAX - r.below(3) as u32 } else { n };
        ops.push((op, tnow, n));
    }
    stats.bump(if wild { "bucket.wild" } else { "bucket.disciplined" });
    BucketCase { z0, ops }
}

// ---- messages ---------------------------------------------------------------
#[derive(Clone, Default)]
struct Ck {
    present: bool,
    cur: Vec<u8>,
    prev: Vec<u8>,
    ikey: Vec<u8>,
    cp: Vec<u8>,
    ci: Vec<u8>,
    lp: Vec<u8>,
    li: Vec<u8>,
    rp: Vec<u8>,
    ri: Vec<u8>,
    mutation: u64,
}

fn ip_of(b: &[u8]) -> std::net::IpAddr {
    if b.len() == 4 {
        std::net::IpAddr::V4(std::net::Ipv4Addr::new(b[0], b[1], b[2], b[3]))
    } else {
        let a: [u8; 16] = b.try_into().expect("16 octets");
        std::net::IpAddr::V6(a.into())
    }
}

fn mk_msg(local: &[u8], remote: &[u8], in_size: usize, cookie: Option<Vec<u8>>) -> dns::DnsMessage {
    use erbium_net::addr::WithPort as _;
    let qdomain: dnspkt::Domain = vec![dnspkt::Label::from(b"example".to_vec()), dnspkt::Label::from(b"com".to_vec())].into();
    let edns = cookie.map(|data| {
        let mut e = dnspkt::EdnsData::new();
        e.set_opt(dnspkt::EdnsOption { code: dnspkt::EDNS_COOKIE, data });
        e
    });
    let in_query = dnspkt::DNSPkt {
        qid: 7,
        rd: false,
        tc: false,
        aa: false,
        qr: false,
        opcode: dnspkt::OPCODE_QUERY,
        cd: false,
        ad: false,
        ra: false,
        rcode: dnspkt::NOERROR,
        bufsize: 4096,
        edns_ver: edns.as_ref().map(|_| 0),
        edns_do: false,
        question: dnspkt::Question { qdomain, qclass: dnspkt::CLASS_IN, qtype: dnspkt::RR_A },
        answer: vec![],
        nameserver: vec![],
        additional: vec![],
        edns,
    };
    dns::DnsMessage {
        in_query,
        in_size,
        local_ip: ip_of(local),
        remote_addr: ip_of(remote).with_port(4242),
        protocol: dns::Protocol::Udp,
    }
}

/// the message as it arrives, carrying the cookie described by `c`
fn msg_with(c: &Ck, local: &[u8], remote: &[u8], in_size: usize) -> dns::DnsMessage {
    if !c.present {
        return mk_msg(local, remote, in_size, None);
    }
    let issued_to = mk_msg(&c.li, &c.ri, 0, None);
    let mut tag = hk::server_cookie(&issued_to, &c.ci, &c.ikey).to_vec();
    match c.mutation {
        0 => {}
        1 => tag[5] ^= 0x10,
        2 => tag.truncate(16),
        3 => tag.push(0),
        4 => tag.clear(),
        5 => tag[31] ^= 0x01,
        6 => tag.truncate(31),
        _ => tag[0] ^= 0x80,
    }
    let mut data = c.cp.clone();
    data.extend(tag);
    mk_msg(local, remote, in_size, Some(data))
}

fn put_ck(t: &mut Toks, c: &Ck) {
    if !c.present {
        t.n(0);
        return;
    }
    t.n(1);
    t.bytes(&c.cur).bytes(&c.prev).bytes(&c.ikey).bytes(&c.cp).bytes(&c.ci);
    t.bytes(&c.lp).bytes(&c.li).bytes(&c.rp).bytes(&c.ri);
    t.n(c.mutation);
}

fn gen_ip(r: &mut Rng, v6: bool) -> Vec<u8> {
    if v6 {
        let mut a = vec![0x20, 0x01, 0x0d, 0xb8];
        a.extend(r.bytes(12));
        a
    } else {
        vec![192, 0, 2, r.byte()]
    }
}

fn gen_ck(r: &mut Rng, local: &[u8], remote: &[u8], cur: &[u8], prev: &[u8], stats: &mut Stats) -> Ck {
    if r.chance(1, 5) {
        stats.bump("cookie.none");
        return Ck { present: false, ..Default::default() };
    }
    let v6 = local.len() == 16;
    let cp = r.bytes(8);
    let mut c = Ck {
        present: true,
        cur: cur.to_vec(),
        prev: prev.to_vec(),
        ikey: cur.to_vec(),
        cp: cp.clone(),
        ci: cp,
        lp: local.to_vec(),
        li: local.to_vec(),
        rp: remote.to_vec(),
        ri: remote.to_vec(),
        mutation: 0,
    };
    // one deviation (or none) from "issued by this server to this client at these addresses"
    match r.below(12) {
        0 | 1 => stats.bump("cookie.valid_current"),
        2 | 3 => {
            c.ikey = prev.to_vec();
            stats.bump("cookie.valid_previous");
        }
        4 => {
            c.ikey = r.bytes(8);
            stats.bump("cookie.older_key");
        }
        5 => {
            c.ci = r.bytes(8);
            stats.bump("cookie.other_client_cookie");
        }
        6 => {
            // a neighbouring address: one bit of difference
            let mut x = remote.to_vec();
            let i = r.below(x.len() as u64) as usize;
            x[i] ^= 1 << r.below(8);
            c.ri = x;
            stats.bump("cookie.other_client_address");
        }
        7 => {
            let mut x = local.to_vec();
            let i = r.below(x.len() as u64) as usize;
            x[i] ^= 1 << r.below(8);
            c.li = x;
            stats.bump("cookie.other_server_address");
        }
        8 => {
            // client and server address exchanged
            c.li = remote.to_vec();
            c.ri = local.to_vec();
            stats.bump("cookie.addresses_swapped");
        }
        9 => {
            c.ri = gen_ip(r, v6);
            stats.bump("cookie.other_client_address");
        }
        _ => {
            c.mutation = r.range(1, 7);
            if r.chance(1, 2) {
                c.ikey = prev.to_vec();
            }
            stats.bump("cookie.damaged");
        }
    }
    c
}

fn rt() -> tokio::runtime::Runtime {
    tokio::runtime::Builder::new_current_thread().enable_all().build().unwrap()
}

fn real_now() -> u64 {
    std::time::SystemTime::now().duration_since(std::time::UNIX_EPOCH).unwrap().as_secs()
}

// ---- kind 2 -----------------------------------------------------------------
fn case_limiter(ip: &[u8], ns: &[u64]) -> Toks {
    let rt = rt();
    loop {
        let t0 = real_now();
        let lim = hk::Limiter::new();
        let mut res = vec![];
        for &n in ns {
            let r = catch(|| rt.block_on(lim.check(ip_of(ip), n as usize)));
            res.push(match r {
                Some(b) => b as u64,
                None => 2,
            });
        }
        if real_now() != t0 {
            continue; // a second boundary fell inside: run again
        }
        let mut t = Toks::new();
        t.n(2).n(CAP).n(RATE).n(t0).n(ns.len() as u64);
        for &n in ns {
            t.n(n);
        }
        for x in res {
            t.n(x);
        }
        return t;
    }
}

fn gen_cost(r: &mut Rng) -> u64 {
    match r.below(10) {
        0 => CAP,
        1 => CAP - 1,
        2 => CAP + 1,
        3 => 200,
        4 => 1,
        5 => CAP / 2,
        6 => CAP / 2 + 1,
        7 => CAP.saturating_sub(200),
        8 => r.below(CAP + 50),
        _ => r.below(300),
    }
}

// ---- kind 3 -----------------------------------------------------------------
#[derive(Clone)]
struct RlCase {
    local: Vec<u8>,
    remote: Vec<u8>,
    cur: Vec<u8>,
    prev: Vec<u8>,
    msgs: Vec<(u64, u64, u64, Ck)>,
}

fn case_ratelimit(c: &RlCase) -> Toks {
    let rt = rt();
    loop {
        let t0 = real_now();
        let lim = hk::Limiter::new();
        let mut res = vec![];
        let cur: [u8; 8] = c.cur.clone().try_into().unwrap();
        let prev: [u8; 8] = c.prev.clone().try_into().unwrap();
        rt.block_on(hk::set_cookie_keys(cur, prev));
        for (rcode, q, rp, ck) in &c.msgs {
            let msg = msg_with(ck, &c.local, &c.remote, *q as usize);
            let mut reply = mk_msg(&c.local, &c.remote, 0, None).in_query;
            reply.qr = true;
            reply.rcode = dnspkt::RCode(*rcode as u16);
            let bytes = vec![0u8; *rp as usize];
            let r = catch(|| rt.block_on(lim.should_ratelimit(&msg, &reply, &bytes)));
            res.push(match r {
                Some(b) => b as u64,
                None => 2,
            });
        }
        if real_now() != t0 {
            continue;
        }
        let mut t = Toks::new();
        t.n(3).n(CAP).n(RATE).n(t0).n(c.msgs.len() as u64);
        for (rcode, q, rp, ck) in &c.msgs {
            t.n(*rcode).n(*q).n(*rp);
            put_ck(&mut t, ck);
        }
        for x in res {
            t.n(x);
        }
        return t;
    }
}

fn gen_ratelimit(r: &mut Rng, stats: &mut Stats) -> RlCase {
    let v6 = r.chance(1, 3);
    let local = gen_ip(r, v6);
    let remote = gen_ip(r, v6);
    let cur = r.bytes(8);
    let prev = r.bytes(8);
    let n = r.range(1, 10) as usize;
    let mut msgs = vec![];
    for _ in 0..n {
        let rcode = if r.chance(5, 6) { 5 } else { *r.pick(&[0u64, 2, 3]) };
        let q = match r.below(5) {
            0 => 17,
            1 => r.range(12, 80),
            2 => r.range(80, 300),
            3 => 512,
            _ => r.range(12, 600),
        };
        let rp = match r.below(7) {
            0 => q,
            1 => q + r.below(120),
            2 => 100,
            3 => 200,
            4 => (q + CAP) / 2,       // cost = CAP exactly (when q + CAP is even)
            5 => (q + CAP) / 2 + 1,   // just above
            _ => r.range(12, 700),
        };
        let ck = if r.chance(1, 2) {
            Ck { present: false, ..Default::default() }
        } else {
            gen_ck(r, &local, &remote, &cur, &prev, stats)
        };
        msgs.push((rcode, q, rp, ck));
    }
    stats.bump("ratelimit.sequences");
    RlCase { local, remote, cur, prev, msgs }
}

// ---- kind 4 -----------------------------------------------------------------
fn case_cookie(c: &Ck, local: &[u8], remote: &[u8]) -> Toks {
    let mut t = Toks::new();
    t.n(4);
    // a cookie-less case still needs addresses to build the message: they are not part of the line
    put_ck(&mut t, c);
    let (l, r) = if c.present { (c.lp.clone(), c.rp.clone()) } else { (local.to_vec(), remote.to_vec()) };
    let msg = msg_with(c, &l, &r, 40);
    let (cur, prev) = if c.present { (c.cur.clone(), c.prev.clone()) } else { (vec![1; 8], vec![2; 8]) };
    let st = match catch(|| hk::validate_cookie_keys(&msg, &cur, &prev)) {
        Some(s) => s as u64,
        None => 3,
    };
    t.n(st);
    t
}


// ---- kind 5: the keys of a fresh service -----------------------------------------
fn case_fresh_keys(local: &[u8], remote: &[u8], client: &[u8]) -> Toks {
    let (c1, p1) = hk::fresh_cookie_keys();
    let (c2, p2) = hk::fresh_cookie_keys();
    let mut t = Toks::new();
    t.n(5).bytes(&c1).bytes(&p1).bytes(&c2).bytes(&p2);
    // a cookie forged under a key anybody can guess, presented to instance 1
    for forged in [[0u8; 8], [0xffu8; 8], [1, 2, 3, 4, 5, 6, 7, 8]] {
        let ck = Ck {
            present: true,
            cur: c1.to_vec(),
            prev: p1.to_vec(),
            ikey: forged.to_vec(),
            cp: client.to_vec(),
            ci: client.to_vec(),
            lp: local.to_vec(),
            li: local.to_vec(),
            rp: remote.to_vec(),
            ri: remote.to_vec(),
            mutation: 0,
        };
        let msg = msg_with(&ck, local, remote, 40);
        t.n(match catch(|| hk::validate_cookie_keys(&msg, &c1, &p1)) {
            Some(s) => s as u64,
            None => 3,
        });
    }
    t
}

// ---- kind 6: the limiter with time passing ---------------------------------------------
fn case_shifted(ip: &[u8], ops: &[(u64, u64)]) -> Toks {
    let rt = rt();
    loop {
        let t0 = real_now();
        let lim = hk::Limiter::new();
        let mut res = vec![];
        for &(k, v) in ops {
            if k == 0 {
                res.push(match catch(|| rt.block_on(lim.check(ip_of(ip), v as usize))) {
                    Some(b) => b as u64,
                    None => 2,
                });
            } else {
                rt.block_on(lim.shift_time(v as u32));
                res.push(0);
            }
        }
        if real_now() != t0 {
            continue;
        }
        let mut t = Toks::new();
        t.n(6).n(CAP).n(RATE).n(t0).n(ops.len() as u64);
        for &(k, v) in ops {
            t.n(k).n(v);
        }
        for x in res {
            t.n(x);
        }
        return t;
    }
}

fn gen_shifted(r: &mut Rng, stats: &mut Stats) -> Vec<(u64, u64)> {
    let w = CAP / RATE;
    let mut ops = vec![];
    if r.chance(1, 2) {
        // drain both buckets, flood with requests that are turned away, stay quiet for the refill
        // period, then ask for something that fits: it must be granted
        let n = *r.pick(&[200u64, 250, CAP / 2, CAP]);
        for _ in 0..(2 * CAP / n + 1) {
            ops.push((0, n));
        }
        for _ in 0..r.range(1, 12) {
            ops.push((0, *r.pick(&[200u64, CAP, CAP + 1, 4000])));
        }
        ops.push((1, *r.pick(&[w, w, w + 1, 2 * w])));
        ops.push((0, *r.pick(&[200u64, 1, CAP, CAP - 1])));
        stats.bump("shifted.flood_then_quiet");
    } else {
        for _ in 0..r.range(2, 14) {
            if r.chance(1, 3) {
                ops.push((1, *r.pick(&[1u64, w - 1, w, w + 1, w / 2, 100, 99, 101])));
            } else {
                ops.push((0, gen_cost(r)));
            }
        }
        stats.bump("shifted.random");
    }
    ops
}

// ---- replay -------------------------------------------------------------------
struct Cur<'a>(&'a [u64], usize);
impl<'a> Cur<'a> {
    fn n(&mut self) -> Option<u64> {
        let v = self.0.get(self.1).copied();
        self.1 += 1;
        v
    }
    fn bytes(&mut self) -> Option<Vec<u8>> {
        let k = self.n()? as usize;
        let mut v = vec![];
        for _ in 0..k {
            v.push(self.n()? as u8);
        }
        Some(v)
    }
    fn ck(&mut self) -> Option<Ck> {
        if self.n()? == 0 {
            return Some(Ck { present: false, ..Default::default() });
        }
        Some(Ck {
            present: true,
            cur: self.bytes()?,
            prev: self.bytes()?,
            ikey: self.bytes()?,
            cp: self.bytes()?,
            ci: self.bytes()?,
            lp: self.bytes()?,
            li: self.bytes()?,
            rp: self.bytes()?,
            ri: self.bytes()?,
            mutation: self.n()?,
        })
    }
}

fn replay_line(toks: &[u64]) -> Option<Toks> {
    let mut c = Cur(toks, 0);
    match c.n()? {
        1 => {
            let (_cap, _rate, z0, nops) = (c.n()?, c.n()?, c.n()?, c.n()?);
            let mut ops = vec![];
            for _ in 0..nops {
                ops.push((c.n()?, c.n()? as u32, c.n()? as u32));
            }
            Some(case_bucket(&BucketCase { z0: z0 as u32, ops }))
        }
        2 => {
            let (_cap, _rate, _now, nops) = (c.n()?, c.n()?, c.n()?, c.n()?);
            let mut ns = vec![];
            for _ in 0..nops {
                ns.push(c.n()?);
            }
            Some(case_limiter(&[192, 0, 2, 77], &ns))
        }
        3 => {
            let (_cap, _rate, _now, nmsgs) = (c.n()?, c.n()?, c.n()?, c.n()?);
            let mut msgs = vec![];
            for _ in 0..nmsgs {
                let (rcode, q, rp) = (c.n()?, c.n()?, c.n()?);
                msgs.push((rcode, q, rp, c.ck()?));
            }
            // addresses and keys are those of the first cookie in the line, if any
            let first = msgs.iter().map(|m| &m.3).find(|k| k.present).cloned();
            let (local, remote, cur, prev) = match first {
                Some(k) => (k.lp, k.rp, k.cur, k.prev),
                None => (vec![192, 0, 2, 1], vec![192, 0, 2, 9], vec![1; 8], vec![2; 8]),
            };
            Some(case_ratelimit(&RlCase { local, remote, cur, prev, msgs }))
        }
        4 => {
            let k = c.ck()?;
            Some(case_cookie(&k, &[192, 0, 2, 1], &[192, 0, 2, 9]))
        }
        5 => Some(case_fresh_keys(&[192, 0, 2, 1], &[192, 0, 2, 9], &[9, 8, 7, 6, 5, 4, 3, 2])),
        6 => {
            let (_cap, _rate, _now, nops) = (c.n()?, c.n()?, c.n()?, c.n()?);
            let mut ops = vec![];
            for _ in 0..nops {
                ops.push((c.n()?, c.n()?));
            }
            Some(case_shifted(&[192, 0, 2, 77], &ops))
        }
        _ => None,
    }
}

fn main() {
    harness_main("C16", run);
}

pub fn run(args: &Args, out: &mut dyn Write) -> Stats {
    let mut stats = Stats::default();
    if let Some(path) = &args.replay {
        for line in std::fs::read_to_string(path).expect("replay file").lines() {
            if line.starts_with('#') || line.trim().is_empty() {
                continue;
            }
            match replay_line(&parse_tokens(line)) {
                Some(t) => writeln!(out, "{}", t.0).unwrap(),
                None => writeln!(out, "#unreadable {}", line).unwrap(),
            }
            stats.bump("replayed");
        }
        return stats;
    }
    let mut r = Rng::new(args.seed);
    for i in 0..args.n {
        match i % 8 {
            0 | 1 | 2 | 3 => {
                let c = gen_bucket(&mut r, &mut stats);
                writeln!(out, "{}", case_bucket(&c).0).unwrap();
            }
            4 => {
                let ip = gen_ip(&mut r, i % 16 == 4);
                let k = r.range(1, 8);
                let ns: Vec<u64> = (0..k).map(|_| gen_cost(&mut r)).collect();
                stats.bump("limiter.sequences");
                writeln!(out, "{}", case_limiter(&ip, &ns).0).unwrap();
            }
            5 | 6 => {
                let c = gen_ratelimit(&mut r, &mut stats);
                writeln!(out, "{}", case_ratelimit(&c).0).unwrap();
            }
            7 if i % 32 == 7 => {
                let client = r.bytes(8);
                stats.bump("fresh_keys");
                writeln!(out, "{}", case_fresh_keys(&[192, 0, 2, 1], &[192, 0, 2, 9], &client).0).unwrap();
            }
            7 if i % 16 == 15 => {
                let ip = gen_ip(&mut r, false);
                let ops = gen_shifted(&mut r, &mut stats);
                writeln!(out, "{}", case_shifted(&ip, &ops).0).unwrap();
            }
            _ => {
                let v6 = r.chance(1, 3);
                let local = gen_ip(&mut r, v6);
                let remote = gen_ip(&mut r, v6);
                let cur = r.bytes(8);
                let prev = r.bytes(8);
                let k = gen_ck(&mut r, &local, &remote, &cur, &prev, &mut stats);
                writeln!(out, "{}", case_cookie(&k, &local, &remote).0).unwrap();
            }
        }
    }
    stats
}

//! C05: no packet or frame can crash a handler or stop a service from answering.
//! Case kinds: 4 DHCP packet decoder; 5 DHCP service path (bytes -> parse -> log -> handle ->
//! serialise -> frame, followed by a valid DISCOVER on the same store); 100..199 DHCP option
//! value decoders (../c05_dhcpopt.rs); 300..399 ICMPv6 (../c05_icmp6.rs); 400..499 LLDP (../c05_lldp.rs).
#[path = "../util.rs"]
mod util;
#[path = "../dhcpgen.rs"]
mod dhcpgen;
#[path = "../c05_log.rs"]
mod c05_log;
#[path = "../c05_dhcpopt.rs"]
mod c05_dhcpopt;
#[path = "../c05_lldp.rs"]
mod c05_lldp;
#[path = "../c05_icmp6.rs"]
mod c05_icmp6;
#[path = "../dnsgen.rs"]
mod dnsgen;
use erbium::dhcp;
use erbium::dhcp::dhcppkt;
use erbium::dhcp::pool;
use std::io::Write;
use util::*;

const CONFIG: &str = "
dhcp-policies:
  - match-subnet: 192.0.2.0/24
    apply-range: {start: 192.0.2.10, end: 192.0.2.200}
";

/// What recvdhcp does with a datagram, minus the sockets: returns Some(frame) when a reply
/// would be sent.
fn service_path(
    p: &mut pool::Pool,
    conf: &erbium::config::Config,
    ids: &mut std::collections::HashSet<std::net::Ipv4Addr>,
    pkt: &[u8],
) -> Option<Vec<u8>> {
    let req = dhcppkt::parse(pkt).ok()?;
    dhcp::verif::log_options(&req);
    let request = dhcp::DHCPRequest {
        pkt: req,
        serverip: "192.0.2.1".parse().unwrap(),
        ifindex: 1,
        if_mtu: Some(1500),
        if_router: None,
    };
    let reply = dhcp::handle_pkt(p, &request, ids.clone(), conf).ok()?;
    if let Some(si) = reply.options.get_serverid() {
        ids.insert(si);
    }
    dhcp::verif::log_options(&reply);
    let chaddr = dhcp::verif::to_array(&reply.chaddr)?;
    use erbium_net::addr::Inet4Addr;
    let dst_ip = if request.pkt.get_broadcast_flag() { std::net::Ipv4Addr::BROADCAST } else { reply.yiaddr };
    let replybuf = reply.serialise();
    // the frame as the receive loop builds it (None: too large for a datagram, not sent)
    dhcp::verif::reply_frame(
        Inet4Addr::from(std::net::SocketAddrV4::new(request.serverip, 67)),
        &[2, 0, 0, 0, 0, 0xfe],
        Inet4Addr::from(std::net::SocketAddrV4::new(dst_ip, 68)),
        &chaddr,
        &replybuf,
    )
}

fn valid_discover() -> Vec<u8> {
    let mut c = dhcpgen::Cur(&[1, 1, 6, 0, 77, 0, 0, 0, 0, 0, 0, 6, 2, 0, 0, 0, 0, 0x42, 0, 0, 1, 53, 1, 1], 0);
    dhcpgen::get_dhcp(&mut c).unwrap().serialise()
}

fn run_service(args: &Args, out: &mut dyn Write, stats: &mut Stats) {
    let conf = erbium::config::verif_load_config_from_string(CONFIG).expect("harness config");
    let conf = conf.try_read().unwrap();
    let mut p = pool::Pool::new_in_memory().expect("pool");
    let mut ids = std::collections::HashSet::new();
    let follow = valid_discover();
    let mut r = Rng::new(args.seed ^ 0x55);
    let inputs: Vec<Vec<u8>> = if let Some(file) = &args.replay {
        std::fs::read_to_string(file)
            .expect("replay")
            .lines()
            .filter_map(|l| {
                let t = parse_tokens(l);
                if t.first() == Some(&5) {
                    let mut c = dhcpgen::Cur(&t, 1);
                    c.bytes()
                } else {
                    None
                }
            })
            .collect()
    } else {
        (0..args.n / 3)
            .map(|i| {
                if i % 2 == 0 {
                    dhcpgen::gen_wire(&mut r, stats)
                } else {
                    // a structurally valid message with hostile option values / odd hlen
                    let hlen = *r.pick(&[0u8, 1, 5, 6, 7, 16]);
                    let code = *r.pick(&[121u8, 119, 51, 58, 50, 54, 61, 12, 55, 57, 1, 3, 6]);
                    let k = *r.pick(&[0usize, 1, 3, 4, 5, 8, 9, 17]);
                    let v = r.bytes(k);
                    let ty = *r.pick(&[1u8, 3, 1, 3, 8, 7]);
                    c05_dhcpopt::raw_packet(&mut r, hlen, &[(53, vec![ty]), (code, v)], true)
                }
            })
            .collect()
    };
    for w in inputs {
        let mut t = Toks::new();
        t.n(5).bytes(&w);
        let stage = match catch(|| service_path(&mut p, &conf, &mut ids, &w)) {
            None => 2,
            Some(Some(_)) => 0,
            Some(None) => 1,
        };
        let followup = match catch(|| service_path(&mut p, &conf, &mut ids, &follow)) {
            Some(Some(_)) => 1,
            _ => 0,
        };
        t.n(stage).n(followup);
        writeln!(out, "{}", t.0).unwrap();
        stats.bump(match stage {
            0 => "service.replied",
            1 => "service.dropped",
            _ => "service.PANIC",
        });
    }
}

/// DNS decoder / re-encoder on the message shapes of C14 (kind 200 + the C14 case line): byte
/// strings through the decoder, structured messages through the encoder incl. messages crossing
/// 16 KiB with late repeated names; a panic of either is a C05 failure.
fn run_dns(args: &Args, out: &mut dyn Write) -> Stats {
    use dnsgen::{Gen, Shape};
    let sub = Args { seed: args.seed ^ 0x200, n: (args.n / 8).max(50), tier: args.tier.clone(), replay: None, extra: vec![] };
    let mut g = Gen::new(&sub);
    for t in dnsgen::at16k_cases(&mut g.r, &mut g.stats) {
        writeln!(out, "200 {}", t.0).unwrap();
    }
    for i in 0..sub.n {
        let t = if let Some(k) = g.big_slot(i) {
            match k % 6 {
                0 => g.k2_unlimited(Some(Shape::Cross16kMany)),
                1 => g.k2_unlimited(Some(Shape::Near64k)),
                2 => g.k2_unlimited(Some(Shape::Cross16kFew)),
                3 => g.k1(Some(Shape::Cross16kMany)),
                4 => g.k2_unlimited(Some(Shape::Many)),
                _ => g.k1(Some(Shape::Many)),
            }
        } else if g.mid_slot(i).is_some() {
            g.k2_unlimited(Some(Shape::Cross16kMany))
        } else {
            match g.r.below(100) {
                0..=39 => g.k2_unlimited(None),
                _ => g.k1(None),
            }
        };
        writeln!(out, "200 {}", t.0).unwrap();
    }
    let mut st = Stats::default();
    for (k, v) in g.stats.counts {
        st.add(&format!("dns.{}", k), v);
    }
    st
}

fn run(args: &Args, out: &mut dyn Write) -> Stats {
    let mut st = Stats::default();
    c05_log::install();
    run_service(args, out, &mut st);
    if args.replay.is_none() {
        // DHCP packet decoder (kind 4)
        let mut r = Rng::new(args.seed ^ 0x44);
        for _ in 0..args.n / 3 {
            let w = dhcpgen::gen_wire(&mut r, &mut st);
            writeln!(out, "{}", dhcpgen::case_decode(&w).0).unwrap();
        }
    }
    let dns_stats = if args.replay.is_none() { run_dns(args, out) } else { Stats::default() };
    for sub in [c05_dhcpopt::run(args, out), c05_lldp::run(args, out), c05_icmp6::run(args, out), dns_stats] {
        for (k, v) in sub.counts {
            st.add(&k, v);
        }
    }
    st
}

fn main() {
    util::harness_main("C05", run)
}

//! C07: each DNS query gets exactly one reply, its own, from where it was sent to.
//! Case kinds (see coq/Model/EntryC07.v):
//!  1 o0..o3  m0..m3                       std_to_libc_in_addr memory image
//!  3 nph phase* nw code*                  per-upstream TCP task driven with chosen ids
//!  5 t0 mask delay silent  after rcodeA ownA utxA nrespB rcodeB elapsedB
//!                                         history on ONE service with a UDP-only upstream: a query answered
//!                                         per (mask, delay), then the adaptive first-retry delay is read,
//!                                         then (silent = 1) a query to a silent upstream
//!  4 t0 t0hi slack nq (lst proto mask delay dup special)*  (nresp rcode own srcok idok utx ttx)*
//!                                         the real DNS service against a scripted upstream
//! Everything runs inside this process: tokio runtime, sockets on loopback with
//! ephemeral ports, real timers.  Nothing that depends on scheduling luck is
//! reported: outcomes and counts only, never instants.
#[path = "../util.rs"]
mod util;
use util::*;

use erbium::dns::dnspkt;
use erbium::dns::verif_outquery as hk;
use std::collections::HashMap;
use std::io::Write;
use std::net::{IpAddr, Ipv4Addr, Ipv6Addr, SocketAddr};
use std::sync::atomic::{AtomicU64, AtomicUsize, Ordering};
use std::sync::{Arc, Mutex};
use std::time::Duration;
use tokio::io::{AsyncReadExt, AsyncWriteExt};
use tokio::net::{TcpListener, TcpStream, UdpSocket};

static NEXT_Q: AtomicU64 = AtomicU64::new(1);
fn fresh_q() -> u64 {
    NEXT_Q.fetch_add(1, Ordering::Relaxed)
}

// ------------------------------------------------------------------ wire helpers
fn qname(n: u64) -> Vec<u8> {
    let l = format!("q{}", n);
    let mut v = vec![l.len() as u8];
    v.extend(l.as_bytes());
    v.extend([1, b't', 0]);
    v
}
fn build_query(id: u16, n: u64) -> Vec<u8> {
    let mut v = vec![];
    v.extend(id.to_be_bytes());
    v.extend([0x01, 0x00, 0, 1, 0, 0, 0, 0, 0, 0]);
    v.extend(qname(n));
    v.extend([0, 1, 0, 1]);
    v
}
/// question number of a query/response ("q<N>.t")
fn parse_qnum(m: &[u8]) -> Option<u64> {
    let l = *m.get(12)? as usize;
    let lab = m.get(13..13 + l)?;
    if lab.first() != Some(&b'q') {
        return None;
    }
    std::str::from_utf8(&lab[1..]).ok()?.parse().ok()
}
fn skip_name(m: &[u8], mut p: usize) -> Option<usize> {
    loop {
        let b = *m.get(p)?;
        if b & 0xC0 == 0xC0 {
            return Some(p + 2);
        }
        if b == 0 {
            return Some(p + 1);
        }
        p += 1 + b as usize;
    }
}
/// the scripted upstream's reply to `query`: answer = A record whose RDATA is the question number
fn build_reply(query: &[u8], n: u64, tc: bool, wrong_id: bool) -> Vec<u8> {
    let mut v = vec![];
    let id = u16::from_be_bytes([query[0], query[1]]);
    v.extend((if wrong_id { id ^ 0x5555 } else { id }).to_be_bytes());
    v.extend([if tc { 0x83 } else { 0x81 }, 0x80, 0, 1, 0, if tc { 0 } else { 1 }, 0, 0, 0, 0]);
    let qend = skip_name(query, 12).unwrap() + 4;
    v.extend(&query[12..qend]);
    if !tc {
        v.extend([0xC0, 12, 0, 1, 0, 1, 0, 0, 0, 60, 0, 4]);
        v.extend((n as u32).to_be_bytes());
    }
    v
}
struct Resp {
    id: u16,
    rcode: u8,
    answer: Option<u32>,
    ancount: u16,
}
fn parse_response(m: &[u8]) -> Option<Resp> {
    if m.len() < 12 {
        return None;
    }
    let id = u16::from_be_bytes([m[0], m[1]]);
    let rcode = m[3] & 0x0F;
    let qd = u16::from_be_bytes([m[4], m[5]]);
    let an = u16::from_be_bytes([m[6], m[7]]);
    let mut p = 12;
    for _ in 0..qd {
        p = skip_name(m, p)? + 4;
    }
    let mut answer = None;
    if an >= 1 {
        p = skip_name(m, p)?;
        let rdlen = u16::from_be_bytes([*m.get(p + 8)?, *m.get(p + 9)?]) as usize;
        let rd = m.get(p + 10..p + 10 + rdlen)?;
        if rdlen == 4 {
            answer = Some(u32::from_be_bytes([rd[0], rd[1], rd[2], rd[3]]));
        }
    }
    Some(Resp { id, rcode, answer, ancount: an })
}
fn mk_in_query(n: u64) -> dnspkt::DNSPkt {
    dnspkt::DNSPkt {
        qid: 0,
        rd: true,
        tc: false,
        aa: false,
        qr: false,
        opcode: dnspkt::OPCODE_QUERY,
        cd: false,
        ad: false,
        ra: false,
        rcode: dnspkt::NOERROR,
        bufsize: 512,
        edns_ver: None,
        edns_do: false,
        question: dnspkt::Question {
            qdomain: format!("q{}.t", n).parse().unwrap(),
            qclass: dnspkt::CLASS_IN,
            qtype: dnspkt::RR_A,
        },
        answer: vec![],
        nameserver: vec![],
        additional: vec![],
        edns: None,
    }
}

// ------------------------------------------------------------------ kind 1
fn run_cmsg(ip: [u8; 4], which: u64) -> Toks {
    let a = Ipv4Addr::from(ip);
    let m = if which % 2 == 0 {
        erbium_net::socket::std_to_libc_in_addr(a).s_addr.to_ne_bytes()
    } else {
        erbium_net::udp::std_to_libc_in_addr(a).s_addr.to_ne_bytes()
    };
    let mut t = Toks::new();
    t.n(1).raw(&ip).raw(&m);
    t
}

// ------------------------------------------------------------------ kind 3
#[derive(Clone)]
struct Phase {
    ids: Vec<u16>,
    replies: Vec<usize>,
    close: bool,
}

struct SeenQ {
    gen: usize,
    bytes: Vec<u8>,
}
type Writer = Arc<tokio::sync::Mutex<tokio::net::tcp::OwnedWriteHalf>>;
#[derive(Default)]
struct TcpUp {
    seen: HashMap<u64, SeenQ>,
    writers: HashMap<usize, Writer>,
    gen: usize,
}

async fn tcp_upstream_accept(l: TcpListener, st: Arc<Mutex<TcpUp>>) {
    loop {
        let (sock, _) = match l.accept().await {
            Ok(x) => x,
            Err(_) => return,
        };
        let (mut rd, wr) = sock.into_split();
        let gen = {
            let mut s = st.lock().unwrap();
            s.gen += 1;
            let g = s.gen;
            s.writers.insert(g, Arc::new(tokio::sync::Mutex::new(wr)));
            g
        };
        let st2 = st.clone();
        tokio::spawn(async move {
            loop {
                let mut lb = [0u8; 2];
                if rd.read_exact(&mut lb).await.is_err() {
                    break;
                }
                let mut buf = vec![0u8; u16::from_be_bytes(lb) as usize];
                if rd.read_exact(&mut buf).await.is_err() {
                    break;
                }
                if let Some(n) = parse_qnum(&buf) {
                    st2.lock().unwrap().seen.insert(n, SeenQ { gen, bytes: buf });
                }
            }
            st2.lock().unwrap().writers.remove(&gen);
        });
    }
}

async fn run_demux(phases: Vec<Phase>) -> Vec<u64> {
    let l = TcpListener::bind("127.0.0.1:0").await.unwrap();
    let addr = l.local_addr().unwrap();
    let st: Arc<Mutex<TcpUp>> = Default::default();
    let acc = tokio::spawn(tcp_upstream_accept(l, st.clone()));
    let mut handles: Vec<tokio::task::JoinHandle<u64>> = vec![];
    let mut qn: Vec<u64> = vec![];
    let mut pending: Vec<usize> = vec![];
    for ph in &phases {
        let first = handles.len();
        for &id in &ph.ids {
            let n = fresh_q();
            qn.push(n);
            pending.push(handles.len());
            handles.push(tokio::spawn(async move {
                match hk::tcp_query(addr, id, &mk_in_query(n)).await {
                    Ok(p) => {
                        let own = matches!(p.answer.first().map(|rr| &rr.rdata),
                            Some(dnspkt::RData::Other(v)) if v[..] == (n as u32).to_be_bytes());
                        if !own {
                            1
                        } else if p.qid != id {
                            2
                        } else {
                            0
                        }
                    }
                    Err(3) => 3,
                    Err(5) => 4,
                    Err(1) => 5,
                    Err(_) => 6,
                }
            }));
        }
        // wait until the upstream has read this phase's queries (or they have all failed)
        let t_end = tokio::time::Instant::now() + Duration::from_secs(4);
        loop {
            let all_seen = {
                let s = st.lock().unwrap();
                (first..handles.len()).all(|g| s.seen.contains_key(&qn[g]))
            };
            let all_done = (first..handles.len()).all(|g| handles[g].is_finished());
            if all_seen || all_done || tokio::time::Instant::now() > t_end {
                break;
            }
            tokio::time::sleep(Duration::from_millis(2)).await;
        }
        // replies, in the scripted order
        let mut expect_done: Vec<usize> = vec![];
        for &g in &ph.replies {
            let item = {
                let s = st.lock().unwrap();
                s.seen.get(&qn[g]).and_then(|q| s.writers.get(&q.gen).map(|w| (w.clone(), q.bytes.clone())))
            };
            if let Some((w, q)) = item {
                let r = build_reply(&q, qn[g], false, false);
                let mut b = (r.len() as u16).to_be_bytes().to_vec();
                b.extend(r);
                let _ = w.lock().await.write_all(&b).await;
                if pending.contains(&g) {
                    pending.retain(|&x| x != g);
                    expect_done.push(g);
                }
            }
        }
        if ph.close {
            let ws: Vec<Writer> = st.lock().unwrap().writers.values().cloned().collect();
            for w in ws {
                let _ = w.lock().await.shutdown().await;
            }
            expect_done.append(&mut pending);
        }
        let t_end = tokio::time::Instant::now() + Duration::from_secs(4);
        while !expect_done.iter().all(|&g| handles[g].is_finished()) && tokio::time::Instant::now() < t_end {
            tokio::time::sleep(Duration::from_millis(2)).await;
        }
        if ph.close {
            // let the task notice the end of the stream before the next submission
            let t_end = tokio::time::Instant::now() + Duration::from_secs(2);
            while !st.lock().unwrap().writers.is_empty() && tokio::time::Instant::now() < t_end {
                tokio::time::sleep(Duration::from_millis(2)).await;
            }
            tokio::time::sleep(Duration::from_millis(20)).await;
        }
    }
    let mut codes = vec![];
    for h in handles {
        if h.is_finished() {
            codes.push(h.await.unwrap_or(6));
        } else {
            h.abort();
            codes.push(7);
        }
    }
    acc.abort();
    codes
}

fn put_demux(phases: &[Phase], codes: &[u64]) -> Toks {
    let mut t = Toks::new();
    t.n(3).n(phases.len() as u64);
    for p in phases {
        t.n(p.ids.len() as u64);
        for &i in &p.ids {
            t.n(i as u64);
        }
        t.n(p.replies.len() as u64);
        for &g in &p.replies {
            t.n(g as u64);
        }
        t.b(p.close);
    }
    t.n(codes.len() as u64);
    for &c in codes {
        t.n(c);
    }
    t
}

fn gen_demux(rng: &mut Rng, big: bool, stats: &mut Stats) -> Vec<Phase> {
    let nph = rng.range(1, 3) as usize;
    let mut phases = vec![];
    let mut total = 0usize;
    let mut pending: Vec<usize> = vec![];
    let mut inflight_ids: Vec<u16> = vec![];
    let mut all_ids: Vec<u16> = vec![];
    let collide = rng.chance(1, 3);
    if collide {
        stats.bump("demux.with-colliding-ids");
    }
    for k in 0..nph {
        let n = if big && k == 0 { 256 } else { *rng.pick(&[1usize, 2, 3, 5, 8, 16, 40]) };
        let mut ids = vec![];
        for _ in 0..n {
            // ids in flight, ids of this phase, and (re-use) ids of waiters already finished
            let pool: Vec<u16> = inflight_ids.iter().chain(ids.iter()).chain(all_ids.iter()).cloned().collect();
            let id = if collide && !pool.is_empty() && rng.chance(1, 6) {
                *rng.pick(&pool)
            } else if rng.chance(1, 8) {
                *rng.pick(&[0u16, 1, 0xFFFF, 0xFFFE, 0x8000])
            } else {
                rng.next() as u16
            };
            ids.push(id);
        }
        for j in 0..n {
            pending.push(total + j);
        }
        all_ids.extend(ids.iter().cloned());
        total += n;
        let last = k + 1 == nph;
        // which pending waiters are answered, in which order, which twice
        let mut order: Vec<usize> = pending.clone();
        for i in (1..order.len()).rev() {
            order.swap(i, rng.below(i as u64 + 1) as usize);
        }
        let mode = rng.below(4);
        let keep = match mode {
            0 => order.len(),
            1 => order.len() / 2,
            2 => 0,
            _ => rng.below(order.len() as u64 + 1) as usize,
        };
        order.truncate(keep);
        let mut replies = vec![];
        for &g in &order {
            replies.push(g);
            if rng.chance(1, 5) {
                replies.push(g); // duplicate, same phase
                stats.bump("demux.duplicated-reply");
            }
        }
        // stale replies: the upstream repeats the reply to a waiter that is already finished,
        // possibly after its id has been taken again (must be dropped, not handed to the new owner)
        if collide && total > n {
            let finished: Vec<usize> = (0..total - n).filter(|g| !pending.contains(g)).collect();
            for _ in 0..rng.below(4) {
                if !finished.is_empty() {
                    let g = *rng.pick(&finished);
                    let at = rng.below(replies.len() as u64 + 1) as usize;
                    replies.insert(at, g);
                    stats.bump("demux.stale-reply-for-finished-waiter");
                }
            }
        }
        // a close needs at least one waiter still pending (so its effect is observable), except at the end
        let unanswered = pending.len() - order.len();
        let close = last || (unanswered > 0 && rng.chance(1, 2));
        if unanswered > 0 {
            stats.bump("demux.lost-replies-then-close");
        }
        pending.retain(|g| !order.contains(g));
        if close {
            pending.clear();
            inflight_ids.clear();
        } else {
            // ids still in flight
            inflight_ids = pending.iter().map(|&g| all_ids[g]).collect();
        }
        phases.push(Phase { ids, replies, close });
    }
    stats.add("demux.waiters", total as u64);
    phases
}

// ------------------------------------------------------------------ kind 4
#[derive(Clone, Copy)]
struct Q {
    lst: u64,
    proto: u64,
    mask: u64,
    delay: u64,
    dup: u64,
    special: u64,
}
#[derive(Default, Clone, Copy)]
struct Seen {
    utx: u64,
    ttx: u64,
}
struct UpCfg {
    origin: std::time::Instant,
    /// when the last FIRST transmission of a UDP-client query reached the upstream (us since origin)
    last_first_us: AtomicU64,
    cfg: HashMap<u64, Q>,
    seen: Mutex<HashMap<u64, Seen>>,
}

async fn udp_upstream(sock: Arc<UdpSocket>, up: Arc<UpCfg>) {
    let mut buf = vec![0u8; 4096];
    loop {
        let (l, from) = match sock.recv_from(&mut buf).await {
            Ok(x) => x,
            Err(_) => continue,
        };
        let q = buf[..l].to_vec();
        let n = match parse_qnum(&q) {
            Some(n) => n,
            None => continue,
        };
        let c = match up.cfg.get(&n) {
            Some(c) => *c,
            None => continue,
        };
        let k = {
            let mut s = up.seen.lock().unwrap();
            let e = s.entry(n).or_default();
            e.utx += 1;
            e.utx
        };
        if k == 1 {
            up.last_first_us.fetch_max(up.origin.elapsed().as_micros() as u64, Ordering::SeqCst);
        }
        if k > 4 || (c.mask >> (k - 1)) & 1 == 1 {
            continue; // lost
        }
        let sock = sock.clone();
        tokio::spawn(async move {
            if c.delay > 0 {
                tokio::time::sleep(Duration::from_millis(c.delay)).await;
            }
            let r = build_reply(&q, n, c.special == 1, c.special == 2);
            let _ = sock.send_to(&r, from).await;
            if c.dup == 1 {
                let _ = sock.send_to(&r, from).await;
            }
        });
    }
}

async fn tcp_upstream(l: TcpListener, up: Arc<UpCfg>) {
    loop {
        let (sock, _) = match l.accept().await {
            Ok(x) => x,
            Err(_) => return,
        };
        let (mut rd, wr) = sock.into_split();
        let wr: Writer = Arc::new(tokio::sync::Mutex::new(wr));
        let up = up.clone();
        tokio::spawn(async move {
            loop {
                let mut lb = [0u8; 2];
                if rd.read_exact(&mut lb).await.is_err() {
                    break;
                }
                let mut q = vec![0u8; u16::from_be_bytes(lb) as usize];
                if rd.read_exact(&mut q).await.is_err() {
                    break;
                }
                let n = match parse_qnum(&q) {
                    Some(n) => n,
                    None => continue,
                };
                let c = match up.cfg.get(&n) {
                    Some(c) => *c,
                    None => continue,
                };
                up.seen.lock().unwrap().entry(n).or_default().ttx += 1;
                let wr = wr.clone();
                tokio::spawn(async move {
                    if c.delay > 0 {
                        tokio::time::sleep(Duration::from_millis(c.delay)).await;
                    }
                    let r = build_reply(&q, n, false, false);
                    let mut b = (r.len() as u16).to_be_bytes().to_vec();
                    b.extend(r);
                    let mut w = wr.lock().await;
                    let _ = w.write_all(&b).await;
                    if c.dup == 1 {
                        let _ = w.write_all(&b).await;
                    }
                });
            }
        });
    }
}

#[derive(Default, Clone, Copy)]
struct Obs {
    nresp: u64,
    rcode: u64,
    own: u64,
    srcok: u64,
    idok: u64,
}

fn note(o: &mut Obs, n: u64, id: u16, msg: &[u8], srcok: bool) {
    o.nresp += 1;
    if o.nresp > 1 {
        return;
    }
    o.srcok = srcok as u64;
    match parse_response(msg) {
        Some(r) => {
            o.rcode = r.rcode as u64;
            o.idok = (r.id == id) as u64;
            o.own = match r.answer {
                Some(a) if a == n as u32 => 1,
                Some(_) => 0,
                None if r.ancount == 0 => 2,
                None => 0,
            };
        }
        None => {
            o.rcode = 254;
        }
    }
}

/// Start control shared by all batches of a wave: clients prepare their sockets, report ready,
/// and are released together; `t_hi` is the largest first-retry delay seen in force (ms).
struct Wave {
    ready: AtomicUsize,
    go: tokio::sync::watch::Receiver<bool>,
    t_hi: AtomicU64,
    /// process-wide monotonic origin; `released_us` = when the queries were released,
    /// `moved_us` = when the sampler first saw the adaptive delay differ from t0 (u64::MAX: never)
    origin: std::time::Instant,
    released_us: AtomicU64,
    moved_us: AtomicU64,
}

async fn client(
    wave: Arc<Wave>,
    q: Q,
    n: u64,
    id: u16,
    udp_t: SocketAddr,
    tcp_t: SocketAddr,
    done: Arc<AtomicUsize>,
    mut end: tokio::sync::watch::Receiver<bool>,
) -> Obs {
    let mut o = Obs { rcode: 255, ..Default::default() };
    let msg = build_query(id, n);
    if q.proto == 0 {
        let sock = UdpSocket::bind(if udp_t.is_ipv4() { "127.0.0.1:0" } else { "[::1]:0" }).await.unwrap();
        wave.ready.fetch_add(1, Ordering::SeqCst);
        let mut go = wave.go.clone();
        let _ = go.wait_for(|g| *g).await;
        let _ = sock.send_to(&msg, udp_t).await;
        let mut buf = vec![0u8; 4096];
        loop {
            tokio::select! {
                r = sock.recv_from(&mut buf) => {
                    if let Ok((l, from)) = r {
                        note(&mut o, n, id, &buf[..l], from == udp_t);
                        if o.nresp == 1 { done.fetch_add(1, Ordering::SeqCst); }
                    }
                }
                _ = end.changed() => break,
            }
        }
    } else {
        let mut counted = false;
        let need = if q.proto == 3 { 2 } else { 1 };
        let conn = TcpStream::connect(tcp_t).await;
        wave.ready.fetch_add(1, Ordering::SeqCst);
        let mut go = wave.go.clone();
        let _ = go.wait_for(|g| *g).await;
        if let Ok(mut s) = conn {
            let _ = s.set_nodelay(true);
            let mut b = (msg.len() as u16).to_be_bytes().to_vec();
            b.extend(&msg);
            if q.proto == 2 {
                let _ = s.write_all(&b[..1]).await;
                let _ = s.flush().await;
                tokio::time::sleep(Duration::from_millis(60)).await;
                let _ = s.write_all(&b[1..]).await;
            } else if q.proto == 3 {
                // two queries on one connection: two responses are due
                let mut bb = b.clone();
                bb.extend(&b);
                let _ = s.write_all(&bb).await;
            } else {
                let _ = s.write_all(&b).await;
            }
            let srcok = s.peer_addr().map(|a| a == tcp_t).unwrap_or(false);
            loop {
                let mut lb = [0u8; 2];
                tokio::select! {
                    r = s.read_exact(&mut lb) => {
                        if r.is_err() { break; }
                        let mut m = vec![0u8; u16::from_be_bytes(lb) as usize];
                        if s.read_exact(&mut m).await.is_err() { break; }
                        note(&mut o, n, id, &m, srcok);
                        if o.nresp == need { counted = true; done.fetch_add(1, Ordering::SeqCst); }
                    }
                    _ = end.changed() => break,
                }
            }
        }
        if !counted {
            // connection ended without a response: nothing more will come
            done.fetch_add(1, Ordering::SeqCst);
            let _ = end.changed().await;
        }
    }
    o
}

async fn bind_upstream() -> (Arc<UdpSocket>, TcpListener, SocketAddr) {
    loop {
        let u = UdpSocket::bind("127.0.0.1:0").await.unwrap();
        let a = u.local_addr().unwrap();
        if let Ok(t) = TcpListener::bind(a).await {
            return (Arc::new(u), t, a);
        }
    }
}

async fn run_batch(wave: Arc<Wave>, qs: Vec<Q>) -> (u64, Vec<(Obs, Seen)>) {
    use erbium_net::addr::WithPort as _;
    let (usock, tl, upaddr) = bind_upstream().await;
    let nums: Vec<u64> = qs.iter().map(|_| fresh_q()).collect();
    let up = Arc::new(UpCfg {
        origin: wave.origin,
        last_first_us: AtomicU64::new(0),
        cfg: nums.iter().cloned().zip(qs.iter().cloned()).collect(),
        seen: Default::default(),
    });
    let t_udp = tokio::spawn(udp_upstream(usock, up.clone()));
    let t_tcp = tokio::spawn(tcp_upstream(tl, up.clone()));
    let listeners = vec![
        IpAddr::V4(Ipv4Addr::LOCALHOST).with_port(0),
        IpAddr::V6(Ipv6Addr::LOCALHOST).with_port(0),
        IpAddr::V6(Ipv6Addr::UNSPECIFIED).with_port(0),
        IpAddr::V4(Ipv4Addr::UNSPECIFIED).with_port(0),
    ];
    let (svc, ua, ta) = match hk::service(listeners, upaddr).await {
        Ok(x) => x,
        Err(_) => panic!("service did not start"),
    };
    let t_svc = tokio::spawn(async move {
        let _ = svc.run().await;
    });
    let target = |lst: u64, a: &Vec<SocketAddr>| -> SocketAddr {
        match lst {
            0 => SocketAddr::new(IpAddr::V4(Ipv4Addr::LOCALHOST), a[0].port()),
            1 => SocketAddr::new(IpAddr::V6(Ipv6Addr::LOCALHOST), a[1].port()),
            2 => SocketAddr::new(IpAddr::V4(Ipv4Addr::LOCALHOST), a[2].port()),
            3 => SocketAddr::new(IpAddr::V6(Ipv6Addr::LOCALHOST), a[2].port()),
            _ => SocketAddr::new(IpAddr::V4(Ipv4Addr::new(127, 0, 0, 2)), a[3].port()),
        }
    };
    let done = Arc::new(AtomicUsize::new(0));
    let (end_tx, end_rx) = tokio::sync::watch::channel(false);
    let mut hs = vec![];
    for (i, q) in qs.iter().enumerate() {
        let id = (nums[i] as u16).wrapping_mul(40503).wrapping_add(i as u16);
        hs.push(tokio::spawn(client(
            wave.clone(),
            *q,
            nums[i],
            id,
            target(q.lst, &ua),
            target(q.lst, &ta),
            done.clone(),
            end_rx.clone(),
        )));
    }
    // the window: until every client has its first response plus a grace period for
    // duplicates, at most the documented bound on a full timeout (26 x the largest first-retry
    // delay in force during the wave) plus margin
    let mut go = wave.go.clone();
    let _ = go.wait_for(|g| *g).await;
    let start = tokio::time::Instant::now();
    while done.load(Ordering::SeqCst) < qs.len()
        && start.elapsed() < Duration::from_millis(26 * wave.t_hi.load(Ordering::SeqCst) + 1500)
    {
        tokio::time::sleep(Duration::from_millis(10)).await;
    }
    tokio::time::sleep(Duration::from_millis(400)).await;
    let _ = end_tx.send(true);
    let mut out = vec![];
    for (i, h) in hs.into_iter().enumerate() {
        let o = h.await.unwrap_or(Obs { rcode: 253, ..Default::default() });
        let s = up.seen.lock().unwrap().get(&nums[i]).cloned().unwrap_or_default();
        out.push((o, s));
    }
    t_svc.abort();
    t_udp.abort();
    t_tcp.abort();
    (up.last_first_us.load(Ordering::SeqCst), out)
}

fn put_batch(t0: u64, t_hi: u64, slack: u64, qs: &[Q], out: &[(Obs, Seen)]) -> Toks {
    let mut t = Toks::new();
    t.n(4).n(t0).n(t_hi).n(slack).n(qs.len() as u64);
    for q in qs {
        t.n(q.lst).n(q.proto).n(q.mask).n(q.delay).n(q.dup).n(q.special);
    }
    for (o, s) in out {
        t.n(o.nresp).n(o.rcode).n(o.own).n(o.srcok).n(o.idok).n(s.utx).n(s.ttx);
    }
    t
}

fn gen_batch(rng: &mut Rng, nq: usize, t0: u64, stats: &mut Stats) -> Vec<Q> {
    let mut qs = vec![];
    for i in 0..nq {
        let lst = if i < 5 { i as u64 } else { rng.below(5) };
        let proto = match rng.below(20) {
            0..=13 => 0,
            14..=16 => 1,
            17 | 18 => 2,
            _ => 3,
        };
        // all 16 drop masks; bits above the 4th must be irrelevant
        let mask = if rng.chance(1, 10) { rng.below(256) } else { rng.below(16) };
        let delay = match rng.below(10) {
            0..=4 => 0,
            5 => rng.range(1, 60),
            6 => t0 / 2,
            7 => t0 + t0 / 2,
            8 => rng.range(0, 3 * t0),
            _ => rng.range(0, 12 * t0),
        };
        let dup = rng.chance(1, 4) as u64;
        let special = match rng.below(8) {
            0 => 1,
            1 => 2,
            _ => 0,
        };
        stats.bump(&format!("batch.listener{}", lst));
        stats.bump(&format!("batch.proto{}", proto));
        if proto == 0 {
            stats.bump(&format!("batch.udp.mask{:02}", mask % 16));
        }
        if special != 0 {
            stats.bump("batch.tcp-retry(tc/wrong-id)");
        }
        if dup == 1 {
            stats.bump("batch.duplicated-replies");
        }
        if delay > t0 {
            stats.bump("batch.reply-later-than-first-timeout");
        }
        qs.push(Q { lst, proto, mask, delay, dup, special });
    }
    stats.add("batch.queries", nq as u64);
    qs
}

// ------------------------------------------------------------------ kind 5
/// One UDP query to `target`; waits at most `cap`.  Returns (responses, rcode, own, elapsed ms of the first).
async fn one_udp_query(n: u64, target: SocketAddr, cap: Duration) -> (u64, u64, u64, u64) {
    let sock = UdpSocket::bind("127.0.0.1:0").await.unwrap();
    let id = (n as u16).wrapping_mul(40503);
    let start = std::time::Instant::now();
    let _ = sock.send_to(&build_query(id, n), target).await;
    let mut buf = vec![0u8; 4096];
    match tokio::time::timeout(cap, sock.recv_from(&mut buf)).await {
        Ok(Ok((l, from))) => {
            let mut o = Obs { rcode: 255, ..Default::default() };
            note(&mut o, n, id, &buf[..l], from == target);
            (1, o.rcode, if o.idok == 1 { o.own } else { 0 }, start.elapsed().as_millis() as u64)
        }
        _ => (0, 255, 0, start.elapsed().as_millis() as u64),
    }
}

/// The history of C07-5/C07-6: the upstream speaks UDP only (nothing listens on its TCP port).
/// Query A is treated per (mask, delay); then the global adaptive first-retry delay is read; then,
/// if `silent`, query B meets a silent upstream on the same service.
async fn run_adapt(t0: u64, mask: u64, delay: u64, silent: bool) -> Vec<u64> {
    use erbium_net::addr::WithPort as _;
    let usock = Arc::new(UdpSocket::bind("127.0.0.1:0").await.unwrap());
    let upaddr = usock.local_addr().unwrap();
    let (na, nb) = (fresh_q(), fresh_q());
    let mut cfg = HashMap::new();
    cfg.insert(na, Q { lst: 0, proto: 0, mask, delay, dup: 0, special: 0 });
    cfg.insert(nb, Q { lst: 0, proto: 0, mask: 15, delay: 0, dup: 0, special: 0 });
    let up = Arc::new(UpCfg {
        origin: std::time::Instant::now(),
        last_first_us: AtomicU64::new(0),
        cfg,
        seen: Default::default(),
    });
    let t_udp = tokio::spawn(udp_upstream(usock, up.clone()));
    let (svc, ua, _ta) = match hk::service(vec![IpAddr::V4(Ipv4Addr::LOCALHOST).with_port(0)], upaddr).await {
        Ok(x) => x,
        Err(_) => panic!("service did not start"),
    };
    let t_svc = tokio::spawn(async move {
        let _ = svc.run().await;
    });
    hk::set_dns_timeout_ms(t0).await;
    let (_, rcode_a, own_a, _) = one_udp_query(na, ua[0], Duration::from_millis(26 * t0 + 1500)).await;
    // the update of the global delay happens just before the reply is sent; give it a moment
    tokio::time::sleep(Duration::from_millis(50)).await;
    let after = hk::dns_timeout_ms().await;
    let utx_a = up.seen.lock().unwrap().get(&na).map(|s| s.utx).unwrap_or(0);
    let (mut nresp_b, mut rcode_b, mut el_b) = (0, 0, 0);
    if silent {
        // bound of C07_retry_bounded for the CAPPED first-retry delay: 25.375 x 2 s = 50.75 s
        let cap = Duration::from_millis(50750 + 1500);
        let (n, r, _, e) = one_udp_query(nb, ua[0], cap).await;
        nresp_b = n;
        rcode_b = r;
        el_b = e;
    }
    hk::set_dns_timeout_ms(t0).await;
    t_svc.abort();
    t_udp.abort();
    vec![after, rcode_a, own_a, utx_a, nresp_b, rcode_b, el_b]
}

// ------------------------------------------------------------------ driver
enum Case {
    Cmsg([u8; 4], u64),
    Demux(Vec<Phase>),
    Batch(u64, Vec<Q>),
    Adapt(u64, u64, u64, bool),
}

fn parse_case(ts: &[u64]) -> Option<Case> {
    let mut i = 0usize;
    let mut nx = |i: &mut usize| -> Option<u64> {
        let v = ts.get(*i).copied();
        *i += 1;
        v
    };
    match nx(&mut i)? {
        1 => {
            let o = [nx(&mut i)? as u8, nx(&mut i)? as u8, nx(&mut i)? as u8, nx(&mut i)? as u8];
            Some(Case::Cmsg(o, 0))
        }
        3 => {
            let nph = nx(&mut i)?;
            let mut phases = vec![];
            for _ in 0..nph {
                let n = nx(&mut i)?;
                let mut ids = vec![];
                for _ in 0..n {
                    ids.push(nx(&mut i)? as u16);
                }
                let r = nx(&mut i)?;
                let mut replies = vec![];
                for _ in 0..r {
                    replies.push(nx(&mut i)? as usize);
                }
                let close = nx(&mut i)? != 0;
                phases.push(Phase { ids, replies, close });
            }
            Some(Case::Demux(phases))
        }
        5 => Some(Case::Adapt(nx(&mut i)?, nx(&mut i)?, nx(&mut i)?, nx(&mut i)? != 0)),
        4 => {
            let t0 = nx(&mut i)?;
            let _t_hi = nx(&mut i)?;
            let _slack = nx(&mut i)?;
            let nq = nx(&mut i)?;
            let mut qs = vec![];
            for _ in 0..nq {
                qs.push(Q {
                    lst: nx(&mut i)?,
                    proto: nx(&mut i)?,
                    mask: nx(&mut i)?,
                    delay: nx(&mut i)?,
                    dup: nx(&mut i)?,
                    special: nx(&mut i)?,
                });
            }
            Some(Case::Batch(t0, qs))
        }
        _ => None,
    }
}

fn run(args: &Args, out: &mut dyn Write) -> Stats {
    let mut stats = Stats::default();
    let mut rng = Rng::new(args.seed);
    let mut cases: Vec<Case> = vec![];
    if let Some(path) = &args.replay {
        for line in std::fs::read_to_string(path).unwrap_or_default().lines() {
            if let Some(c) = parse_case(&parse_tokens(line)) {
                cases.push(c);
            }
        }
    } else {
        let n = args.n.max(8);
        let n_batch = (n / 32).max(4);
        let n_demux = n / 5;
        let adapt: Vec<(u64, u64)> = vec![(0, 0), (1, 0), (0, 1800), (2, 1000), (3, 0), (6, 0), (5, 0), (4, 1900), (0, 1200)];
        let n_adapt = if args.tier == "thorough" { 24 } else { adapt.len() as u64 };
        let n_cmsg = n - n_batch - n_demux - n_adapt.min(n / 4);
        let fixed: [[u8; 4]; 10] = [
            [127, 0, 0, 1],
            [127, 0, 0, 2],
            [0, 0, 0, 0],
            [255, 255, 255, 255],
            [192, 0, 2, 1],
            [10, 1, 1, 10],
            [1, 0, 0, 127],
            [1, 2, 3, 4],
            [128, 0, 0, 0],
            [0, 0, 0, 128],
        ];
        for k in 0..n_cmsg {
            let ip = if (k as usize) < 2 * fixed.len() {
                fixed[k as usize / 2]
            } else {
                let b = rng.bytes(4);
                [b[0], b[1], b[2], b[3]]
            };
            cases.push(Case::Cmsg(ip, k));
        }
        for k in 0..n_demux {
            cases.push(Case::Demux(gen_demux(&mut rng, k == 0, &mut stats)));
        }
        let t0 = hk::MIN_DNS_TIMEOUT_MS;
        for k in 0..n_adapt {
            let (mask, delay) = if (k as usize) < adapt.len() {
                adapt[k as usize]
            } else if rng.chance(1, 2) {
                (rng.below(15), 0)
            } else {
                // late answers: from the zone where the third transmission may or may not be out yet (2.5-5 t0)
                // to clearly beyond it (the adaptation is then certain); answered at all up to 2000 ms
                (2 * rng.below(8), rng.range(900, 2000))
            };
            // one history per thorough run goes on to a silent upstream (16-50 s)
            let silent = args.tier == "thorough" && k == 2;
            cases.push(Case::Adapt(t0, mask, delay, silent));
        }
        for k in 0..n_batch {
            let nq = if k % 12 == 0 { 256 } else { *rng.pick(&[5usize, 8, 16, 24, 40]) };
            cases.push(Case::Batch(t0, gen_batch(&mut rng, nq, t0, &mut stats)));
        }
    }
    let rt = tokio::runtime::Builder::new_multi_thread().worker_threads(6).enable_all().build().unwrap();
    // kind 1: pure
    for c in &cases {
        if let Case::Cmsg(ip, k) = c {
            stats.bump("cmsg");
            writeln!(out, "{}", run_cmsg(*ip, *k).0).unwrap();
        }
    }
    // kind 5: one at a time and alone (they read and move the process-wide adaptive delay)
    for c in &cases {
        if let Case::Adapt(t0, mask, delay, silent) = c {
            stats.bump(if *delay > *t0 { "adapt.late-reply" } else { "adapt.prompt" });
            let o = rt.block_on(run_adapt(*t0, *mask, *delay, *silent));
            let mut t = Toks::new();
            t.n(5).n(*t0).n(*mask).n(*delay).b(*silent);
            for v in o {
                t.n(v);
            }
            writeln!(out, "{}", t.0).unwrap();
        }
    }
    // kind 3: scripts run 16 at a time
    let demux: Vec<Vec<Phase>> = cases.iter().filter_map(|c| if let Case::Demux(p) = c { Some(p.clone()) } else { None }).collect();
    for chunk in demux.chunks(16) {
        let res: Vec<Vec<u64>> = rt.block_on(async {
            let hs: Vec<_> = chunk.iter().map(|p| tokio::spawn(run_demux(p.clone()))).collect();
            let mut r = vec![];
            for h in hs {
                r.push(h.await.unwrap_or_default());
            }
            r
        });
        for (p, codes) in chunk.iter().zip(res.iter()) {
            stats.bump("demux");
            writeln!(out, "{}", put_demux(p, codes).0).unwrap();
        }
    }
    // kind 4: waves of 12 batches; the adaptive first-retry delay is reset before each wave and
    // all queries of a wave start together, so each reads the value recorded in the case line
    let batches: Vec<(u64, Vec<Q>)> = cases.iter().filter_map(|c| if let Case::Batch(t, q) = c { Some((*t, q.clone())) } else { None }).collect();
    for wave in batches.chunks(12) {
        let t0 = wave[0].0;
        let lag_us = Arc::new(AtomicU64::new(0));
        let (go_tx, go_rx) = tokio::sync::watch::channel(false);
        let ctl = Arc::new(Wave {
            ready: AtomicUsize::new(0),
            go: go_rx,
            t_hi: AtomicU64::new(t0),
            origin: std::time::Instant::now(),
            released_us: AtomicU64::new(0),
            moved_us: AtomicU64::new(u64::MAX),
        });
        let total: usize = wave.iter().map(|(_, q)| q.len()).sum();
        let res: Vec<(u64, Vec<(Obs, Seen)>)> = rt.block_on(async {
            let hs: Vec<_> = wave.iter().map(|(_, q)| tokio::spawn(run_batch(ctl.clone(), q.clone()))).collect();
            // every service is listening and every client has its socket (TCP: is connected);
            // let things settle, then release all queries at once
            let t_end = tokio::time::Instant::now() + Duration::from_secs(60);
            while ctl.ready.load(Ordering::SeqCst) < total && tokio::time::Instant::now() < t_end {
                tokio::time::sleep(Duration::from_millis(5)).await;
            }
            tokio::time::sleep(Duration::from_millis(150)).await;
            hk::set_dns_timeout_ms(t0).await;
            // scheduling lag of this process during the wave (how late a 5 ms sleep wakes up) and
            // the largest value the adaptive first-retry delay takes
            let lag = lag_us.clone();
            let ctl2 = ctl.clone();
            let wave_start = std::time::Instant::now();
            let canary = tokio::spawn(async move {
                loop {
                    let t = std::time::Instant::now();
                    tokio::time::sleep(Duration::from_millis(5)).await;
                    let over = t.elapsed().as_micros() as u64;
                    lag.fetch_max(over.saturating_sub(5000), Ordering::Relaxed);
                    let cur = hk::dns_timeout_ms().await;
                    ctl2.t_hi.fetch_max(cur, Ordering::SeqCst);
                    if cur != t0 {
                        ctl2.moved_us.fetch_min(ctl2.origin.elapsed().as_micros() as u64, Ordering::SeqCst);
                    }
                    if over > 55000 && std::env::var("C07_DEBUG").is_ok() {
                        eprintln!("canary: +{} ms at {} ms", over / 1000, wave_start.elapsed().as_millis());
                    }
                }
            });
            ctl.released_us.store(ctl.origin.elapsed().as_micros() as u64, Ordering::SeqCst);
            let _ = go_tx.send(true);
            let mut r = vec![];
            for h in hs {
                r.push(h.await.unwrap_or_default());
            }
            ctl.t_hi.fetch_max(hk::dns_timeout_ms().await, Ordering::SeqCst);
            canary.abort();
            r
        });
        let slack = 150 + 3 * (lag_us.load(Ordering::Relaxed) / 1000);
        let t_hi = ctl.t_hi.load(Ordering::SeqCst);
        stats.add("batch.max-scheduling-lag-ms", lag_us.load(Ordering::Relaxed) / 1000);
        if t_hi != t0 {
            stats.bump("batch.waves-where-the-adaptive-delay-moved");
        }
        let lag_ms = lag_us.load(Ordering::Relaxed) / 1000;
        let moved_us = ctl.moved_us.load(Ordering::SeqCst);
        for ((_, q), (last_first_us, o)) in wave.iter().zip(res.iter()) {
            stats.bump("batch");
            // every query reads the adaptive delay before its first transmission: if all first
            // transmissions of this batch reached the upstream clearly before the delay was first
            // seen to move (sampling period 5 ms + the largest lag + 20 ms margin), they all read t0
            let all_read_t0 = moved_us == u64::MAX || last_first_us + 1000 * (5 + lag_ms + 20) < moved_us;
            let t_hi_b = if all_read_t0 { t0 } else { t_hi };
            if !all_read_t0 {
                stats.bump("batch.batches-that-may-have-read-a-moved-delay");
            }
            if o.len() == q.len() {
                writeln!(out, "{}", put_batch(t0, t_hi_b, slack, q, o).0).unwrap();
            } else {
                // the batch itself failed (harness problem): report as undecodable
                writeln!(out, "4 {} {} {} {}", t0, t_hi_b, slack, q.len()).unwrap();
            }
        }
    }
    stats
}

fn main() {
    harness_main("C07", run)
}

//! C05, LLDP part (case kinds 400..499, see coq/Model/EntryC05Lldp.v).
//!  400 bytes(frame)   impl   erbium::lldp::verif::decode_frame (what the receive loop does with a frame)
//!  401 bytes(payload) impl   LldpPacket::from_wire
//!      impl = 0 n bytes(to_wire tlv)*n | 1 e | 2
//!  402 bytes(buf)     impl   LldpTlv::from_wire: 0 bytes(to_wire tlv) remaining | 1 e | 2
use crate::util::*;
use erbium::lldp::lldppkt::{LldpPacket, LldpTlv};
use erbium::pktparser::{Buffer, Deserialise, ParseError, Serialise};
use std::io::Write;

fn put_err(t: &mut Toks, e: &ParseError) {
    t.n(1).n(match e {
        ParseError::UnexpectedEndOfInput => 1,
        ParseError::InvalidArgument(_) => 2,
    });
}

/// renders a decoded packet; also runs the formatting code the receive loop runs
fn put_pkt(t: &mut Toks, r: Option<Result<LldpPacket, ParseError>>) {
    match r {
        None => {
            t.n(2);
        }
        Some(Err(e)) => {
            let _ = format!("{:?} {}", e, e);
            put_err(t, &e);
        }
        Some(Ok(p)) => {
            let wires = catch(|| {
                let s = format!("{} {:?}", p, p);
                log::info!("lldp: {}", s);
                log_like_run(&p);
                p.tlvs.iter().map(|x| x.to_wire()).collect::<Result<Vec<_>, _>>()
            });
            match wires {
                Some(Ok(ws)) => {
                    t.n(0).n(ws.len() as u64);
                    for w in ws {
                        t.bytes(&w);
                    }
                }
                _ => {
                    t.n(2);
                }
            }
        }
    }
}

/// the formatting the body of `LldpService::run` applies to a newly seen packet (the loop itself
/// needs a RawSocket message, so its log statements are repeated here on the decoded packet)
fn log_like_run(p: &LldpPacket) {
    use erbium::lldp::lldppkt::{ChassisId, ChassisIdType, PortId};
    for i in &p.tlvs {
        match i {
            LldpTlv::ChassisID(ChassisId { r#type: ChassisIdType::MacAddress, identifier })
            | LldpTlv::ChassisID(ChassisId { r#type: ChassisIdType::NetworkAddress, identifier }) => log::info!(
                "Peer Device Address: {:?}",
                identifier.iter().map(|o| format!("{:0>2x}", o)).collect::<Vec<_>>().join(":")
            ),
            LldpTlv::ChassisID(ChassisId { r#type: ChassisIdType::ChassisComponent, identifier }) => {
                log::info!("Peer Chassis Component: {:?}", identifier)
            }
            LldpTlv::ChassisID(ChassisId { identifier, .. }) => {
                log::info!("Peer Name: {}", String::from_utf8_lossy(identifier))
            }
            LldpTlv::PortID(PortId { r#type: ty, identifier }) => {
                log::info!("Peer Port {:?}: {}", ty, String::from_utf8_lossy(identifier))
            }
            other => log::info!("Peer Attribute: {:?}", other),
        }
    }
}

pub fn case_frame(frame: &[u8]) -> Toks {
    let mut t = Toks::new();
    t.n(400).bytes(frame);
    put_pkt(&mut t, catch(|| erbium::lldp::verif::decode_frame(frame)));
    t
}

pub fn case_pdu(p: &[u8]) -> Toks {
    let mut t = Toks::new();
    t.n(401).bytes(p);
    put_pkt(&mut t, catch(|| LldpPacket::from_wire(&mut Buffer::new(p))));
    t
}

pub fn case_tlv(p: &[u8]) -> Toks {
    let mut t = Toks::new();
    t.n(402).bytes(p);
    let r = catch(|| {
        let mut b = Buffer::new(p);
        let r = LldpTlv::from_wire(&mut b);
        (r, b.remaining())
    });
    match r {
        None => {
            t.n(2);
        }
        Some((Err(e), _)) => put_err(&mut t, &e),
        Some((Ok(tlv), rem)) => match catch(|| (format!("{} {:?}", tlv, tlv), tlv.to_wire())) {
            Some((_, Ok(w))) => {
                t.n(0).bytes(&w).n(rem as u64);
            }
            _ => {
                t.n(2);
            }
        },
    }
    t
}

// ---------------------------------------------------------------- generator
pub const ETH: [u8; 14] = [1, 128, 194, 0, 0, 14, 32, 12, 200, 58, 251, 201, 136, 204];

/// the two complete PDUs from the tests of lldppkt.rs (parse2 and a shortened parse_lldp_packet)
pub fn seeds() -> Vec<Vec<u8>> {
    let a: Vec<u8> = vec![
        2, 7, 4, 32, 12, 200, 58, 251, 199, 4, 3, 7, 103, 50, 6, 2, 0, 120, 8, 0, 10, 7, 115, 119, 105, 116, 99,
        104, 49, 12, 28, 78, 101, 116, 103, 101, 97, 114, 32, 71, 105, 103, 97, 98, 105, 116, 32, 83, 109, 97,
        114, 116, 32, 83, 119, 105, 116, 99, 104, 14, 4, 0, 4, 0, 4, 16, 20, 5, 1, 192, 168, 0, 238, 2, 0, 0, 0,
        13, 8, 98, 114, 111, 97, 100, 99, 111, 109, 0, 0,
    ];
    let b: Vec<u8> = vec![
        0x02, 0x07, 0x04, 0x00, 0x19, 0x2f, 0xa7, 0xb2, 0x8d, 0x04, 0x0d, 0x01, 0x55, 0x70, 0x6c, 0x69, 0x6e,
        0x6b, 0x20, 0x74, 0x6f, 0x20, 0x53, 0x31, 0x06, 0x02, 0x00, 0x78, 0x0a, 0x0c, 0x53, 0x32, 0x2e, 0x63,
        0x69, 0x73, 0x63, 0x6f, 0x2e, 0x63, 0x6f, 0x6d, 0x08, 0x13, 0x47, 0x69, 0x67, 0x61, 0x62, 0x69, 0x74,
        0x45, 0x74, 0x68, 0x65, 0x72, 0x6e, 0x65, 0x74, 0x30, 0x2f, 0x31, 0x33, 0x0e, 0x04, 0x00, 0x14, 0x00,
        0x04, 0xfe, 0x06, 0x00, 0x80, 0xc2, 0x01, 0x00, 0x01, 0xfe, 0x09, 0x00, 0x12, 0x0f, 0x01, 0x03, 0xc0,
        0x36, 0x00, 0x10, 0xaa, 0x01, 0x42, 0x00, 0x00,
    ];
    vec![a, b]
}

/// offsets of the TLV headers of a (valid) PDU
fn tlv_offsets(p: &[u8]) -> Vec<usize> {
    let mut v = vec![];
    let mut i = 0;
    while i + 2 <= p.len() {
        v.push(i);
        i += 2 + p[i + 1] as usize;
    }
    v
}

fn utf8ish(r: &mut Rng) -> Vec<u8> {
    // boundary sequences of the UTF-8 well-formedness table, and text
    const SEQ: &[&[u8]] = &[
        b"switch1", &[0x7f], &[0x80], &[0xbf], &[0xc0, 0x80], &[0xc1, 0xbf], &[0xc2, 0x80], &[0xc2, 0x7f],
        &[0xc2, 0xc0], &[0xdf, 0xbf], &[0xdf], &[0xe0, 0x9f, 0x80], &[0xe0, 0xa0, 0x80], &[0xe0, 0xbf, 0xbf],
        &[0xe0, 0xa0], &[0xe1, 0x80, 0x80], &[0xec, 0xbf, 0xbf], &[0xed, 0x9f, 0xbf], &[0xed, 0xa0, 0x80],
        &[0xee, 0x80, 0x80], &[0xef, 0xbf, 0xbf], &[0xef, 0xbf], &[0xf0, 0x8f, 0x80, 0x80], &[0xf0, 0x90, 0x80, 0x80],
        &[0xf0, 0xbf, 0xbf, 0xbf], &[0xf0, 0x90, 0x80], &[0xf1, 0x80, 0x80, 0x80], &[0xf3, 0xbf, 0xbf, 0xbf],
        &[0xf4, 0x8f, 0xbf, 0xbf], &[0xf4, 0x90, 0x80, 0x80], &[0xf5, 0x80, 0x80, 0x80], &[0xff], &[0xf4, 0x80, 0xc0, 0x80],
        &[0xe1, 0x80, 0x7f], &[0xf1, 0x80, 0x80, 0x7f], &[0xe2, 0x82, 0xac], &[0],
    ];
    let mut v = vec![];
    for _ in 0..r.range(0, 4) {
        let k = r.below(SEQ.len() as u64) as usize;
        v.extend_from_slice(SEQ[k]);
    }
    v
}

/// payload of one TLV of type `ty`, mostly valid
fn payload(r: &mut Rng, ty: u8, st: &mut Stats) -> Vec<u8> {
    match ty {
        0 => {
            if r.chance(1, 8) {
                rb(r, 1, 4)
            } else {
                vec![]
            }
        }
        1 | 2 => {
            let mut v = vec![*r.pick(&[0u8, 1, 2, 3, 4, 5, 6, 7, 8, 255])];
            v.extend(rb(r, 0, 8));
            if r.chance(1, 12) {
                v.clear();
            }
            v
        }
        3 => rp(r, &[2usize, 2, 2, 2, 0, 1, 3]),
        4 | 5 | 6 => utf8ish(r),
        7 => rp(r, &[4usize, 4, 4, 4, 0, 3, 5]),
        8 => {
            st.bump("lldp.tlv.mgmt");
            let alen = *r.pick(&[0u8, 1, 2, 5, 5, 5, 17, 32, 33, 34, 255, 128]);
            let real = if r.chance(3, 4) { alen.saturating_sub(1) as usize } else { r.range(0, 34) as usize };
            let mut v = vec![alen, *r.pick(&[1u8, 2, 0, 255])];
            v.extend(r.bytes(real));
            v.push(r.byte());
            v.extend(r.bytes(4));
            let olen = *r.pick(&[0u8, 0, 3, 8, 255]);
            v.push(olen);
            let oreal = if r.chance(3, 4) { olen as usize } else { r.range(0, 9) as usize };
            v.extend(r.bytes(oreal.min(200)));
            if r.chance(1, 4) {
                let k = r.range(0, v.len() as u64) as usize;
                v.truncate(k);
            }
            if alen == 0 {
                st.bump("lldp.tlv.mgmt.addrlen0");
            }
            v
        }
        127 => {
            st.bump("lldp.tlv.org");
            rp(r, &[0usize, 1, 2, 3, 4, 5, 9, 6])
        }
        _ => {
            st.bump("lldp.tlv.unknown");
            rb(r, 0, 6)
        }
    }
}

fn gen_pdu(r: &mut Rng, st: &mut Stats) -> Vec<u8> {
    let mut p = vec![];
    let mut types: Vec<u8> = vec![1, 2, 3];
    for _ in 0..r.range(0, 6) {
        types.push(*r.pick(&[4u8, 5, 6, 7, 8, 8, 127, 127, 9, 64, 126, 85, 1, 2, 3]));
    }
    if r.chance(1, 6) {
        let k = r.below(types.len() as u64) as usize;
        types.remove(k);
    }
    if !r.chance(1, 10) {
        types.push(0);
    }
    for ty in types {
        let pl = payload(r, ty, st);
        let pl = &pl[..pl.len().min(255)];
        // the ninth length bit (lowest bit of the first octet) is ignored by the decoder
        p.push((ty << 1) | (r.chance(1, 16) as u8));
        p.push(pl.len() as u8);
        p.extend_from_slice(pl);
    }
    if r.chance(1, 8) {
        p.extend(rb(r, 1, 5));
    }
    p
}

fn mutate(r: &mut Rng, p: &mut Vec<u8>, st: &mut Stats) {
    let offs = tlv_offsets(p);
    match r.below(6) {
        0 if !offs.is_empty() => {
            st.bump("lldp.mut.length");
            let o = *r.pick(&offs);
            let l = p[o + 1];
            let to_end = (p.len() - o - 2).min(255) as u8;
            p[o + 1] = *r.pick(&[0, 1, 254, 255, l.wrapping_add(1), l.wrapping_sub(1), to_end, to_end.wrapping_add(1), to_end.wrapping_sub(1)]);
        }
        1 => {
            st.bump("lldp.mut.truncate");
            let k = r.range(0, p.len() as u64) as usize;
            p.truncate(k);
        }
        2 if !offs.is_empty() => {
            st.bump("lldp.mut.type");
            let o = *r.pick(&offs);
            p[o] = r.byte();
        }
        3 if !p.is_empty() => {
            st.bump("lldp.mut.byte");
            let k = r.below(p.len() as u64) as usize;
            let x = r.byte();
            p[k] = *r.pick(&[0u8, 1, 2, 127, 128, 255, x]);
        }
        _ => {
            st.bump("lldp.mut.none");
        }
    }
}

fn rb(r: &mut Rng, lo: u64, hi: u64) -> Vec<u8> {
    let k = r.range(lo, hi) as usize;
    r.bytes(k)
}
fn rp(r: &mut Rng, lens: &[usize]) -> Vec<u8> {
    let k = *r.pick(lens);
    r.bytes(k)
}

fn emit(out: &mut dyn Write, t: Toks) {
    writeln!(out, "{}", t.0).unwrap();
}

fn framed(p: &[u8]) -> Vec<u8> {
    let mut f = ETH.to_vec();
    f.extend_from_slice(p);
    f
}

pub fn run(args: &Args, out: &mut dyn Write) -> Stats {
    crate::c05_log::install();
    let mut st = Stats::default();
    if let Some(path) = &args.replay {
        for line in std::fs::read_to_string(path).expect("replay file").lines() {
            let toks = parse_tokens(line);
            if toks.len() < 2 || !(400..500).contains(&toks[0]) {
                continue;
            }
            let n = toks[1] as usize;
            if toks.len() < 2 + n {
                continue;
            }
            let b: Vec<u8> = toks[2..2 + n].iter().map(|&x| x as u8).collect();
            st.bump("lldp.replay");
            match toks[0] {
                400 => emit(out, case_frame(&b)),
                401 => emit(out, case_pdu(&b)),
                _ => emit(out, case_tlv(&b)),
            }
        }
        return st;
    }
    let mut r = Rng::new(args.seed ^ 0x11d9);
    // -- systematic part: frames of every length below the header size and just above
    for k in 0..=16usize {
        st.bump("lldp.sys.shortframe");
        emit(out, case_frame(&framed(&[0, 0])[..k]));
        emit(out, case_frame(&vec![0xffu8; k]));
    }
    for seed in seeds() {
        emit(out, case_frame(&framed(&seed)));
        emit(out, case_pdu(&seed));
        // every truncation point
        for k in 0..seed.len() {
            st.bump("lldp.sys.truncate");
            emit(out, case_frame(&framed(&seed[..k])));
        }
        // every TLV length field at its boundary values
        for o in tlv_offsets(&seed) {
            let l = seed[o + 1];
            let to_end = (seed.len() - o - 2).min(255) as u8;
            for v in [0, 1, 2, 254, 255, l.wrapping_add(1), l.wrapping_sub(1), to_end, to_end.wrapping_add(1), to_end.wrapping_sub(1)] {
                st.bump("lldp.sys.length");
                let mut m = seed.clone();
                m[o + 1] = v;
                emit(out, case_frame(&framed(&m)));
            }
            // every TLV type at this position (only the quick ones that matter: 0..9, 126, 127)
            for ty in [0u8, 1, 2, 3, 4, 5, 6, 7, 8, 9, 126, 127] {
                st.bump("lldp.sys.type");
                let mut m = seed.clone();
                m[o] = ty << 1;
                emit(out, case_pdu(&m));
            }
        }
    }
    // management address TLV: every address-length octet, with and without enough octets behind it
    for alen in 0..=255u8 {
        for extra in [0usize, 1, 8, 40] {
            st.bump("lldp.sys.mgmt");
            let mut pl = vec![alen, 1];
            pl.extend(std::iter::repeat(7u8).take((alen as usize).saturating_sub(1).min(40)));
            pl.extend(std::iter::repeat(0u8).take(extra));
            let mut tlv = vec![16u8, pl.len() as u8];
            tlv.extend(&pl);
            emit(out, case_tlv(&tlv));
            let mut p = seeds()[1][..28].to_vec();
            p.extend(&tlv);
            p.extend([0, 0]);
            emit(out, case_frame(&framed(&p)));
        }
    }
    // single TLVs: every type with payload lengths 0..6
    for ty in 0..=127u8 {
        for len in 0..=6usize {
            st.bump("lldp.sys.tlv");
            let mut tlv = vec![ty << 1, len as u8];
            tlv.extend((0..len).map(|i| [2u8, 0, 1, 65, 0xc3, 0xa9, 7][i]));
            emit(out, case_tlv(&tlv));
        }
    }
    // String::from_utf8 in the string TLVs: lead octets x continuation octets at the edges of the
    // well-formedness table (thorough: every pair of octets)
    {
        const EDGE: [u8; 12] = [0x00, 0x7f, 0x80, 0x8f, 0x90, 0x9f, 0xa0, 0xbf, 0xc0, 0xc2, 0xf4, 0xff];
        let all: Vec<u8> = (0..=255u8).collect();
        let (firsts, seconds): (&[u8], &[u8]) = if args.tier == "thorough" { (&all, &all) } else { (&all, &EDGE) };
        for &b0 in firsts {
            for &b1 in seconds {
                st.bump("lldp.sys.utf8.pair");
                emit(out, case_tlv(&[10, 2, b0, b1]));
            }
        }
        for b0 in 0xe0..=0xf7u8 {
            for &b1 in EDGE.iter() {
                for &b2 in [0x7fu8, 0x80, 0xbf, 0xc0].iter() {
                    st.bump("lldp.sys.utf8.triple");
                    emit(out, case_tlv(&[12, 3, b0, b1, b2]));
                    if b0 >= 0xf0 {
                        for &b3 in [0x7fu8, 0x80, 0xbf, 0xc0].iter() {
                            st.bump("lldp.sys.utf8.quad");
                            emit(out, case_tlv(&[8, 4, b0, b1, b2, b3]));
                        }
                    }
                }
            }
        }
    }
    if args.tier == "thorough" {
        // management address TLV: every address-length octet x every number of octets behind it
        for alen in 0..=255u8 {
            for real in 0..=44usize {
                st.bump("lldp.sys.mgmt2");
                let mut tlv = vec![16u8, (2 + real) as u8, alen, 1];
                tlv.extend((0..real).map(|i| (i % 7) as u8));
                emit(out, case_tlv(&tlv));
            }
        }
        // every TLV type x payload lengths 0..9 x fill octets
        for ty in 0..=127u8 {
            for len in 0..=9usize {
                for fill in [0u8, 1, 7, 0x41, 0x80, 0xc3, 0xff] {
                    st.bump("lldp.sys.tlv2");
                    let mut tlv = vec![(ty << 1) | (fill & 1), len as u8];
                    tlv.extend(std::iter::repeat(fill).take(len));
                    tlv.extend([0, 0]);
                    emit(out, case_pdu(&tlv));
                }
            }
        }
        // every pair (TLV whose length is changed, new length) x truncation of the result
        for seed in seeds() {
            for o in tlv_offsets(&seed) {
                for v in [0u8, 1, 2, 3, 4, 5, 127, 128, 254, 255] {
                    let mut m = seed.clone();
                    m[o + 1] = v;
                    for k in (0..=m.len()).step_by(3) {
                        st.bump("lldp.sys.length-x-truncate");
                        emit(out, case_frame(&framed(&m[..k])));
                    }
                }
            }
        }
    }
    // -- random part
    for i in 0..args.n {
        let mut p = if r.chance(1, 5) { r.pick(&seeds()).clone() } else { gen_pdu(&mut r, &mut st) };
        for _ in 0..r.range(0, 2) {
            mutate(&mut r, &mut p, &mut st);
        }
        match i % 8 {
            0 => {
                st.bump("lldp.rand.pdu");
                emit(out, case_pdu(&p));
            }
            1 => {
                st.bump("lldp.rand.tlv");
                let offs = tlv_offsets(&p);
                let o = if offs.is_empty() { 0 } else { *r.pick(&offs) };
                emit(out, case_tlv(&p[o..]));
            }
            2 if r.chance(1, 4) => {
                st.bump("lldp.rand.arbitrary");
                let k = *r.pick(&[0u64, 1, 13, 14, 15, 16, 20, 60, 300, 1500]);
                emit(out, case_frame(&r.bytes(k as usize)));
            }
            _ => {
                st.bump("lldp.rand.frame");
                let mut f = framed(&p);
                if r.chance(1, 30) {
                    let k = r.range(0, 14) as usize;
                    f.truncate(k);
                }
                emit(out, case_frame(&f));
            }
        }
    }
    st
}

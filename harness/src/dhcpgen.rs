//! Shared DHCP message generators and token printers (used by C12, C05, C13).
#![allow(dead_code)]
use crate::util::*;
use erbium::dhcp::dhcppkt;
use erbium::dhcp::dhcppkt::verif as hk;

pub fn put_dhcp(t: &mut Toks, m: &dhcppkt::Dhcp, sorted: bool) {
    t.n(hk::op_raw(&m.op) as u64).n(hk::htype_raw(&m.htype) as u64);
    t.n(m.hlen as u64).n(m.hops as u64).n(m.xid as u64).n(m.secs as u64).n(m.flags as u64);
    t.ip4(m.ciaddr).ip4(m.yiaddr).ip4(m.siaddr).ip4(m.giaddr);
    t.bytes(&m.chaddr).bytes(&m.sname).bytes(&m.file);
    let mut opts: Vec<(u8, &Vec<u8>)> =
        m.options.other.iter().map(|(k, v)| (hk::option_raw(k), v)).collect();
    if sorted {
        opts.sort_by_key(|(k, _)| *k);
    }
    t.n(opts.len() as u64);
    for (k, v) in opts {
        t.n(k as u64).bytes(v);
    }
}

pub fn put_decode(t: &mut Toks, r: Option<Result<dhcppkt::Dhcp, dhcppkt::ParseError>>) {
    match r {
        None => {
            t.n(2);
        }
        Some(Err(e)) => {
            t.n(1);
            t.n(match e {
                dhcppkt::ParseError::UnexpectedEndOfInput => 1,
                dhcppkt::ParseError::InvalidPacket => 2,
                dhcppkt::ParseError::WrongMagic => 3,
            });
        }
        Some(Ok(m)) => {
            t.n(0);
            put_dhcp(t, &m, true);
        }
    }
}

/// Reads tokens back (replay): a cursor over a token vector.
pub struct Cur<'a>(pub &'a [u64], pub usize);
impl<'a> Cur<'a> {
    pub fn n(&mut self) -> Option<u64> {
        let v = self.0.get(self.1).copied();
        self.1 += 1;
        v
    }
    pub fn take(&mut self, k: usize) -> Option<Vec<u8>> {
        if self.1 + k > self.0.len() {
            return None;
        }
        let v = self.0[self.1..self.1 + k].iter().map(|&x| x as u8).collect();
        self.1 += k;
        Some(v)
    }
    pub fn bytes(&mut self) -> Option<Vec<u8>> {
        let k = self.n()? as usize;
        self.take(k)
    }
}

pub fn get_dhcp(c: &mut Cur) -> Option<dhcppkt::Dhcp> {
    let op = hk::mk_op(c.n()? as u8);
    let htype = hk::mk_htype(c.n()? as u8);
    let hlen = c.n()? as u8;
    let hops = c.n()? as u8;
    let xid = c.n()? as u32;
    let secs = c.n()? as u16;
    let flags = c.n()? as u16;
    let ciaddr = (c.n()? as u32).into();
    let yiaddr = (c.n()? as u32).into();
    let siaddr = (c.n()? as u32).into();
    let giaddr = (c.n()? as u32).into();
    let chaddr = c.bytes()?;
    let sname = c.bytes()?;
    let file = c.bytes()?;
    let nopts = c.n()?;
    let mut options = dhcppkt::DhcpOptions::default();
    for _ in 0..nopts {
        let code = c.n()? as u8;
        let v = c.bytes()?;
        options.other.insert(hk::mk_option(code), v);
    }
    Some(dhcppkt::Dhcp {
        op, htype, hlen, hops, xid, secs, flags, ciaddr, yiaddr, siaddr, giaddr, chaddr, sname, file, options,
    })
}

pub fn case_decode(b: &[u8]) -> Toks {
    let mut t = Toks::new();
    t.n(4).bytes(b);
    put_decode(&mut t, catch(|| dhcppkt::parse(b)));
    t
}

pub fn gen_value(r: &mut Rng) -> Vec<u8> {
    let len = match r.below(12) {
        0 => 0,
        1 => 1,
        2 => 254,
        3 => 255,
        4 => 256,
        5 => 510,
        6 => 511,
        7 => r.range(257, 1500),
        _ => r.range(1, 40),
    } as usize;
    let mut v = r.bytes(len);
    if r.chance(1, 4) {
        for x in v.iter_mut() {
            if r.chance(1, 3) {
                *x = *r.pick(&[0u8, 255, 53, 1]);
            }
        }
    }
    v
}

pub fn gen_nonul(r: &mut Rng, max: usize) -> Vec<u8> {
    let len = match r.below(6) {
        0 => 0,
        1 => max,
        2 => max - 1,
        _ => r.below(max as u64 + 1) as usize,
    };
    (0..len).map(|_| r.range(1, 255) as u8).collect()
}

pub fn gen_msg(r: &mut Rng) -> dhcppkt::Dhcp {
    let hlen = match r.below(6) {
        0 => 0,
        1 => 16,
        2 => 6,
        _ => r.below(17),
    } as u8;
    let mut options = dhcppkt::DhcpOptions::default();
    let nopts = match r.below(5) {
        0 => 0,
        1 => 1,
        _ => r.range(2, 12),
    };
    for _ in 0..nopts {
        let code = match r.below(6) {
            0 => 1,
            1 => 254,
            2 => 53,
            _ => r.range(1, 254),
        } as u8;
        options.other.insert(hk::mk_option(code), gen_value(r));
    }
    let word = |r: &mut Rng| -> u32 {
        match r.below(4) {
            0 => 0,
            1 => u32::MAX,
            _ => r.next() as u32,
        }
    };
    dhcppkt::Dhcp {
        op: hk::mk_op(if r.chance(1, 2) { r.byte() } else { 2 }),
        htype: hk::mk_htype(if r.chance(1, 2) { r.byte() } else { 1 }),
        hlen,
        hops: r.byte(),
        xid: word(r),
        secs: word(r) as u16,
        flags: *r.pick(&[0u16, 0x8000, 0x0080, 0xffff, 0x7fff, 1]),
        ciaddr: word(r).into(),
        yiaddr: word(r).into(),
        siaddr: word(r).into(),
        giaddr: word(r).into(),
        chaddr: r.bytes(hlen as usize),
        sname: gen_nonul(r, 64),
        file: gen_nonul(r, 128),
        options,
    }
}

/// Structure-aware mutation of a valid packet: truncation, length octets at
/// boundary values, magic damaged, hlen beyond 16, repeated option codes.
pub fn gen_wire(r: &mut Rng, stats: &mut Stats) -> Vec<u8> {
    let mut w = gen_msg(r).serialise();
    match r.below(10) {
        0 => {
            stats.bump("decode.arbitrary");
            let n = r.below(400) as usize;
            return r.bytes(n);
        }
        1 => {
            stats.bump("decode.truncated");
            let n = r.below(w.len() as u64 + 1) as usize;
            w.truncate(n);
        }
        2 => {
            stats.bump("decode.hlen");
            w[2] = *r.pick(&[0u8, 1, 15, 16, 17, 255]);
        }
        3 => {
            stats.bump("decode.magic");
            let i = 236 + r.below(4) as usize;
            if i < w.len() {
                w[i] ^= 1 << r.below(8);
            }
        }
        4 | 5 => {
            stats.bump("decode.optlen");
            // walk the options and set one length octet to a boundary value
            let mut i = 240;
            let mut lens = vec![];
            while i + 1 < w.len() && w[i] != 255 {
                if w[i] == 0 {
                    i += 1;
                    continue;
                }
                lens.push(i + 1);
                i += 2 + w[i + 1] as usize;
            }
            if !lens.is_empty() {
                let at = *r.pick(&lens);
                let old = w[at];
                w[at] = *r.pick(&[0u8, 1, 255, old.wrapping_add(1), old.wrapping_sub(1)]);
            }
        }
        6 => {
            stats.bump("decode.repeated");
            // append a repeated option (same code twice, and padding between), then the end marker
            w.pop();
            let code = r.range(1, 254) as u8;
            for _ in 0..r.range(2, 4) {
                let k = r.below(5) as usize;
                let v = r.bytes(k);
                w.push(code);
                w.push(v.len() as u8);
                w.extend(v);
                if r.chance(1, 2) {
                    w.push(0);
                }
            }
            w.push(255);
        }
        7 => {
            stats.bump("decode.noend");
            w.pop();
        }
        _ => {
            stats.bump("decode.valid");
        }
    }
    w
}


#![allow(dead_code)]
//! Shared code of the DNS codec harnesses (C14, C04, C03): token writers and
//! readers for the packet grammar, the case functions (every call into erbium
//! goes through `catch`), the generators and an independent wire encoder.
//!
//! Token grammar: see design/C14.md; summary
//!   NAME := nlabels (len byte*len)*   OPTS := nopts (code len byte*len)*
//!   RR := NAME class rrtype ttl RDATA    PKT := header.. NAME qtype qclass n RR* n RR* n RR* EDNS
//!   DEC := 0 PKT | 1 | 2   ENC := 0 BYTES | 2   PKTR := 0 PKT | 2
use crate::util::*;
use erbium::dns::dnspkt::verif as hk;
use erbium::dns::dnspkt::{
    AFSDBData, Class, DNSPkt, Domain, EdnsCode, EdnsOption, Label, NAPTRData, Opcode,
    PrefDomainData, Question, RCode, RData, RPData, SoaData, Type, RR,
};
use std::collections::HashMap;
use std::io::Write;

// ---------------------------------------------------------------------------
// names as the harness sees them
// ---------------------------------------------------------------------------

pub type Name = Vec<Vec<u8>>;

pub fn wire_len(n: &Name) -> usize {
    n.iter().map(|l| l.len() + 1).sum::<usize>() + 1
}
pub fn fits(n: &Name) -> bool {
    wire_len(n) <= 255 && n.iter().all(|l| !l.is_empty() && l.len() <= 63)
}
/// None when a label is empty (`Label::from` would assert).
pub fn try_dom(n: &Name) -> Option<Domain> {
    if n.iter().any(|l| l.is_empty()) {
        return None;
    }
    Some(Domain::from(n.iter().map(|l| Label::from(l.clone())).collect::<Vec<Label>>()))
}
pub fn dom(n: &Name) -> Domain {
    let v: Vec<Label> = n.iter().filter(|l| !l.is_empty()).map(|l| Label::from(l.clone())).collect();
    Domain::from(v)
}
pub fn labels_of(d: &Domain) -> Name {
    hk::domain_labels(d)
}

// ---------------------------------------------------------------------------
// token writers
// ---------------------------------------------------------------------------

pub fn put_name(t: &mut Toks, d: &Domain) {
    let ls = hk::domain_labels(d);
    t.n(ls.len() as u64);
    for l in &ls {
        t.bytes(l);
    }
}

pub fn put_opts(t: &mut Toks, o: &[EdnsOption]) {
    t.n(o.len() as u64);
    for x in o {
        t.n(x.code.0 as u64).bytes(&x.data);
    }
}

pub fn put_rdata(t: &mut Toks, rd: &RData) {
    match rd {
        RData::CName(d) => {
            t.n(0);
            put_name(t, d);
        }
        RData::Mx(p) => {
            t.n(1).n(p.pref as u64);
            put_name(t, &p.domain);
        }
        RData::Ns(d) => {
            t.n(2);
            put_name(t, d);
        }
        RData::Ptr(d) => {
            t.n(3);
            put_name(t, d);
        }
        RData::Soa(s) => {
            t.n(4);
            put_name(t, &s.mname);
            put_name(t, &s.rname);
            t.n(s.serial as u64).n(s.refresh as u64).n(s.retry as u64).n(s.expire as u64).n(s.minimum as u64);
        }
        RData::Opt(e) => {
            t.n(5);
            put_opts(t, hk::edns_options(e));
        }
        RData::AfsDb(a) => {
            t.n(6).n(a.subtype as u64);
            put_name(t, &a.hostname);
        }
        RData::Rp(p) => {
            t.n(7);
            put_name(t, &p.mbox);
            put_name(t, &p.txt);
        }
        RData::Rt(p) => {
            t.n(8).n(p.pref as u64);
            put_name(t, &p.domain);
        }
        RData::NaPtr(n) => {
            t.n(9).n(n.order as u64).n(n.preference as u64);
            t.bytes(&n.flags).bytes(&n.services).bytes(&n.regexp);
            put_name(t, &n.replacement);
        }
        RData::Other(v) => {
            t.n(10).bytes(v);
        }
    }
}

pub fn put_rr(t: &mut Toks, rr: &RR) {
    put_name(t, &rr.domain);
    t.n(rr.class.0 as u64).n(rr.rrtype.0 as u64).n(rr.ttl as u64);
    put_rdata(t, &rr.rdata);
}

pub fn put_pkt(t: &mut Toks, m: &DNSPkt) {
    t.n(m.qid as u64).b(m.rd).b(m.tc).b(m.aa).b(m.qr).n(m.opcode.0 as u64);
    t.b(m.cd).b(m.ad).b(m.ra).n(m.rcode.0 as u64).n(m.bufsize as u64);
    t.n(match m.edns_ver {
        None => 0,
        Some(v) => 1 + v as u64,
    });
    t.b(m.edns_do);
    put_name(t, &m.question.qdomain);
    t.n(m.question.qtype.0 as u64).n(m.question.qclass.0 as u64);
    for sec in [&m.answer, &m.nameserver, &m.additional] {
        t.n(sec.len() as u64);
        for rr in sec.iter() {
            put_rr(t, rr);
        }
    }
    match &m.edns {
        None => {
            t.n(0);
        }
        Some(e) => {
            t.n(1);
            put_opts(t, hk::edns_options(e));
        }
    }
}

pub fn put_dec(t: &mut Toks, d: &Option<Result<DNSPkt, String>>) {
    match d {
        None => {
            t.n(2);
        }
        Some(Err(_)) => {
            t.n(1);
        }
        Some(Ok(m)) => {
            t.n(0);
            put_pkt(t, m);
        }
    }
}

pub fn put_enc(t: &mut Toks, e: &Option<Vec<u8>>) {
    match e {
        None => {
            t.n(2);
        }
        Some(b) => {
            t.n(0).bytes(b);
        }
    }
}

pub fn put_pktr(t: &mut Toks, p: &Option<DNSPkt>) {
    match p {
        None => {
            t.n(2);
        }
        Some(m) => {
            t.n(0);
            put_pkt(t, m);
        }
    }
}

// ---------------------------------------------------------------------------
// token readers (replay)
// ---------------------------------------------------------------------------

pub struct Cur<'a>(pub &'a [u64], pub usize);
impl<'a> Cur<'a> {
    pub fn n(&mut self) -> Option<u64> {
        let v = self.0.get(self.1).copied();
        self.1 += 1;
        v
    }
    pub fn take(&mut self, k: usize) -> Option<Vec<u8>> {
        if self.1.checked_add(k)? > self.0.len() {
            return None;
        }
        let v = self.0[self.1..self.1 + k].iter().map(|&x| x as u8).collect();
        self.1 += k;
        Some(v)
    }
    pub fn bytes(&mut self) -> Option<Vec<u8>> {
        let k = self.n()? as usize;
        self.take(k)
    }
}

pub fn get_name(c: &mut Cur) -> Option<Domain> {
    let n = c.n()? as usize;
    if n > c.0.len() {
        return None;
    }
    let mut v = Vec::with_capacity(n);
    for _ in 0..n {
        let l = c.bytes()?;
        if l.is_empty() {
            return None;
        }
        v.push(Label::from(l));
    }
    Some(Domain::from(v))
}

pub fn get_opts(c: &mut Cur) -> Option<Vec<EdnsOption>> {
    let n = c.n()? as usize;
    if n > c.0.len() {
        return None;
    }
    let mut v = Vec::with_capacity(n);
    for _ in 0..n {
        let code = c.n()? as u16;
        let data = c.bytes()?;
        v.push(EdnsOption { code: EdnsCode(code), data });
    }
    Some(v)
}

pub fn get_rdata(c: &mut Cur) -> Option<RData> {
    Some(match c.n()? {
        0 => RData::CName(get_name(c)?),
        1 => {
            let pref = c.n()? as u16;
            RData::Mx(PrefDomainData { pref, domain: get_name(c)? })
        }
        2 => RData::Ns(get_name(c)?),
        3 => RData::Ptr(get_name(c)?),
        4 => {
            let mname = get_name(c)?;
            let rname = get_name(c)?;
            RData::Soa(SoaData {
                mname,
                rname,
                serial: c.n()? as u32,
                refresh: c.n()? as u32,
                retry: c.n()? as u32,
                expire: c.n()? as u32,
                minimum: c.n()? as u32,
            })
        }
        5 => RData::Opt(hk::mk_edns(get_opts(c)?)),
        6 => {
            let subtype = c.n()? as u16;
            RData::AfsDb(AFSDBData { subtype, hostname: get_name(c)? })
        }
        7 => {
            let mbox = get_name(c)?;
            let txt = get_name(c)?;
            RData::Rp(RPData { mbox, txt })
        }
        8 => {
            let pref = c.n()? as u16;
            RData::Rt(PrefDomainData { pref, domain: get_name(c)? })
        }
        9 => {
            let order = c.n()? as u16;
            let preference = c.n()? as u16;
            let flags = c.bytes()?;
            let services = c.bytes()?;
            let regexp = c.bytes()?;
            let replacement = get_name(c)?;
            RData::NaPtr(NAPTRData { order, preference, flags, services, regexp, replacement })
        }
        10 => RData::Other(c.bytes()?),
        _ => return None,
    })
}

pub fn get_rr(c: &mut Cur) -> Option<RR> {
    let domain = get_name(c)?;
    let class = Class(c.n()? as u16);
    let rrtype = Type(c.n()? as u16);
    let ttl = c.n()? as u32;
    let rdata = get_rdata(c)?;
    Some(RR { domain, class, rrtype, ttl, rdata })
}

fn get_section(c: &mut Cur) -> Option<Vec<RR>> {
    let n = c.n()? as usize;
    if n > c.0.len() {
        return None;
    }
    let mut v = Vec::with_capacity(n);
    for _ in 0..n {
        v.push(get_rr(c)?);
    }
    Some(v)
}

pub fn get_pkt(c: &mut Cur) -> Option<DNSPkt> {
    let qid = c.n()? as u16;
    let rd = c.n()? != 0;
    let tc = c.n()? != 0;
    let aa = c.n()? != 0;
    let qr = c.n()? != 0;
    let opcode = Opcode(c.n()? as u8);
    let cd = c.n()? != 0;
    let ad = c.n()? != 0;
    let ra = c.n()? != 0;
    let rcode = RCode(c.n()? as u16);
    let bufsize = c.n()? as u16;
    let edns_ver = match c.n()? {
        0 => None,
        v => Some((v - 1) as u8),
    };
    let edns_do = c.n()? != 0;
    let qdomain = get_name(c)?;
    let qtype = Type(c.n()? as u16);
    let qclass = Class(c.n()? as u16);
    let answer = get_section(c)?;
    let nameserver = get_section(c)?;
    let additional = get_section(c)?;
    let edns = match c.n()? {
        0 => None,
        1 => Some(hk::mk_edns(get_opts(c)?)),
        _ => return None,
    };
    Some(DNSPkt {
        qid,
        rd,
        tc,
        aa,
        qr,
        opcode,
        cd,
        ad,
        ra,
        rcode,
        bufsize,
        edns_ver,
        edns_do,
        question: Question { qdomain, qclass, qtype },
        answer,
        nameserver,
        additional,
        edns,
    })
}

// ---------------------------------------------------------------------------
// the case functions
// ---------------------------------------------------------------------------

fn rt() -> &'static tokio::runtime::Runtime {
    static RT: std::sync::OnceLock<tokio::runtime::Runtime> = std::sync::OnceLock::new();
    RT.get_or_init(|| {
        tokio::runtime::Builder::new_current_thread()
            .enable_all()
            .build()
            .expect("tokio runtime")
    })
}

fn parse_c(b: &[u8]) -> Option<Result<DNSPkt, String>> {
    catch(|| hk::parse(b))
}

/// ENC(e) then, when there are bytes, DEC(parse e)
fn put_enc_dec(t: &mut Toks, e: &Option<Vec<u8>>) {
    put_enc(t, e);
    if let Some(b) = e {
        put_dec(t, &parse_c(b));
    }
}

pub fn case1(b: &[u8]) -> Toks {
    let mut t = Toks::new();
    t.n(1).bytes(b);
    let d = parse_c(b);
    put_dec(&mut t, &d);
    if let Some(Ok(m)) = d {
        let e = catch(|| m.serialise());
        put_enc_dec(&mut t, &e);
    }
    t
}

pub fn case2(m: &DNSPkt, size: usize) -> Toks {
    let mut t = Toks::new();
    t.n(2);
    put_pkt(&mut t, m);
    t.n(size as u64);
    let e = catch(|| if size == 65536 { m.serialise() } else { m.serialise_with_size(size) });
    put_enc_dec(&mut t, &e);
    t
}

pub fn case3(prefix: &[u8], names: &[Domain]) -> Toks {
    let mut t = Toks::new();
    t.n(3).bytes(prefix).n(names.len() as u64);
    for d in names {
        put_name(&mut t, d);
    }
    let e = catch(|| hk::push_names(prefix, names));
    put_enc(&mut t, &e);
    if let Some(b) = &e {
        match catch(|| hk::get_domains(b, prefix.len(), names.len())) {
            None => {
                t.n(2);
            }
            Some(Err(_)) => {
                t.n(1);
            }
            Some(Ok(ds)) => {
                t.n(0).n(ds.len() as u64);
                for d in &ds {
                    put_name(&mut t, d);
                }
            }
        }
    }
    t
}

pub fn case5(q: &DNSPkt, tcp: bool, reply: &DNSPkt) -> Toks {
    let mut t = Toks::new();
    t.n(5);
    put_pkt(&mut t, q);
    t.b(tcp);
    put_pkt(&mut t, reply);
    let e = catch(|| {
        let msg = hk::mk_msg(q.clone(), 100, tcp);
        hk::wire_bytes(&msg, reply)
    });
    put_enc_dec(&mut t, &e);
    t
}

pub fn case6(q: &DNSPkt, ub: &[u8]) -> Toks {
    let mut t = Toks::new();
    t.n(6);
    put_pkt(&mut t, q);
    t.bytes(ub);
    let d = parse_c(ub);
    put_dec(&mut t, &d);
    if let Some(Ok(up)) = d {
        let rp = catch(|| {
            let msg = hk::mk_msg(q.clone(), 100, false);
            rt().block_on(hk::create_in_reply(&msg, &up))
        });
        put_pktr(&mut t, &rp);
        if let Some(rp) = rp {
            let e = catch(|| rp.serialise());
            put_enc_dec(&mut t, &e);
        }
    }
    t
}

pub fn case7(id: u16, q: &DNSPkt) -> Toks {
    let mut t = Toks::new();
    t.n(7).n(id as u64);
    put_pkt(&mut t, q);
    let p = catch(|| hk::create_outquery(id, q));
    put_pktr(&mut t, &p);
    t
}

pub fn case8(q: &DNSPkt, kind: u8, text: &[u8]) -> Toks {
    let mut t = Toks::new();
    t.n(8);
    put_pkt(&mut t, q);
    t.n(kind as u64).bytes(text);
    let s = String::from_utf8_lossy(text).into_owned();
    let rp = catch(|| {
        let msg = hk::mk_msg(q.clone(), 100, false);
        rt().block_on(hk::create_in_error(&msg, kind, &s))
    });
    put_pktr(&mut t, &rp);
    if let Some(rp) = rp {
        let e = catch(|| rp.serialise());
        put_enc_dec(&mut t, &e);
    }
    t
}

pub fn case9(m: &DNSPkt, dec: u32) -> Toks {
    let mut t = Toks::new();
    t.n(9);
    put_pkt(&mut t, m);
    t.n(dec as u64);
    let p = catch(|| m.clone_with_ttl_decrement(dec));
    put_pktr(&mut t, &p);
    t
}

/// kind 4: `4 tcp advertised limit` -- the limit run_udp/run_tcp hand to the serialiser.
pub fn case4(tcp: bool, advertised: u16) -> Toks {
    let mut t = Toks::new();
    t.n(4).b(tcp).n(advertised as u64);
    match catch(|| hk::response_size_limit(tcp, advertised)) {
        Some(l) => t.n(l as u64),
        None => t.n(1 << 40),
    };
    t
}

/// Re-run a case line from its input part.
pub fn replay_line(toks: &[u64]) -> Option<Toks> {
    let mut c = Cur(toks, 0);
    match c.n()? {
        1 => Some(case1(&c.bytes()?)),
        2 => {
            let m = get_pkt(&mut c)?;
            let size = c.n()? as usize;
            Some(case2(&m, size))
        }
        3 => {
            let prefix = c.bytes()?;
            let n = c.n()? as usize;
            if n > toks.len() {
                return None;
            }
            let mut names = Vec::with_capacity(n);
            for _ in 0..n {
                names.push(get_name(&mut c)?);
            }
            Some(case3(&prefix, &names))
        }
        4 => {
            let tcp = c.n()? != 0;
            let adv = c.n()? as u16;
            Some(case4(tcp, adv))
        }
        5 => {
            let q = get_pkt(&mut c)?;
            let tcp = c.n()? != 0;
            let reply = get_pkt(&mut c)?;
            Some(case5(&q, tcp, &reply))
        }
        6 => {
            let q = get_pkt(&mut c)?;
            let ub = c.bytes()?;
            Some(case6(&q, &ub))
        }
        7 => {
            let id = c.n()? as u16;
            let q = get_pkt(&mut c)?;
            Some(case7(id, &q))
        }
        8 => {
            let q = get_pkt(&mut c)?;
            let kind = c.n()? as u8;
            let text = c.bytes()?;
            Some(case8(&q, kind, &text))
        }
        9 => {
            let m = get_pkt(&mut c)?;
            let dec = c.n()? as u32;
            Some(case9(&m, dec))
        }
        _ => None,
    }
}

/// `--replay FILE` handling shared by the bins; None when not replaying.
pub fn replay(args: &Args, out: &mut dyn Write) -> Option<Stats> {
    let path = args.replay.as_ref()?;
    let mut stats = Stats::default();
    let text = match std::fs::read_to_string(path) {
        Ok(s) => s,
        Err(e) => {
            writeln!(out, "#unreadable file {}: {}", path, e).unwrap();
            return Some(stats);
        }
    };
    for line in text.lines() {
        if line.starts_with('#') || line.trim().is_empty() {
            continue;
        }
        match replay_line(&parse_tokens(line)) {
            Some(t) => writeln!(out, "{}", t.0).unwrap(),
            None => {
                let head: String = line.chars().take(200).collect();
                writeln!(out, "#unreadable {}", head).unwrap()
            }
        }
        stats.bump("replayed");
    }
    Some(stats)
}

// ---------------------------------------------------------------------------
// generators: labels, names, the per-message name pool
// ---------------------------------------------------------------------------

const SMALL_ALPHA: &[u8] = b"abcd0123";
const ODD_BYTES: &[u8] = &[0, b'.', 0xC0, b'A', b'B', b'Z', 0xFF, b'\\', b' ', 0x40, 0x80];

pub fn gen_label(r: &mut Rng) -> Vec<u8> {
    let len = match r.below(48) {
        0 => 63,
        1 => 62,
        2 => r.range(1, 63),
        3..=8 => r.range(4, 12),
        _ => r.range(1, 3),
    } as usize;
    let arbitrary = r.chance(1, 8);
    (0..len)
        .map(|_| {
            if arbitrary {
                if r.chance(1, 2) {
                    r.byte()
                } else {
                    *r.pick(ODD_BYTES)
                }
            } else {
                *r.pick(SMALL_ALPHA)
            }
        })
        .collect()
}

fn gen_short_label(r: &mut Rng) -> Vec<u8> {
    let len = r.range(1, 3) as usize;
    (0..len).map(|_| *r.pick(SMALL_ALPHA)).collect()
}

/// drop leading labels until the name fits in 255 octets
fn clip_name(mut n: Name) -> Name {
    while wire_len(&n) > 255 {
        n.remove(0);
    }
    n
}

pub fn gen_fresh_name(r: &mut Rng) -> Name {
    let k = match r.below(10) {
        0 => 0,
        1 => r.range(5, 12),
        _ => r.range(1, 4),
    };
    clip_name((0..k).map(|_| gen_label(r)).collect())
}

pub struct Pool {
    pub names: Vec<Name>,
    /// the incremental chain l0.tld, l1.l0.tld, ... in that order
    pub chain: Vec<Name>,
}

fn toggle_case(r: &mut Rng, n: &Name) -> Name {
    let mut m = n.clone();
    for l in m.iter_mut() {
        if r.chance(2, 3) {
            for b in l.iter_mut() {
                if b.is_ascii_alphabetic() && r.chance(2, 3) {
                    *b ^= 0x20;
                }
            }
        }
    }
    m
}

pub fn gen_pool(r: &mut Rng, stats: &mut Stats) -> Pool {
    let mut names: Vec<Name> = vec![];
    // (i) the incremental chain
    let depth = match r.below(12) {
        0 => 9,
        1 => 10,
        2 => 11,
        3 => 12,
        4 | 5 => r.range(28, 32),
        6 => 40,
        _ => r.range(2, 40),
    };
    let tld: Vec<u8> = if r.chance(3, 4) { b"com".to_vec() } else { gen_label(r) };
    let long_labels = r.chance(1, 12);
    let mut cur: Name = vec![tld.clone()];
    let mut chain = vec![];
    for _ in 0..depth {
        let l = if long_labels { gen_label(r) } else { gen_short_label(r) };
        let mut nxt = vec![l];
        nxt.extend(cur.iter().cloned());
        if !fits(&nxt) {
            break;
        }
        chain.push(nxt.clone());
        cur = nxt;
    }
    stats.bump(&format!(
        "pool.chain.{}",
        match chain.len() {
            0..=8 => "lt9".to_string(),
            9..=12 => chain.len().to_string(),
            13..=27 => "13to27".to_string(),
            28..=32 => "about30".to_string(),
            _ => "gt32".to_string(),
        }
    ));
    names.extend(chain.iter().cloned());
    // (ii) siblings, their parents, the root
    let mid: Vec<u8> = if r.chance(1, 2) { b"example".to_vec() } else { gen_label(r) };
    let base: Name = vec![mid, tld.clone()];
    names.push(vec![b"a".to_vec(), base[0].clone(), base[1].clone()]);
    names.push(vec![b"b".to_vec(), base[0].clone(), base[1].clone()]);
    names.push(base.clone());
    names.push(vec![tld.clone()]);
    names.push(vec![]);
    // boundary names
    if r.chance(1, 12) {
        stats.bump("pool.name255");
        let c = *r.pick(SMALL_ALPHA);
        let n: Name = vec![vec![c; 63], vec![c; 63], vec![c; 63], vec![c; 61]];
        names.push(n.clone());
        names.push(n[1..].to_vec());
        let mut o = n.clone();
        o[0] = vec![b'z'; 63];
        names.push(o);
    }
    if r.chance(1, 12) {
        stats.bump("pool.labels127");
        let n: Name = (0..127).map(|_| vec![*r.pick(b"ab")]).collect();
        names.push(n.clone());
        let k = r.range(1, 126) as usize;
        names.push(n[k..].to_vec());
        let mut o = n.clone();
        o[0] = vec![b'z'];
        names.push(o);
    }
    // (iv) same labels, different order; (v) case variants; (iii) equal names
    for _ in 0..r.range(1, 4) {
        let src = r.pick(&names).clone();
        match r.below(4) {
            0 => {
                let mut p = src.clone();
                p.reverse();
                names.push(p);
            }
            1 => {
                let mut p = src.clone();
                if p.len() > 1 {
                    let k = r.range(1, p.len() as u64 - 1) as usize;
                    p.rotate_left(k);
                }
                names.push(p);
            }
            2 => names.push(toggle_case(r, &src)),
            _ => names.push(src),
        }
    }
    // a few fresh ones, and names below them
    for _ in 0..r.below(3) {
        let f = gen_fresh_name(r);
        let mut sub = vec![gen_short_label(r)];
        sub.extend(f.iter().cloned());
        names.push(f);
        if fits(&sub) {
            names.push(sub);
        }
    }
    Pool { names, chain }
}

pub fn pick_name(r: &mut Rng, pool: &Pool) -> Name {
    if r.chance(4, 5) {
        r.pick(&pool.names).clone()
    } else {
        gen_fresh_name(r)
    }
}

// ---------------------------------------------------------------------------
// generators: records
// ---------------------------------------------------------------------------

const NAMED_TYPES: [u16; 10] = [5, 15, 2, 12, 6, 41, 18, 17, 21, 35];

fn gen_other_type(r: &mut Rng) -> u16 {
    loop {
        let t = match r.below(10) {
            0 | 1 => 1,
            2 | 3 => 16,
            4 => 28,
            5 => 33,
            6 => 255,
            7 => *r.pick(&[0u16, 65535]),
            _ => r.next() as u16,
        };
        if !NAMED_TYPES.contains(&t) {
            return t;
        }
    }
}

fn gen_ttl(r: &mut Rng) -> u32 {
    match r.below(8) {
        0 => 0,
        1 => u32::MAX,
        2 => 1,
        3 => r.range(0, 86400) as u32,
        4 => 0x8000_0000,
        _ => r.next() as u32,
    }
}

fn gen_class(r: &mut Rng) -> u16 {
    match r.below(8) {
        0 => 3,
        1 => r.next() as u16,
        2 => 255,
        _ => 1,
    }
}

fn gen_str255(r: &mut Rng) -> Vec<u8> {
    let n = match r.below(32) {
        0..=4 => 0,
        5 | 6 => 255,
        7 => 254,
        8..=10 => 1,
        _ => r.below(20),
    } as usize;
    r.bytes(n)
}

#[derive(Clone, Copy, PartialEq)]
pub enum OtherLens {
    /// {0,1,2,100,255,256,1000, small}
    Normal,
    /// only tiny rdata (many-record messages)
    Tiny,
}

fn gen_other_rdata(r: &mut Rng, lens: OtherLens) -> Vec<u8> {
    let n = match lens {
        OtherLens::Tiny => match r.below(4) {
            0 => 0,
            1 => 4,
            _ => r.below(20),
        },
        OtherLens::Normal => match r.below(50) {
            0..=4 => 0,
            5..=9 => 1,
            10..=14 => 2,
            15..=17 => 100,
            18 | 19 => 255,
            20 | 21 => 256,
            22 => 1000,
            23..=27 => 4,
            28..=30 => 16,
            _ => r.range(3, 40),
        },
    } as usize;
    r.bytes(n)
}

pub fn gen_opts(r: &mut Rng) -> Vec<EdnsOption> {
    let n = r.below(5);
    (0..n)
        .map(|_| {
            let code = match r.below(5) {
                0 => 3,
                1 => 8,
                2 => 10,
                3 => 15,
                _ => r.next() as u16,
            };
            let mut len = match r.below(6) {
                0 => 0,
                1 => 40,
                2 => 8,
                _ => r.below(41),
            } as usize;
            if code == 10 {
                len = len.max(8);
            }
            if code == 15 {
                len = len.max(2);
            }
            EdnsOption { code: EdnsCode(code), data: r.bytes(len) }
        })
        .collect()
}

/// rdata of kind `k` (grammar numbering) with the matching rrtype
pub fn gen_rdata_kind(r: &mut Rng, pool: &Pool, k: u64, lens: OtherLens) -> (u16, RData) {
    let nm = |r: &mut Rng| dom(&pick_name(r, pool));
    match k {
        0 => (5, RData::CName(nm(r))),
        1 => (15, RData::Mx(PrefDomainData { pref: r.next() as u16, domain: nm(r) })),
        2 => (2, RData::Ns(nm(r))),
        3 => (12, RData::Ptr(nm(r))),
        4 => (
            6,
            RData::Soa(SoaData {
                mname: nm(r),
                rname: nm(r),
                serial: gen_ttl(r),
                refresh: gen_ttl(r),
                retry: gen_ttl(r),
                expire: gen_ttl(r),
                minimum: gen_ttl(r),
            }),
        ),
        5 => (41, RData::Opt(hk::mk_edns(gen_opts(r)))),
        6 => (18, RData::AfsDb(AFSDBData { subtype: r.next() as u16, hostname: nm(r) })),
        7 => (17, RData::Rp(RPData { mbox: nm(r), txt: nm(r) })),
        8 => (21, RData::Rt(PrefDomainData { pref: r.next() as u16, domain: nm(r) })),
        9 => (
            35,
            RData::NaPtr(NAPTRData {
                order: r.next() as u16,
                preference: r.next() as u16,
                flags: gen_str255(r),
                services: gen_str255(r),
                regexp: gen_str255(r),
                replacement: nm(r),
            }),
        ),
        _ => (gen_other_type(r), RData::Other(gen_other_rdata(r, lens))),
    }
}

fn gen_kind(r: &mut Rng, allow_opt: bool) -> u64 {
    match r.below(100) {
        0..=27 => 10,
        28..=35 => 0,
        36..=43 => 1,
        44..=51 => 2,
        52..=59 => 3,
        60..=67 => 4,
        68..=75 => 6,
        76..=82 => 7,
        83..=89 => 8,
        90..=97 => 9,
        _ => {
            if allow_opt && r.chance(1, 8) {
                5
            } else {
                10
            }
        }
    }
}

pub fn gen_rr(r: &mut Rng, pool: &Pool, allow_opt: bool, lens: OtherLens) -> RR {
    let owner = dom(&pick_name(r, pool));
    let k = gen_kind(r, allow_opt);
    let (ty, rdata) = gen_rdata_kind(r, pool, k, lens);
    RR { domain: owner, class: Class(gen_class(r)), rrtype: Type(ty), ttl: gen_ttl(r), rdata }
}

fn other_rr(r: &mut Rng, owner: &Name, len: usize) -> RR {
    RR {
        domain: dom(owner),
        class: Class(1),
        rrtype: Type(if r.chance(3, 4) { 16 } else { gen_other_type(r) }),
        ttl: gen_ttl(r),
        rdata: RData::Other(r.bytes(len)),
    }
}

/// a record naming `owner` whose rdata names `target`
fn named_rr(r: &mut Rng, owner: &Name, target: &Name, other: &Name) -> RR {
    let t = dom(target);
    let (ty, rdata) = match r.below(9) {
        0 => (5, RData::CName(t)),
        1 => (15, RData::Mx(PrefDomainData { pref: r.next() as u16, domain: t })),
        2 => (2, RData::Ns(t)),
        3 => (12, RData::Ptr(t)),
        4 => (
            6,
            RData::Soa(SoaData {
                mname: t,
                rname: dom(other),
                serial: 1,
                refresh: 2,
                retry: 3,
                expire: 4,
                minimum: 5,
            }),
        ),
        5 => (18, RData::AfsDb(AFSDBData { subtype: 1, hostname: t })),
        6 => (17, RData::Rp(RPData { mbox: dom(other), txt: t })),
        7 => (21, RData::Rt(PrefDomainData { pref: 7, domain: t })),
        _ => (
            35,
            RData::NaPtr(NAPTRData {
                order: 1,
                preference: 2,
                flags: gen_str255(r),
                services: vec![],
                regexp: gen_str255(r),
                replacement: t,
            }),
        ),
    };
    RR { domain: dom(owner), class: Class(1), rrtype: Type(ty), ttl: gen_ttl(r), rdata }
}

// ---------------------------------------------------------------------------
// the independent wire encoder (nothing of erbium's encoder is used)
// ---------------------------------------------------------------------------

#[derive(Default, Clone)]
pub struct WireInfo {
    /// offsets of label length octets
    pub lablen: Vec<usize>,
    /// offsets of compression pointers
    pub ptrs: Vec<usize>,
    /// offsets of rdlength fields
    pub rdlens: Vec<usize>,
    /// offsets where a name starts
    pub names: Vec<usize>,
    /// offset after the question, then after every record
    pub rec_ends: Vec<usize>,
}

#[derive(Clone, Copy, PartialEq)]
pub enum CMode {
    /// no compression
    Plain,
    /// every name compressed against the longest earlier suffix (first occurrence)
    Max,
    /// per name: none / longest / any earlier occurrence of any suffix
    Random,
}

#[derive(Default, Clone, Copy)]
pub struct EncFlags {
    pub two_opt: bool,
    pub opt_first: bool,
}

struct Enc<'a> {
    w: Vec<u8>,
    dict: HashMap<Vec<u8>, Vec<u16>>,
    info: WireInfo,
    mode: CMode,
    r: &'a mut Rng,
}

impl<'a> Enc<'a> {
    fn u16(&mut self, v: u16) {
        self.w.push((v >> 8) as u8);
        self.w.push(v as u8);
    }
    fn u32(&mut self, v: u32) {
        self.w.extend_from_slice(&v.to_be_bytes());
    }
    fn name(&mut self, labels: &Name) {
        self.info.names.push(self.w.len());
        let mut full: Vec<u8> = Vec::new();
        let mut starts = Vec::with_capacity(labels.len() + 1);
        for l in labels {
            starts.push(full.len());
            let n = l.len().min(63);
            full.push(n as u8);
            full.extend_from_slice(&l[..n]);
        }
        starts.push(full.len());
        full.push(0);
        let choice = match self.mode {
            CMode::Plain => 0,
            CMode::Max => 1,
            CMode::Random => match self.r.below(4) {
                0 => 0,
                1 | 2 => 1,
                _ => 2,
            },
        };
        let mut cut = labels.len();
        let mut target: Option<u16> = None;
        if choice == 1 {
            for i in 0..labels.len() {
                if let Some(v) = self.dict.get(&full[starts[i]..]) {
                    cut = i;
                    target = Some(if self.mode == CMode::Max { v[0] } else { *self.r.pick(v) });
                    break;
                }
            }
        } else if choice == 2 {
            let cands: Vec<usize> =
                (0..labels.len()).filter(|&i| self.dict.contains_key(&full[starts[i]..])).collect();
            if !cands.is_empty() {
                let i = *self.r.pick(&cands);
                let v = &self.dict[&full[starts[i]..]];
                cut = i;
                target = Some(*self.r.pick(v));
            }
        }
        for i in 0..cut {
            let off = self.w.len();
            if off < 0x4000 {
                self.dict.entry(full[starts[i]..].to_vec()).or_default().push(off as u16);
            }
            self.info.lablen.push(off);
            self.w.extend_from_slice(&full[starts[i]..starts[i + 1]]);
        }
        match target {
            Some(t) => {
                self.info.ptrs.push(self.w.len());
                self.w.push(0xC0 | (t >> 8) as u8);
                self.w.push(t as u8);
            }
            None => self.w.push(0),
        }
    }
    fn dname(&mut self, d: &Domain) {
        self.name(&hk::domain_labels(d));
    }
    fn str255(&mut self, s: &[u8]) {
        let n = s.len().min(255);
        self.w.push(n as u8);
        self.w.extend_from_slice(&s[..n]);
    }
    fn rr(&mut self, rr: &RR) {
        self.dname(&rr.domain);
        self.u16(rr.rrtype.0);
        self.u16(rr.class.0);
        self.u32(rr.ttl);
        let rdpos = self.w.len();
        self.info.rdlens.push(rdpos);
        self.u16(0);
        match &rr.rdata {
            RData::CName(d) | RData::Ns(d) | RData::Ptr(d) => self.dname(d),
            RData::Mx(p) | RData::Rt(p) => {
                self.u16(p.pref);
                self.dname(&p.domain);
            }
            RData::AfsDb(a) => {
                self.u16(a.subtype);
                self.dname(&a.hostname);
            }
            RData::Rp(p) => {
                self.dname(&p.mbox);
                self.dname(&p.txt);
            }
            RData::Soa(s) => {
                self.dname(&s.mname);
                self.dname(&s.rname);
                self.u32(s.serial);
                self.u32(s.refresh);
                self.u32(s.retry);
                self.u32(s.expire);
                self.u32(s.minimum);
            }
            RData::NaPtr(n) => {
                self.u16(n.order);
                self.u16(n.preference);
                self.str255(&n.flags);
                self.str255(&n.services);
                self.str255(&n.regexp);
                self.dname(&n.replacement);
            }
            RData::Opt(e) => {
                for o in hk::edns_options(e) {
                    self.u16(o.code.0);
                    self.u16(o.data.len() as u16);
                    self.w.extend_from_slice(&o.data);
                }
            }
            RData::Other(v) => self.w.extend_from_slice(v),
        }
        let rdlen = self.w.len() - rdpos - 2;
        self.w[rdpos] = (rdlen >> 8) as u8;
        self.w[rdpos + 1] = rdlen as u8;
        self.info.rec_ends.push(self.w.len());
    }
}

fn opt_rr_of(m: &DNSPkt) -> Option<RR> {
    m.edns.as_ref().map(|e| RR {
        domain: Domain::from(Vec::<Label>::new()),
        class: Class(m.bufsize),
        rrtype: Type(41),
        ttl: (((m.rcode.0 >> 4) as u32) << 24)
            | ((m.edns_ver.unwrap_or(0) as u32) << 16)
            | (if m.edns_do { 0x8000 } else { 0 }),
        rdata: RData::Opt(e.clone()),
    })
}

pub fn wire_encode(r: &mut Rng, m: &DNSPkt, mode: CMode, flags: EncFlags) -> (Vec<u8>, WireInfo) {
    let mut e = Enc { w: Vec::new(), dict: HashMap::new(), info: WireInfo::default(), mode, r };
    let opt = opt_rr_of(m);
    let nopt = match (&opt, flags.two_opt) {
        (None, _) => 0,
        (Some(_), false) => 1,
        (Some(_), true) => 2,
    };
    e.u16(m.qid);
    let f1 = (m.rd as u8)
        | ((m.tc as u8) << 1)
        | ((m.aa as u8) << 2)
        | ((m.opcode.0 & 15) << 3)
        | ((m.qr as u8) << 7);
    let f2 = ((m.rcode.0 & 15) as u8) | ((m.cd as u8) << 5) | ((m.ad as u8) << 6) | ((m.ra as u8) << 7);
    e.w.push(f1);
    e.w.push(f2);
    e.u16(1);
    e.u16(m.answer.len() as u16);
    e.u16(m.nameserver.len() as u16);
    e.u16((m.additional.len() + nopt) as u16);
    e.dname(&m.question.qdomain);
    e.u16(m.question.qtype.0);
    e.u16(m.question.qclass.0);
    let qe = e.w.len();
    e.info.rec_ends.push(qe);
    for rr in &m.answer {
        e.rr(rr);
    }
    for rr in &m.nameserver {
        e.rr(rr);
    }
    if flags.opt_first {
        if let Some(o) = &opt {
            e.rr(o);
        }
    }
    for rr in &m.additional {
        e.rr(rr);
    }
    if !flags.opt_first {
        if let Some(o) = &opt {
            e.rr(o);
        }
    }
    if flags.two_opt {
        if let Some(o) = &opt {
            let mut o2 = o.clone();
            o2.class = Class(o.class.0 ^ 0x0300);
            e.rr(&o2);
        }
    }
    (e.w, e.info)
}

/// length of the fully compressed encoding and the offsets after the
/// question / after every record (an estimate of what a correct encoder emits)
pub fn est(m: &DNSPkt) -> (usize, Vec<usize>) {
    let mut dummy = Rng(0);
    let (w, info) = wire_encode(&mut dummy, m, CMode::Max, EncFlags::default());
    (w.len(), info.rec_ends)
}

// ---------------------------------------------------------------------------
// generators: packets
// ---------------------------------------------------------------------------

#[derive(Clone, Copy, PartialEq, Debug)]
pub enum Shape {
    /// 0..6 records per section
    Small,
    /// one or more sections of 20..60 records
    Medium,
    /// 1..2000 records in total, tiny rdata
    Many,
    /// hundreds of 50..300 octet records, then names first seen after 0x4000
    Cross16kMany,
    /// a few 5000 octet records, then names first seen after 0x4000
    Cross16kFew,
    /// total length near 65535
    Near64k,
    /// total length near the given value
    Target(usize),
    /// upstream reply: 0..40 records per section
    Reply,
}

fn gen_qtype(r: &mut Rng) -> u16 {
    match r.below(6) {
        0 => r.next() as u16,
        _ => *r.pick(&[1u16, 28, 255, 16, 5, 6, 12, 15, 35, 2, 33]),
    }
}

/// header, question, EDNS fields; empty sections
pub fn gen_base(r: &mut Rng, pool: &Pool) -> DNSPkt {
    let with_edns = r.chance(3, 5);
    let (edns, edns_ver, bufsize, edns_do) = if !with_edns {
        (None, None, 512u16, false)
    } else {
        let b = match r.below(6) {
            0 => 512,
            1 => 513,
            2 => 1232,
            3 => 4096,
            4 => 65535,
            _ => r.range(512, 65535),
        } as u16;
        (Some(hk::mk_edns(gen_opts(r))), Some(0u8), b, r.chance(1, 2))
    };
    let rcode = if with_edns {
        match r.below(4) {
            0 => 0,
            1 => r.below(16),
            2 => *r.pick(&[16u64, 17, 23, 255, 256, 4095, 4080, 15]),
            _ => r.below(4096),
        }
    } else {
        match r.below(3) {
            0 => 0,
            1 => *r.pick(&[1u64, 2, 3, 5, 15]),
            _ => r.below(16),
        }
    } as u16;
    DNSPkt {
        qid: r.next() as u16,
        rd: r.chance(1, 2),
        tc: r.chance(1, 6),
        aa: r.chance(1, 2),
        qr: r.chance(3, 4),
        opcode: Opcode(if r.chance(1, 2) { 0 } else { r.below(16) as u8 }),
        cd: r.chance(1, 2),
        ad: r.chance(1, 2),
        ra: r.chance(1, 2),
        rcode: RCode(rcode),
        bufsize,
        edns_ver,
        edns_do,
        question: Question {
            qdomain: dom(&pick_name(r, pool)),
            qclass: Class(gen_class(r)),
            qtype: Type(gen_qtype(r)),
        },
        answer: vec![],
        nameserver: vec![],
        additional: vec![],
        edns,
    }
}

fn fill(r: &mut Rng, pool: &Pool, sec: &mut Vec<RR>, n: u64, allow_opt: bool, lens: OtherLens) {
    for _ in 0..n {
        sec.push(gen_rr(r, pool, allow_opt, lens));
    }
}

/// consecutive records naming the chain in order, then the deepest name again
fn chain_run(r: &mut Rng, pool: &Pool) -> Vec<RR> {
    let mut v = vec![];
    let twice = r.chance(1, 4);
    let in_rdata = r.chance(1, 3);
    for (i, c) in pool.chain.iter().enumerate() {
        let rr = if in_rdata {
            let owner = if i > 0 { &pool.chain[i - 1] } else { c };
            named_rr(r, owner, c, c)
        } else if r.chance(1, 2) {
            other_rr(r, c, 4)
        } else {
            named_rr(r, c, c, c)
        };
        if twice {
            v.push(rr.clone());
        }
        v.push(rr);
    }
    if let Some(last) = pool.chain.last() {
        v.push(named_rr(r, last, last, last));
    }
    v
}

fn small_count(r: &mut Rng) -> u64 {
    if r.chance(3, 20) {
        0
    } else {
        r.range(1, 6)
    }
}

/// names not in the pool, sharing suffixes among themselves (a short chain)
fn late_names(r: &mut Rng) -> Vec<Name> {
    let k = r.range(2, 12);
    let mut cur: Name = vec![b"late".to_vec(), gen_short_label(r)];
    let mut v = vec![cur.clone()];
    for _ in 0..k {
        let mut nxt = vec![gen_short_label(r)];
        nxt.extend(cur.iter().cloned());
        v.push(nxt.clone());
        if r.chance(2, 3) {
            cur = nxt;
        }
    }
    v
}

/// records after the 16384 mark: late names as owners and inside rdata, each
/// repeated, and pool names (first seen before the mark) referenced again
fn late_records(r: &mut Rng, pool: &Pool, late: &[Name]) -> Vec<RR> {
    let mut v = vec![];
    for (i, n) in late.iter().enumerate() {
        let tgt = &late[r.below(i as u64 + 1) as usize];
        v.push(named_rr(r, n, tgt, n));
    }
    for _ in 0..r.range(2, 12) {
        let a = r.pick(late).clone();
        let b = r.pick(late).clone();
        match r.below(4) {
            0 => v.push(other_rr(r, &a, 3)),
            1 => {
                let p = r.pick(&pool.names).clone();
                v.push(named_rr(r, &p, &a, &b));
            }
            2 => {
                let p = r.pick(&pool.names).clone();
                v.push(named_rr(r, &a, &p, &p));
            }
            _ => v.push(named_rr(r, &a, &b, &a)),
        }
    }
    for _ in 0..r.range(1, 4) {
        let p = r.pick(&pool.names).clone();
        let q = r.pick(&pool.names).clone();
        v.push(named_rr(r, &p, &q, &p));
    }
    v
}

/// grow or shrink `m` so that the estimated encoded length is `target`:
/// the last additional record is an Other record (root owner) of the right size
fn pad_to(r: &mut Rng, pool: &Pool, m: &mut DNSPkt, target: usize) {
    // shrink
    loop {
        let (e, _) = est(m);
        if e + 11 <= target {
            break;
        }
        let which = r.below(3);
        let popped = match which {
            0 => m.answer.pop().is_some(),
            1 => m.nameserver.pop().is_some(),
            _ => m.additional.pop().is_some(),
        };
        if !popped && m.answer.is_empty() && m.nameserver.is_empty() && m.additional.is_empty() {
            return; // header + question + OPT alone exceed the target
        }
    }
    // grow
    loop {
        let (e, _) = est(m);
        let room = target.saturating_sub(e + 11);
        if room <= 700 {
            break;
        }
        let len = match r.below(3) {
            0 => (room / 2).min(16000),
            1 => r.range(50, 300) as usize,
            _ => (room / 3).min(1000).max(50),
        };
        let owner = r.pick(&pool.names).clone();
        let rr = other_rr(r, &owner, len);
        match r.below(3) {
            0 => m.answer.push(rr),
            1 => m.nameserver.push(rr),
            _ => m.additional.push(rr),
        }
    }
    let (e, _) = est(m);
    if e + 11 <= target {
        let len = (target - e - 11).min(65535);
        m.additional.push(other_rr(r, &vec![], len));
    }
}

pub fn gen_pkt(r: &mut Rng, shape: Shape, stats: &mut Stats) -> DNSPkt {
    let pool = gen_pool(r, stats);
    let mut m = gen_base(r, &pool);
    match shape {
        Shape::Small | Shape::Target(_) => {
            let (a, n, d) = (small_count(r), small_count(r), small_count(r));
            fill(r, &pool, &mut m.answer, a, true, OtherLens::Normal);
            fill(r, &pool, &mut m.nameserver, n, true, OtherLens::Normal);
            fill(r, &pool, &mut m.additional, d, false, OtherLens::Normal);
            if r.chance(1, 5) {
                stats.bump("pkt.chainrun");
                let run = chain_run(r, &pool);
                match r.below(3) {
                    0 => m.answer.extend(run),
                    1 => m.nameserver.extend(run),
                    _ => {
                        let at = r.below(m.additional.len() as u64 + 1) as usize;
                        let tail = m.additional.split_off(at);
                        m.additional.extend(run);
                        m.additional.extend(tail);
                    }
                }
            }
            if let Shape::Target(t) = shape {
                pad_to(r, &pool, &mut m, t);
            }
        }
        Shape::Medium => {
            let big = r.below(4);
            for s in 0..3u64 {
                let n = if big == s || big == 3 { r.range(20, 60) } else { small_count(r) };
                let sec = match s {
                    0 => &mut m.answer,
                    1 => &mut m.nameserver,
                    _ => &mut m.additional,
                };
                fill(r, &pool, sec, n, s != 2, OtherLens::Normal);
            }
        }
        Shape::Reply => {
            for s in 0..3u64 {
                let n = match r.below(40) {
                    0..=3 => 0,
                    4..=7 => r.range(7, 20),
                    8 | 9 => r.range(21, 40),
                    10 => 40,
                    11..=16 => r.range(4, 6),
                    _ => r.range(1, 3),
                };
                let sec = match s {
                    0 => &mut m.answer,
                    1 => &mut m.nameserver,
                    _ => &mut m.additional,
                };
                fill(r, &pool, sec, n, s != 2, OtherLens::Normal);
            }
            if r.chance(1, 8) {
                stats.bump("pkt.chainrun");
                let run = chain_run(r, &pool);
                m.answer.extend(run);
            }
        }
        Shape::Many => {
            let total = match r.below(4) {
                0 => 2000,
                1 => r.range(1000, 2000),
                _ => r.range(1, 2000),
            };
            let a = r.below(total + 1);
            let n = r.below(total - a + 1);
            let d = total - a - n;
            fill(r, &pool, &mut m.answer, a, true, OtherLens::Tiny);
            fill(r, &pool, &mut m.nameserver, n, true, OtherLens::Tiny);
            fill(r, &pool, &mut m.additional, d, false, OtherLens::Tiny);
        }
        Shape::Cross16kMany | Shape::Cross16kFew => {
            let (a, n, d) = (r.range(1, 4), r.range(0, 3), r.range(1, 3));
            fill(r, &pool, &mut m.answer, a, false, OtherLens::Normal);
            // filler: lower bound on its encoded size reaches 0x4000
            let mut filler = vec![];
            let mut lower = 0usize;
            let goal = 0x4000 + r.below(1500) as usize;
            while lower < goal {
                let len = if shape == Shape::Cross16kFew {
                    r.range(4900, 5100) as usize
                } else {
                    r.range(50, 300) as usize
                };
                let owner = r.pick(&pool.names).clone();
                filler.push(other_rr(r, &owner, len));
                lower += len + 12;
            }
            let mut after = match r.below(10) {
                0..=4 => {
                    stats.bump("pkt.cross16k.late_repeated");
                    let late = late_names(r);
                    late_records(r, &pool, &late)
                }
                5..=7 => {
                    // only names first seen before the mark are referenced after it
                    stats.bump("pkt.cross16k.early_only");
                    let mut v = vec![];
                    for _ in 0..r.range(3, 12) {
                        let p = r.pick(&pool.names).clone();
                        let q = r.pick(&pool.names).clone();
                        v.push(named_rr(r, &p, &q, &p));
                    }
                    v
                }
                _ => {
                    // unrelated new names, each written exactly once
                    stats.bump("pkt.cross16k.late_once");
                    let mut v = vec![];
                    for i in 0..r.range(2, 6) {
                        let a: Name = vec![format!("x{}", 2 * i).into_bytes(), format!("y{}", 2 * i).into_bytes()];
                        let b: Name = vec![format!("x{}", 2 * i + 1).into_bytes(), format!("y{}", 2 * i + 1).into_bytes()];
                        let p = r.pick(&pool.names).clone();
                        v.push(named_rr(r, &a, &b, &p));
                    }
                    v
                }
            };
            match r.below(3) {
                0 => {
                    m.answer.extend(filler);
                    let k = r.below(after.len() as u64 + 1) as usize;
                    let rest = after.split_off(k);
                    m.answer.extend(after);
                    fill(r, &pool, &mut m.nameserver, n, false, OtherLens::Normal);
                    m.nameserver.extend(rest);
                    fill(r, &pool, &mut m.additional, d, false, OtherLens::Normal);
                }
                1 => {
                    fill(r, &pool, &mut m.nameserver, n, false, OtherLens::Normal);
                    m.nameserver.extend(filler);
                    let k = r.below(after.len() as u64 + 1) as usize;
                    let rest = after.split_off(k);
                    m.nameserver.extend(after);
                    m.additional.extend(rest);
                    fill(r, &pool, &mut m.additional, d, false, OtherLens::Normal);
                }
                _ => {
                    fill(r, &pool, &mut m.nameserver, n.max(1), false, OtherLens::Normal);
                    m.additional.extend(filler);
                    m.additional.extend(after);
                    fill(r, &pool, &mut m.additional, d, false, OtherLens::Normal);
                }
            }
        }
        Shape::Near64k => {
            let (a, n, d) = (r.range(1, 4), r.range(1, 3), r.range(1, 3));
            fill(r, &pool, &mut m.answer, a, false, OtherLens::Normal);
            fill(r, &pool, &mut m.nameserver, n, false, OtherLens::Normal);
            match r.below(3) {
                0 => {
                    // one huge record
                    let owner = r.pick(&pool.names).clone();
                    let len = r.range(40000, 60000) as usize;
                    m.nameserver.push(other_rr(r, &owner, len));
                }
                1 => {
                    for _ in 0..3 {
                        let owner = r.pick(&pool.names).clone();
                        let len = r.range(5000, 16000) as usize;
                        m.answer.push(other_rr(r, &owner, len));
                    }
                }
                _ => {
                    for _ in 0..r.range(60, 120) {
                        let owner = r.pick(&pool.names).clone();
                        let len = r.range(200, 300) as usize;
                        m.nameserver.push(other_rr(r, &owner, len));
                    }
                }
            }
            let late = late_names(r);
            if r.chance(1, 2) {
                let after = late_records(r, &pool, &late);
                m.nameserver.extend(after);
            }
            fill(r, &pool, &mut m.additional, d, false, OtherLens::Normal);
            let delta: i64 = *r.pick(&[-300i64, -12, -2, -1, 0, 0, 1, 2, 12]);
            pad_to(r, &pool, &mut m, (65535 + delta) as usize);
        }
    }
    m
}

/// a well-formed query: qr false, empty sections, with/without EDNS
pub fn gen_query(r: &mut Rng, stats: &mut Stats) -> DNSPkt {
    let pool = gen_pool(r, stats);
    let mut q = gen_base(r, &pool);
    q.qr = false;
    // header bits a query has no business setting are still the client's to set: none of them may show in the reply
    q.tc = r.chance(1, 5);
    if q.tc {
        stats.bump("query.tc-set");
    }
    q.rcode = RCode(0);
    if q.edns.is_some() {
        let mut opts: Vec<EdnsOption> = match r.below(3) {
            0 => vec![],
            _ => gen_opts(r).into_iter().filter(|o| o.code.0 != 3 && o.code.0 != 10).collect(),
        };
        if r.chance(1, 3) {
            stats.bump("query.nsid");
            let at = r.below(opts.len() as u64 + 1) as usize;
            opts.insert(at, EdnsOption { code: EdnsCode(3), data: vec![] });
        }
        match r.below(4) {
            0 => {
                stats.bump("query.cookie8");
                let at = r.below(opts.len() as u64 + 1) as usize;
                opts.insert(at, EdnsOption { code: EdnsCode(10), data: r.bytes(8) });
            }
            1 => {
                stats.bump("query.cookie_server");
                let at = r.below(opts.len() as u64 + 1) as usize;
                let n = 8 + *r.pick(&[8u64, 32, 16, 9, 31]) as usize;
                opts.insert(at, EdnsOption { code: EdnsCode(10), data: r.bytes(n) });
            }
            _ => {}
        }
        q.edns = Some(hk::mk_edns(opts));
        stats.bump("query.edns");
    } else {
        stats.bump("query.noedns");
    }
    q
}

// ---------------------------------------------------------------------------
// generators: byte strings (kinds 1 and 6)
// ---------------------------------------------------------------------------

fn bump_arcount(w: &mut [u8], by: u16) {
    if w.len() >= 12 {
        let c = u16::from_be_bytes([w[10], w[11]]).wrapping_add(by);
        w[10] = (c >> 8) as u8;
        w[11] = c as u8;
    }
}

fn tiny_valid(r: &mut Rng) -> Vec<u8> {
    let mut w = vec![r.byte(), r.byte(), 0x80, 0, 0, 1, 0, 0, 0, 0, 0, 0];
    w.extend_from_slice(&[1, b'q', 3, b'c', b'o', b'm', 0, 0, 1, 0, 1]);
    w
}

/// Append two additional records to a valid message: a TXT-like record whose
/// rdata holds a pointer chain, and a record whose owner (and rdata) is a
/// pointer to the head of the chain.  `hops` pointers are followed when the
/// owner is decoded; every chain element is preceded by a label of
/// `label_len` octets (0: none).  `looped`: the last element points back at
/// the head instead of at a real name.
fn append_chain(r: &mut Rng, base: Vec<u8>, hops: usize, label_len: usize, looped: bool) -> Vec<u8> {
    let mut w = if base.len() < 12 || base.len() > 0x2000 { tiny_valid(r) } else { base };
    // area record header: root owner, type 16, class 1, ttl, rdlength
    let elems = hops.saturating_sub(1);
    let elem_len = if label_len > 0 { label_len + 1 + 2 } else { 2 };
    let area_len = 3 + elems * elem_len;
    w.push(0);
    w.extend_from_slice(&[0, 16, 0, 1, 0, 0, 0, 60]);
    w.push((area_len >> 8) as u8);
    w.push(area_len as u8);
    let a0 = w.len();
    w.extend_from_slice(&[1, b'z', 0]);
    let head_of = |k: usize| -> usize {
        // offset of element k (k = 0: the real name)
        if k == 0 {
            a0
        } else {
            a0 + 3 + (k - 1) * elem_len
        }
    };
    for k in 1..=elems {
        if label_len > 0 {
            w.push(label_len as u8);
            let c = *r.pick(SMALL_ALPHA);
            w.extend(std::iter::repeat(c).take(label_len));
        }
        let tgt = if looped && k == 1 { head_of(elems) } else { head_of(k - 1) };
        w.push(0xC0 | (tgt >> 8) as u8);
        w.push(tgt as u8);
    }
    let head = head_of(elems);
    let hp = [0xC0 | (head >> 8) as u8, head as u8];
    // referencing record
    w.extend_from_slice(&hp);
    if r.chance(1, 2) {
        w.extend_from_slice(&[0, 5, 0, 1, 0, 0, 0, 5, 0, 2]);
        w.extend_from_slice(&hp);
    } else {
        w.extend_from_slice(&[0, 1, 0, 1, 0, 0, 0, 5, 0, 4, 192, 0, 2, 1]);
    }
    bump_arcount(&mut w, 2);
    w
}

/// a valid message whose question name has `n` one-octet labels, uncompressed
fn many_labels_msg(r: &mut Rng, n: usize) -> Vec<u8> {
    let mut w = vec![r.byte(), r.byte(), 0x80, 0, 0, 1, 0, 1, 0, 0, 0, 0];
    let name_at = w.len();
    for _ in 0..n {
        w.push(1);
        w.push(*r.pick(b"ab"));
    }
    w.push(0);
    w.extend_from_slice(&[0, 1, 0, 1]);
    // one answer: owner either a pointer to the question name or the name again
    if name_at < 0x4000 && r.chance(1, 2) {
        w.extend_from_slice(&[0xC0, name_at as u8]);
    } else {
        for _ in 0..n {
            w.push(1);
            w.push(*r.pick(b"ab"));
        }
        w.push(0);
    }
    w.extend_from_slice(&[0, 1, 0, 1, 0, 0, 0, 9, 0, 4, 10, 0, 0, 1]);
    w
}

/// apply one post-encoding mutation
fn mutate(r: &mut Rng, stats: &mut Stats, pfx: &str, mut w: Vec<u8>, info: &WireInfo) -> Vec<u8> {
    let tag = |s: &str, stats: &mut Stats| stats.bump(&format!("{}.mut.{}", pfx, s));
    let set16 = |w: &mut Vec<u8>, at: usize, v: u16| {
        if at + 1 < w.len() {
            w[at] = (v >> 8) as u8;
            w[at + 1] = v as u8;
        }
    };
    let get16 = |w: &Vec<u8>, at: usize| -> u16 {
        if at + 1 < w.len() {
            u16::from_be_bytes([w[at], w[at + 1]])
        } else {
            0
        }
    };
    match r.below(16) {
        0 | 1 => {
            tag("truncate", stats);
            let n = if r.chance(1, 3) && !info.rec_ends.is_empty() {
                *r.pick(&info.rec_ends)
            } else {
                r.below(w.len() as u64 + 1) as usize
            };
            w.truncate(n.min(w.len()));
        }
        2 => {
            tag("count", stats);
            let at = *r.pick(&[6usize, 8, 10]);
            let c = get16(&w, at);
            let v = *r.pick(&[c.wrapping_add(1), c.wrapping_sub(1), 0, 65535]);
            set16(&mut w, at, v);
        }
        3 => {
            tag("tc", stats);
            if w.len() > 2 {
                w[2] |= 2;
            }
            match r.below(3) {
                0 => {}
                1 => {
                    if !info.rec_ends.is_empty() {
                        let n = *r.pick(&info.rec_ends);
                        w.truncate(n.min(w.len()));
                    }
                }
                _ => {
                    let n = r.below(w.len() as u64 + 1) as usize;
                    w.truncate(n);
                }
            }
        }
        4 | 5 => {
            tag("lablen", stats);
            if !info.lablen.is_empty() {
                let at = *r.pick(&info.lablen);
                if at < w.len() {
                    w[at] = *r.pick(&[0x40u8, 0x80, 0xC0, 63, 64, 0, 0xFF]);
                }
            }
        }
        6 => {
            tag("ptrself", stats);
            if !info.ptrs.is_empty() {
                let at = *r.pick(&info.ptrs);
                if at < 0x4000 {
                    set16(&mut w, at, 0xC000 | at as u16);
                }
            } else {
                w = append_chain(r, w, 1, 0, true);
            }
        }
        7 => {
            tag("ptrfwd", stats);
            if !info.ptrs.is_empty() {
                let at = *r.pick(&info.ptrs);
                let later: Vec<usize> =
                    info.names.iter().copied().filter(|&n| n > at && n < 0x4000).collect();
                let tgt = if later.is_empty() { (at + 2).min(0x3FFF) } else { *r.pick(&later) };
                set16(&mut w, at, 0xC000 | tgt as u16);
            }
        }
        8 => {
            tag("ptratptr", stats);
            if info.ptrs.len() >= 2 {
                let at = *r.pick(&info.ptrs);
                let tgt = *r.pick(&info.ptrs);
                if tgt < 0x4000 {
                    set16(&mut w, at, 0xC000 | tgt as u16);
                }
            } else {
                w = append_chain(r, w, 3, 0, false);
            }
        }
        9 => {
            let hops = r.range(9, 13) as usize;
            tag(&format!("chain{}", hops), stats);
            let ll = if r.chance(1, 4) { r.range(1, 20) as usize } else { 0 };
            w = append_chain(r, w, hops, ll, false);
        }
        10 => {
            let hops = r.range(126, 129) as usize;
            tag("chain126to129", stats);
            let ll = if r.chance(1, 4) { 1 } else { 0 };
            w = append_chain(r, w, hops, ll, false);
        }
        11 => {
            tag("ptrloop", stats);
            let hops = r.range(2, 6) as usize;
            let ll = if r.chance(1, 2) { 2 } else { 0 };
            w = append_chain(r, w, hops, ll, true);
        }
        12 | 13 => {
            tag("rdlen", stats);
            if !info.rdlens.is_empty() {
                let at = *r.pick(&info.rdlens);
                let c = get16(&w, at);
                let v = *r.pick(&[c.wrapping_add(1), c.wrapping_sub(1), 0, 65535]);
                set16(&mut w, at, v);
            }
        }
        14 => {
            tag("trailing", stats);
            let n = *r.pick(&[1u64, 2, 11, 50]) as usize;
            let extra = if r.chance(1, 2) { vec![0u8; n] } else { r.bytes(n) };
            w.extend(extra);
        }
        _ => {
            tag("qdcount", stats);
            set16(&mut w, 4, *r.pick(&[0u16, 2]));
        }
    }
    w
}

/// A byte string for the decoder.  `mut_pct`: chance (percent) of a mutated /
/// malformed message; `shape`: shape of the underlying packet.
pub fn gen_wire(r: &mut Rng, stats: &mut Stats, pfx: &str, shape: Shape, mut_pct: u64) -> Vec<u8> {
    let damaged = r.below(100) < mut_pct;
    // wholly crafted messages
    if shape == Shape::Small || shape == Shape::Reply {
        match r.below(40) {
            0 if damaged => {
                stats.bump(&format!("{}.mut.random", pfx));
                let n = r.below(101) as usize;
                return r.bytes(n);
            }
            1 => {
                // valid: a name of more than 255 octets by chained 63-octet labels
                let hops = *r.pick(&[5u64, 6, 9, 10, 21]) as usize;
                stats.bump(&format!("{}.longptrname.{}", pfx, hops));
                let base = tiny_valid(r);
                return append_chain(r, base, hops, 63, false);
            }
            2 => {
                let n = *r.pick(&[128u64, 129, 200, 300, 127]) as usize;
                stats.bump(&format!("{}.manylabels", pfx));
                return many_labels_msg(r, n);
            }
            _ => {}
        }
    }
    let mut m = gen_pkt(r, shape, stats);
    if m.edns.is_some() && r.chance(1, 6) {
        // on the wire a client may advertise less than 512 octets (legal, unusual): what it decodes to must
        // survive re-encoding
        m.bufsize = *r.pick(&[0u16, 1, 255, 256, 511]);
        stats.bump(&format!("{}.opt-size-below-512", pfx));
    }
    let mut flags = EncFlags::default();
    if r.chance(1, 10) {
        flags.opt_first = true;
    }
    let mut post = damaged;
    if damaged {
        match r.below(16) {
            0 => {
                stats.bump(&format!("{}.mut.optv1", pfx));
                if m.edns.is_none() {
                    m.edns = Some(hk::mk_edns(gen_opts(r)));
                }
                m.edns_ver = Some(if r.chance(2, 3) { 1 } else { r.range(1, 255) as u8 });
                post = false;
            }
            1 => {
                stats.bump(&format!("{}.mut.twoopt", pfx));
                if m.edns.is_none() {
                    m.edns = Some(hk::mk_edns(gen_opts(r)));
                    m.edns_ver = Some(0);
                }
                flags.two_opt = true;
                post = false;
            }
            2 => {
                stats.bump(&format!("{}.mut.optanswer", pfx));
                let o = RR {
                    domain: dom(&vec![]),
                    class: Class(4096),
                    rrtype: Type(41),
                    ttl: if r.chance(1, 2) { 0 } else { gen_ttl(r) },
                    rdata: RData::Opt(hk::mk_edns(gen_opts(r))),
                };
                let at = r.below(m.answer.len() as u64 + 1) as usize;
                m.answer.insert(at, o);
                post = false;
            }
            _ => {}
        }
    }
    let mode = match r.below(4) {
        0 => CMode::Plain,
        1 => CMode::Max,
        _ => CMode::Random,
    };
    stats.bump(&format!(
        "{}.enc.{}",
        pfx,
        match mode {
            CMode::Plain => "plain",
            CMode::Max => "max",
            CMode::Random => "random",
        }
    ));
    let (w, info) = wire_encode(r, &m, mode, flags);
    if post {
        mutate(r, stats, pfx, w, &info)
    } else {
        if !damaged {
            stats.bump(&format!("{}.valid", pfx));
        }
        w
    }
}

// ---------------------------------------------------------------------------
// case generators, one per kind; the bins choose the mix
// ---------------------------------------------------------------------------

pub struct Gen {
    pub r: Rng,
    pub stats: Stats,
    pub thorough: bool,
}

fn shape_tag(s: Shape) -> &'static str {
    match s {
        Shape::Small => "small",
        Shape::Medium => "medium",
        Shape::Many => "many",
        Shape::Cross16kMany => "cross16k_many",
        Shape::Cross16kFew => "cross16k_few",
        Shape::Near64k => "near64k",
        Shape::Target(_) => "target",
        Shape::Reply => "reply",
    }
}

impl Gen {
    pub fn new(args: &Args) -> Self {
        Gen { r: Rng::new(args.seed), stats: Stats::default(), thorough: args.tier == "thorough" }
    }

    /// Big shapes are scheduled, not drawn: every `period`-th case is one
    /// (quick: 10 per 1500 cases; thorough: five times as often).  Returns
    /// the ordinal of the big slot.
    /// A second schedule, for messages just above 16384 octets (they stay
    /// below 20000): as often as the big slots.
    pub fn mid_slot(&self, i: u64) -> Option<u64> {
        let period = if self.thorough { 30 } else { 150 };
        if i % period == period / 4 {
            Some(i / period)
        } else {
            None
        }
    }

    pub fn big_slot(&self, i: u64) -> Option<u64> {
        let period = if self.thorough { 30 } else { 150 };
        if i % period == period / 2 {
            Some(i / period)
        } else {
            None
        }
    }

    fn note_len(&mut self, kind: &str, len: usize) {
        if len > 0x4000 {
            self.stats.bump(&format!("{}.cross16k", kind));
        }
        if len > 20000 {
            self.stats.bump("big.gt20000");
        }
        if len > 65000 {
            self.stats.bump("big.near64k");
        }
    }

    fn normal_shape(&mut self) -> Shape {
        if self.r.chance(1, 20) {
            Shape::Medium
        } else {
            Shape::Small
        }
    }

    fn note_pkt(&mut self, kind: &str, m: &DNSPkt) {
        let (a, n, d) = (m.answer.len(), m.nameserver.len(), m.additional.len());
        if a > 0 && n > 0 && d > 0 {
            self.stats.bump(&format!("{}.all_sections_nonempty", kind));
        }
        if m.edns.is_some() {
            self.stats.bump(&format!("{}.edns", kind));
        }
        let recs = a + n + d;
        self.stats.bump(&format!(
            "{}.records.{}",
            kind,
            match recs {
                0 => "0",
                1..=18 => "1to18",
                19..=199 => "19to199",
                _ => "ge200",
            }
        ));
    }

    // ---- kind 1 -----------------------------------------------------------
    pub fn k1(&mut self, big: Option<Shape>) -> Toks {
        self.stats.bump("k1");
        let shape = big.unwrap_or_else(|| self.normal_shape());
        let pct = if big.is_some() { 30 } else { 50 };
        let w = gen_wire(&mut self.r, &mut self.stats, "k1", shape, pct);
        self.note_len("k1", w.len());
        case1(&w)
    }

    // ---- kind 2 -----------------------------------------------------------
    pub fn k2_unlimited(&mut self, big: Option<Shape>) -> Toks {
        self.stats.bump("k2");
        let shape = big.unwrap_or_else(|| self.normal_shape());
        self.stats.bump(&format!("k2.shape.{}", shape_tag(shape)));
        let m = gen_pkt(&mut self.r, shape, &mut self.stats);
        self.note_pkt("k2", &m);
        let (e, _) = est(&m);
        self.note_len("k2", e);
        case2(&m, 65536)
    }

    fn choose_size(&mut self, m: &DNSPkt, hint: Option<usize>) -> usize {
        let real = catch(|| m.serialise().len());
        let (e, ends) = est(m);
        if real.is_none() {
            self.stats.bump("k2.unlimited_serialise_panicked");
        }
        let l = real.unwrap_or(e);
        let r = &mut self.r;
        let pm = |r: &mut Rng, v: usize| -> usize {
            match r.below(3) {
                0 => v.saturating_sub(1),
                1 => v,
                _ => v + 1,
            }
        };
        let (tag, s) = if hint.is_some() && r.chance(1, 2) {
            ("hint", pm(r, hint.unwrap()))
        } else {
            match r.below(14) {
                0 => ("512", 512),
                1 => ("513", 513),
                2 => ("1232", 1232),
                3 => ("4096", 4096),
                4 => ("16384", 16384),
                5 => ("65535", 65535),
                6 => ("65536", 65536),
                7 => ("Lminus1", l.saturating_sub(1)),
                8 => ("L", l),
                9 => ("Lplus1", l + 1),
                _ => {
                    let at = *r.pick(&ends);
                    ("record_boundary", pm(r, at))
                }
            }
        };
        let s = s.max(512);
        self.stats.bump(&format!("k2.size.{}", tag));
        self.stats.bump(if s < l {
            "k2.size_lt_L"
        } else if s == l {
            "k2.size_eq_L"
        } else {
            "k2.size_gt_L"
        });
        s
    }

    fn target_shape(&mut self) -> (Shape, usize) {
        let t = *self.r.pick(&[512usize, 512, 512, 513, 1232, 1232, 4096]);
        let d = *self.r.pick(&[-12i64, -2, -1, 0, 0, 1, 2, 12]);
        (Shape::Target((t as i64 + d) as usize), t)
    }

    pub fn k2_sized(&mut self, big: Option<Shape>) -> Toks {
        self.stats.bump("k2");
        let (shape, hint) = match big {
            Some(s) => (
                s,
                match s {
                    Shape::Near64k => Some(*self.r.pick(&[65535usize, 65536])),
                    Shape::Cross16kMany | Shape::Cross16kFew => Some(16384),
                    _ => None,
                },
            ),
            None => match self.r.below(10) {
                0..=3 => {
                    let (s, t) = self.target_shape();
                    (s, Some(t))
                }
                _ => (self.normal_shape(), None),
            },
        };
        self.stats.bump(&format!("k2.shape.{}", shape_tag(shape)));
        let m = gen_pkt(&mut self.r, shape, &mut self.stats);
        self.note_pkt("k2", &m);
        let (e, _) = est(&m);
        self.note_len("k2", e);
        let size = self.choose_size(&m, hint);
        case2(&m, size)
    }

    // ---- kind 3 -----------------------------------------------------------
    pub fn k3(&mut self, huge_prefix: bool) -> Toks {
        self.stats.bump("k3");
        let r = &mut self.r;
        let (ptag, plen) = if huge_prefix {
            ("near64k", r.range(0xFFF0, 0x10010))
        } else {
            match r.below(100) {
                0 | 1 => ("0", 0),
                2..=5 => ("near16k", r.range(0x3FF0, 0x4010)),
                6..=35 => ("1", 1),
                36..=65 => ("12", 12),
                _ => ("100", 100),
            }
        };
        self.stats.bump(&format!("k3.prefix.{}", ptag));
        let prefix = r.bytes(plen as usize);
        let pool = gen_pool(r, &mut self.stats);
        let mut names: Vec<Name> = vec![];
        let style = r.below(6);
        match style {
            0 => names.extend(pool.chain.iter().cloned()),
            1 => {
                for c in &pool.chain {
                    names.push(c.clone());
                    names.push(c.clone());
                }
            }
            2 => {
                names.extend(pool.chain.iter().cloned());
                for _ in 0..r.range(1, 20) {
                    names.push(pick_name(r, &pool));
                }
            }
            3 => {
                names.extend(pool.chain.iter().rev().cloned());
                names.extend(pool.chain.iter().cloned());
            }
            4 => {
                // the chain, then every name again from the deepest up
                names.extend(pool.chain.iter().cloned());
                names.extend(pool.chain.iter().rev().cloned());
            }
            _ => {
                for _ in 0..r.range(1, 60) {
                    names.push(pick_name(r, &pool));
                }
            }
        }
        names.truncate(60);
        if names.is_empty() {
            names.push(pick_name(r, &pool));
        }
        self.stats.bump(&format!(
            "k3.style.{}",
            ["chain", "chain_twice", "chain_then_pool", "chain_rev_then_fwd", "chain_fwd_then_rev", "pool"]
                [style as usize]
        ));
        let doms: Vec<Domain> = names.iter().map(dom).collect();
        self.note_len("k3", plen as usize);
        case3(&prefix, &doms)
    }

    // ---- kind 5 -----------------------------------------------------------
    pub fn k5(&mut self, big: Option<Shape>) -> Toks {
        self.stats.bump("k5");
        let b: u16 = match big {
            Some(Shape::Near64k) => 65535,
            Some(Shape::Cross16kMany) | Some(Shape::Cross16kFew) => {
                *self.r.pick(&[16384u16, 16383, 4096, 65535])
            }
            _ => *self.r.pick(&[512u16, 512, 513, 1232, 4096, 65535]),
        };
        let mut q = gen_query(&mut self.r, &mut self.stats);
        if b == 512 && self.r.chance(1, 2) {
            q.edns = None;
            q.edns_ver = None;
            q.edns_do = false;
            q.bufsize = 512;
            self.stats.bump("k5.query_noedns");
        } else {
            if q.edns.is_none() {
                q.edns = Some(hk::mk_edns(vec![]));
                q.edns_ver = Some(0);
            }
            q.bufsize = b;
            self.stats.bump(&format!("k5.bufsize.{}", b));
        }
        let tcp = self.r.chance(7, 10);
        self.stats.bump(if tcp { "k5.tcp" } else { "k5.udp" });
        let shape = match big {
            Some(s) => s,
            None => {
                if b <= 4096 && self.r.chance(3, 4) {
                    let d = *self.r.pick(&[-12i64, -2, -1, 0, 0, 1, 2, 12, 300]);
                    Shape::Target((b as i64 + d) as usize)
                } else {
                    self.normal_shape()
                }
            }
        };
        self.stats.bump(&format!("k5.shape.{}", shape_tag(shape)));
        let mut reply = gen_pkt(&mut self.r, shape, &mut self.stats);
        reply.qr = true;
        let (e, _) = est(&reply);
        self.note_len("k5", e);
        self.stats.bump(if e > b as usize {
            "k5.reply_gt_bufsize"
        } else if e == b as usize {
            "k5.reply_eq_bufsize"
        } else {
            "k5.reply_lt_bufsize"
        });
        case5(&q, tcp, &reply)
    }

    // ---- kind 6 -----------------------------------------------------------
    pub fn k6(&mut self, big: Option<Shape>) -> Toks {
        self.stats.bump("k6");
        let q = gen_query(&mut self.r, &mut self.stats);
        let shape = big.unwrap_or(Shape::Reply);
        self.stats.bump(&format!("k6.shape.{}", shape_tag(shape)));
        let ub = gen_wire(&mut self.r, &mut self.stats, "k6", shape, 12);
        self.note_len("k6", ub.len());
        case6(&q, &ub)
    }

    // ---- kind 7 -----------------------------------------------------------
    pub fn k7(&mut self) -> Toks {
        self.stats.bump("k7");
        let id = match self.r.below(4) {
            0 => 0,
            1 => 65535,
            _ => self.r.next() as u16,
        };
        let q = gen_query(&mut self.r, &mut self.stats);
        case7(id, &q)
    }

    // ---- kind 8 -----------------------------------------------------------
    pub fn k8(&mut self) -> Toks {
        self.stats.bump("k8");
        let q = gen_query(&mut self.r, &mut self.stats);
        let kind = self.r.below(7) as u8;
        self.stats.bump(&format!("k8.kind.{}", kind));
        let n = match self.r.below(6) {
            0 => 0,
            1 => 300,
            2 => 1,
            _ => self.r.below(301),
        } as usize;
        let text: Vec<u8> = (0..n).map(|_| self.r.range(32, 126) as u8).collect();
        case8(&q, kind, &text)
    }

    // ---- kind 9 -----------------------------------------------------------
    pub fn k9(&mut self, big: Option<Shape>) -> Toks {
        self.stats.bump("k9");
        let shape = big.unwrap_or_else(|| self.normal_shape());
        let mut m = gen_pkt(&mut self.r, shape, &mut self.stats);
        if self.r.chance(1, 3) {
            // a realistic cached answer: moderate ttls
            for rr in m.answer.iter_mut().chain(m.nameserver.iter_mut()).chain(m.additional.iter_mut()) {
                rr.ttl = self.r.range(1, 86400) as u32;
            }
        }
        let min = m
            .answer
            .iter()
            .chain(m.nameserver.iter())
            .chain(m.additional.iter())
            .map(|rr| rr.ttl)
            .min()
            .unwrap_or(0);
        let (tag, dec) = match self.r.below(5) {
            0 => ("0", 0),
            1 => ("1", 1),
            2 => ("min", min),
            3 => ("min_plus_1", min.wrapping_add(1)),
            _ => ("random", self.r.next() as u32),
        };
        self.stats.bump(&format!("k9.dec.{}", tag));
        self.stats.bump(if dec > min { "k9.dec_gt_min" } else { "k9.dec_le_min" });
        let (e, _) = est(&m);
        self.note_len("k9", e);
        case9(&m, dec)
    }
}

/// Deterministic boundary cases around the compression-pointer limit: a name first written at
/// offset 0x4000 - 1, exactly 0x4000, 0x4000 + 1 and then used again whole and as the suffix of a
/// longer name (owner and rdata positions).  Exact-offset boundaries are too rare for the random
/// shapes (one in a few thousand messages), so they are enumerated.
pub fn at16k_cases(r: &mut Rng, stats: &mut Stats) -> Vec<Toks> {
    let mut out = vec![];
    let pool = gen_pool(r, stats);
    // the late name is a new label in front of the question name (known from offset 12 on), so that
    // the node of the new label itself carries the boundary offset; the encoder writes it as
    // `3 n e w` + pointer to offset 12
    let needle = b"\x03new\xc0\x0c";
    for delta in [-1i64, 0, 1] {
        for variant in 0..3u8 {
            let owner: Name = vec![b"pad".to_vec()];
            let qname: Name = vec![b"zone".to_vec(), b"example".to_vec()];
            let mut late: Name = vec![b"new".to_vec()];
            late.extend(qname.iter().cloned());
            let mut longer: Name = vec![b"a".to_vec()];
            longer.extend(late.iter().cloned());
            let mut base = gen_base(r, &pool);
            base.question.qdomain = dom(&qname);
            base.answer.clear();
            base.nameserver.clear();
            base.additional.clear();
            let tail_seed = r.fork();
            let build = |fill: usize| -> DNSPkt {
                let mut rr = tail_seed.clone();
                let mut m = base.clone();
                let mut filler = other_rr(&mut rr, &owner, fill);
                filler.rrtype = Type(16);
                m.answer.push(filler);
                match variant {
                    0 => {
                        // whole name reused as an owner, then as a suffix
                        m.answer.push(other_rr(&mut rr, &late, 3));
                        m.answer.push(other_rr(&mut rr, &late, 3));
                        m.answer.push(other_rr(&mut rr, &longer, 3));
                    }
                    1 => {
                        // suffix reused first
                        m.answer.push(other_rr(&mut rr, &late, 3));
                        m.nameserver.push(other_rr(&mut rr, &longer, 3));
                        m.additional.push(other_rr(&mut rr, &late, 3));
                    }
                    _ => {
                        // reused inside rdata
                        m.answer.push(other_rr(&mut rr, &late, 3));
                        m.answer.push(named_rr(&mut rr, &longer, &late, &late));
                        m.nameserver.push(named_rr(&mut rr, &late, &longer, &longer));
                    }
                }
                m
            };
            // measure where the late name lands with a 100-octet filler, then size the filler exactly
            let probe = build(100);
            let bytes = match catch(|| probe.serialise()) {
                Some(b) => b,
                None => continue,
            };
            let at = match bytes.windows(needle.len()).position(|w| w == needle) {
                Some(p) => p as i64,
                None => continue,
            };
            let len = 100 + (0x4000 + delta - at);
            if !(0..=65000).contains(&len) {
                continue;
            }
            stats.bump("k2.at16k");
            out.push(case2(&build(len as usize), 65536));
        }
    }
    out
}

/// Deterministic cases for the size limit in the middle of a section: a record that does NOT fit and whose
/// owner (or rdata name) brings labels the message has not seen yet, followed by smaller records that WOULD
/// fit and end in those labels.  Whatever is written after the cut must not refer to what was cut; the limit is
/// placed just below, at and just above the end of the large record, and at the end of the whole message.
pub fn dropfit_cases(r: &mut Rng, stats: &mut Stats) -> Vec<Toks> {
    let mut out = vec![];
    let pool = gen_pool(r, stats);
    for section in 0..3u8 {
        for variant in 0..2u8 {
            let qname: Name = vec![b"q".to_vec(), b"example".to_vec(), b"net".to_vec()];
            let fresh: Name = vec![b"big".to_vec(), b"glue".to_vec(), b"zone".to_vec(), b"net".to_vec()];
            let sib: Name = vec![b"a".to_vec(), b"glue".to_vec(), b"zone".to_vec(), b"net".to_vec()];
            let sib2: Name = vec![b"glue".to_vec(), b"zone".to_vec(), b"net".to_vec()];
            let mut m = gen_base(r, &pool);
            m.question.qdomain = dom(&qname);
            m.answer.clear();
            m.nameserver.clear();
            m.additional.clear();
            m.bufsize = 4096;
            let mut rr = r.fork();
            m.answer.push(other_rr(&mut rr, &qname, 4));
            let big = if variant == 0 { other_rr(&mut rr, &fresh, 300) } else { named_rr(&mut rr, &qname, &fresh, &fresh) };
            let tail = vec![other_rr(&mut rr, &sib, 4), other_rr(&mut rr, &sib2, 4), named_rr(&mut rr, &sib, &sib2, &sib)];
            let sec = match section {
                0 => &mut m.answer,
                1 => &mut m.nameserver,
                _ => &mut m.additional,
            };
            sec.push(big);
            sec.extend(tail);
            let (total, ends) = est(&m);
            // `ends`: estimated end offset of every record; the large one is the second record of the message
            let big_end = ends.get(1).copied().unwrap_or(total);
            let before = ends.first().copied().unwrap_or(12);
            for size in [before + 1, before + 40, big_end.saturating_sub(1), big_end, big_end + 1, total.saturating_sub(1), total, 512] {
                stats.bump("k2.dropfit");
                out.push(case2(&m, size.max(12)));
            }
        }
    }
    out
}

#!/bin/sh
# Offline build of the whole framework from files on disk: all Coq theories
# (full .vo), every extracted model driver, the correspondence harness.
set -e
cd "$(dirname "$0")"
export CARGO_NET_OFFLINE=true
tools/mkcoq.sh
( cd coq && timeout 3000 make -j16 )
python3 tools/prebuild.py

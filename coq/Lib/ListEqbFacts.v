(* Facts about Base.list_eqb (new shared helper; used by the C15, C16 and C06 proofs). *)
From Erbium Require Import Lib.Base.

Lemma list_eqb_Forall2 : forall {A} (eqb : A -> A -> bool) (R : A -> A -> Prop),
  (forall x y, eqb x y = true <-> R x y) ->
  forall a b, list_eqb eqb a b = true <-> Forall2 R a b.
Proof.
  intros A eqb R H a. induction a as [|x a IH]; intros [|y b]; simpl.
  - split; intro; [constructor | reflexivity].
  - split; intro E; [discriminate | inversion E].
  - split; intro E; [discriminate | inversion E].
  - rewrite andb_true_iff, H, IH. split.
    + intros [? ?]. constructor; assumption.
    + intro E. inversion E; subst. auto.
Qed.

Lemma Forall2_eq : forall {A} (a b : list A), Forall2 eq a b <-> a = b.
Proof.
  intros A a. induction a as [|x a IH]; intros [|y b].
  - split; intro; [reflexivity | constructor].
  - split; intro E; [inversion E | discriminate].
  - split; intro E; [inversion E | discriminate].
  - split; intro E.
    + inversion E; subst. f_equal. apply IH. assumption.
    + inversion E; subst. constructor; [reflexivity | apply IH; reflexivity].
Qed.

Lemma bytes_eqb_eq : forall a b : list N, list_eqb N.eqb a b = true <-> a = b.
Proof.
  intros. rewrite (list_eqb_Forall2 N.eqb eq); [apply Forall2_eq | intros; apply N.eqb_eq].
Qed.


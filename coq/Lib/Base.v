(* Shared definitions for every model: numbers are [N], byte strings are
   [list N], results of Rust code that may abort are [outcome].  Definitions
   only; lemmas live in Lib/BaseFacts.v so that models stay runnable when a
   proof breaks. *)
From Coq Require Export List NArith ZArith Bool Lia.
Export ListNotations.
Open Scope N_scope.

(* ---- outcomes of a Rust computation ---------------------------------- *)
Inductive panic_kind := IndexOOB | Overflow | UnwrapNone | Assert | Unreachable.

Inductive outcome (A : Type) :=
| Ok (a : A)
| Err (e : N)            (* small error enum, per model *)
| Panic (k : panic_kind).
Arguments Ok {A} a.
Arguments Err {A} e.
Arguments Panic {A} k.

Definition obind {A B} (o : outcome A) (f : A -> outcome B) : outcome B :=
  match o with Ok a => f a | Err e => Err e | Panic k => Panic k end.
Notation "'do' x <- o ; f" := (obind o (fun x => f))
  (at level 200, x name, o at level 100, f at level 200, right associativity).
Notation "'do' ( x , y ) <- o ; f" := (obind o (fun p => let '(x, y) := p in f))
  (at level 200, x name, y name, o at level 100, f at level 200, right associativity).

Definition is_panic {A} (o : outcome A) : bool :=
  match o with Panic _ => true | _ => false end.

Definition panic_code (k : panic_kind) : N :=
  match k with IndexOOB => 1 | Overflow => 2 | UnwrapNone => 3 | Assert => 4 | Unreachable => 5 end.

(* ---- fixed-width arithmetic as Rust's debug profile does it ----------- *)
Definition pow2 (w : N) : N := 2 ^ w.
Definition cast (w a : N) : N := a mod pow2 w.                    (* `as uW` *)
Definition add_chk (w a b : N) : outcome N :=
  if a + b <? pow2 w then Ok (a + b) else Panic Overflow.
Definition sub_chk (a b : N) : outcome N :=
  if b <=? a then Ok (a - b) else Panic Overflow.
Definition mul_chk (w a b : N) : outcome N :=
  if a * b <? pow2 w then Ok (a * b) else Panic Overflow.
Definition sat_sub (a b : N) : N := a - b.                        (* N subtraction truncates at 0 *)
Definition sat_add (w a b : N) : N := N.min (a + b) (pow2 w - 1).
Definition sat_mul (w a b : N) : N := N.min (a * b) (pow2 w - 1).

(* ---- bytes ----------------------------------------------------------- *)
Definition byte_ok (b : N) : bool := b <? 256.
Definition bytes_ok (l : list N) : bool := forallb byte_ok l.

Definition be16 (v : N) : list N := [ (v / 256) mod 256 ; v mod 256 ].
Definition be32 (v : N) : list N :=
  [ (v / 16777216) mod 256 ; (v / 65536) mod 256 ; (v / 256) mod 256 ; v mod 256 ].
Definition be_decode (l : list N) : N :=        (* big-endian fold, as `fold(0, |a,b| a<<8 + b)` without overflow *)
  fold_left (fun acc b => acc * 256 + b) l 0.

Definition lenN {A} (l : list A) : N := N.of_nat (length l).
Definition nthN {A} (l : list A) (i : N) : option A := nth_error l (N.to_nat i).
Definition takeN {A} (n : N) (l : list A) : list A := firstn (N.to_nat n) l.
Definition dropN {A} (n : N) (l : list A) : list A := skipn (N.to_nat n) l.
Definition repeatN {A} (a : A) (n : N) : list A := repeat a (N.to_nat n).

Fixpoint list_eqb {A} (eqb : A -> A -> bool) (a b : list A) : bool :=
  match a, b with
  | [], [] => true
  | x :: a', y :: b' => eqb x y && list_eqb eqb a' b'
  | _, _ => false
  end.
Definition bytes_eqb := list_eqb N.eqb.

Definition opt_eqb {A} (eqb : A -> A -> bool) (a b : option A) : bool :=
  match a, b with
  | None, None => true
  | Some x, Some y => eqb x y
  | _, _ => false
  end.

(* ---- token streams: the interface between harness and model ----------
   Every model entry point is a function [list N -> list N]: the harness
   prints a case as decimal tokens, the (extracted or in-Coq) model reads
   them back.  Structured values are length-prefixed. *)
Definition tok_take (n : N) (ts : list N) : option (list N * list N) :=
  if n <=? lenN ts then Some (takeN n ts, dropN n ts) else None.
Definition tok_one (ts : list N) : option (N * list N) :=
  match ts with t :: r => Some (t, r) | [] => None end.
Definition tok_bytes (ts : list N) : option (list N * list N) :=      (* len, then len tokens *)
  match ts with n :: r => tok_take n r | [] => None end.
Definition put_bytes (b : list N) : list N := lenN b :: b.

(* verdict tokens returned by every [check_*] entry point:
   [0; tag]        model and implementation agree; [tag] names the model branch reached
   [1; ...]        they disagree; the rest is the model's expected output
   [2; p]          the property predicate number [p] fails on the implementation's output
   [3; class]      as 2, but the failing input lies in known-finding class [class]
   [9]             the case line could not be decoded (harness bug) *)
Definition v_ok (tag : N) : list N := [0; tag].
Definition v_diff (expected : list N) : list N := 1 :: expected.
Definition v_viol (p : N) : list N := [2; p].
Definition v_known (c : N) : list N := [3; c].
Definition v_bad : list N := [9].

(* C07 (i)-(iii): the logic of crates/erbium-core/src/dns/outquery.rs.

   (i)   Demux  - the per-upstream TCP task (outquery.rs:172-371) as a state
                  machine over the events the task's [select!] can see.
                  [demux_step] is the repaired code (a colliding id is replaced
                  by the next free one and restored in the reply);
                  [odemux_step] is the code as found ([assert!] on collision,
                  F37).
   (ii)  Retry  - the UDP retransmission loop (outquery.rs:448-539).
   (iii) Accept - which UDP reply is taken as the answer, and the composition
                  into [handle_query_internal] / [create_in_error].

   What is NOT here (and cannot be): the tokio scheduler, kernel socket queues,
   the real clock.  Their behaviour enters as the INPUT of the machines: the
   order of events (Demux), the fate and delay of each transmission and the
   random jitter values (Retry).  Definitions only. *)
From Erbium Require Import Lib.Base.

(* ===================================================================== *)
(* (i) Demux                                                             *)
(* ===================================================================== *)

(* what a waiter (the oneshot channel of one [send_query_to] call) receives *)
Inductive dres :=
| RReply (orig wire rq : N)   (* Ok(reply): the reply read from the wire with id [wire] and question [rq], handed over with qid [orig] *)
| RErrSend                    (* Error::FailedToSend: connect failed *)
| RErrTcp                     (* Error::TcpConnection: connection torn down before the reply *)
| RErrInternal.               (* Error::Internal: the task is gone (channel send/recv failed), or too many in flight *)

(* the I/O result that accompanies a submission: the connect (when no
   connection is open) or the write of the query *)
Inductive io := IoOk | IoConnFail | IoWriteFail.

Inductive dev :=
| Submit (w id q : N) (i : io)  (* a TcpNameserverMessage from waiter [w] whose query carries id [id] and question [q] *)
| Arrive (wire rq : N)          (* a well-formed reply with qid [wire] and question [rq] was read from the connection *)
| ConnError.                  (* read error / EOF / either 120 s idle timer *)

Inductive dout :=
| Deliver (w : N) (r : dres)
| Sent (w wire : N).          (* the query of [w] was written to the connection with id [wire] *)

Definition io_eqb (a b : io) : bool :=
  match a, b with IoOk, IoOk | IoConnFail, IoConnFail | IoWriteFail, IoWriteFail => true | _, _ => false end.

(* ---- repaired code: qid2reply : wire id -> (caller's id, question, waiter);
   the question is kept in [d_qs], a second map with the same keys.  Questions
   are numbers: equal numbers = same class, type and (ASCII case-folded) name,
   which is what [same_question] compares. *)
Record dstate := { d_map : list (N * (N * N)); d_qs : list (N * N); d_conn : bool }.
Definition d_init : dstate := {| d_map := []; d_qs := []; d_conn := false |}.

Fixpoint map_find {V} (k : N) (m : list (N * V)) : option V :=
  match m with
  | [] => None
  | (k', v) :: r => if k' =? k then Some v else map_find k r
  end.
Fixpoint map_remove {V} (k : N) (m : list (N * V)) : list (N * V) :=
  match m with
  | [] => []
  | (k', v) :: r => if k' =? k then map_remove k r else (k', v) :: map_remove k r
  end.
Definition map_mem {V} (k : N) (m : list (N * V)) : bool :=
  match map_find k m with Some _ => true | None => false end.

(* [while self.qid2reply.contains_key(&qid) { qid = qid.wrapping_add(1) }]
   - at most |map|+1 probes are needed (pigeonhole, |map| <= 65535) *)
Fixpoint probe {V} (fuel : nat) (id : N) (m : list (N * V)) : option N :=
  match fuel with
  | O => None
  | S f => if map_mem id m then probe f ((id + 1) mod 65536) m else Some id
  end.

Definition teardown (m : list (N * (N * N))) : list dout :=
  map (fun e => Deliver (snd (snd e)) RErrTcp) m.

Definition question_matches (wire rq : N) (qs : list (N * N)) : bool :=
  match map_find wire qs with Some q => q =? rq | None => false end.

Definition demux_step (s : dstate) (e : dev) : dstate * list dout :=
  match e with
  | Submit w id q i =>
    if negb (d_conn s) && io_eqb i IoConnFail then (s, [Deliver w RErrSend])
    else if 65536 <=? lenN (d_map s)
    then ({| d_map := d_map s; d_qs := d_qs s; d_conn := true |}, [Deliver w RErrInternal])
    else
      match probe (S (length (d_map s))) id (d_map s) with
      | None => ({| d_map := d_map s; d_qs := d_qs s; d_conn := true |}, [Deliver w RErrInternal])   (* not reachable *)
      | Some wire =>
        let m' := (wire, (id, w)) :: d_map s in
        if io_eqb i IoWriteFail
        then ({| d_map := []; d_qs := []; d_conn := false |}, teardown m')
        else ({| d_map := m'; d_qs := (wire, q) :: d_qs s; d_conn := true |}, [Sent w wire])
      end
  | Arrive wire rq =>
    if d_conn s then
      match map_find wire (d_map s) with
      | Some (orig, w) =>
        if question_matches wire rq (d_qs s)
        then ({| d_map := map_remove wire (d_map s); d_qs := map_remove wire (d_qs s); d_conn := true |},
              [Deliver w (RReply orig wire rq)])
        else (s, [])                            (* "Dropping reply to a question not asked" *)
      | None => (s, [])                         (* "Sending reply to unknown request": logged, dropped *)
      end
    else (s, [])
  | ConnError =>
    if d_conn s then ({| d_map := []; d_qs := []; d_conn := false |}, teardown (d_map s)) else (s, [])
  end.

Fixpoint demux_run (s : dstate) (evs : list dev) : dstate * list dout :=
  match evs with
  | [] => (s, [])
  | e :: r =>
    let '(s1, o1) := demux_step s e in
    let '(s2, o2) := demux_run s1 r in
    (s2, o1 ++ o2)
  end.

(* ---- the code as found: qid2reply : id -> waiter, assert! on collision, replies
   matched by id alone -- *)
Record ostate := { o_map : list (N * N); o_conn : bool; o_dead : bool }.
Definition o_init : ostate := {| o_map := []; o_conn := false; o_dead := false |}.

Definition oteardown (r : dres) (m : list (N * N)) : list dout :=
  map (fun e => Deliver (snd e) r) m.

Definition odemux_step (s : ostate) (e : dev) : ostate * list dout :=
  match e with
  | Submit w id _ i =>
    if o_dead s then (s, [Deliver w RErrInternal])          (* channel send fails: the receiver is gone *)
    else if negb (o_conn s) && io_eqb i IoConnFail then (s, [Deliver w RErrSend])
    else if map_mem id (o_map s)
    then (* assert!(insert(..).is_none()) fails: the task unwinds, every oneshot sender is dropped *)
      ({| o_map := []; o_conn := false; o_dead := true |},
       Deliver w RErrInternal :: oteardown RErrInternal (o_map s))
    else
      let m' := (id, w) :: o_map s in
      if io_eqb i IoWriteFail
      then ({| o_map := []; o_conn := false; o_dead := false |}, oteardown RErrTcp m')
      else ({| o_map := m'; o_conn := true; o_dead := false |}, [Sent w id])
  | Arrive wire rq =>
    if o_dead s then (s, [])
    else if o_conn s then
      match map_find wire (o_map s) with
      | Some w => ({| o_map := map_remove wire (o_map s); o_conn := true; o_dead := false |}, [Deliver w (RReply wire wire rq)])
      | None => (s, [])
      end
    else (s, [])
  | ConnError =>
    if o_dead s then (s, [])
    else if o_conn s then ({| o_map := []; o_conn := false; o_dead := false |}, oteardown RErrTcp (o_map s))
    else (s, [])
  end.

Fixpoint odemux_run (s : ostate) (evs : list dev) : ostate * list dout :=
  match evs with
  | [] => (s, [])
  | e :: r =>
    let '(s1, o1) := odemux_step s e in
    let '(s2, o2) := odemux_run s1 r in
    (s2, o1 ++ o2)
  end.

(* no submission collides with an id in flight (and fewer than 2^16 are in flight) *)
Fixpoint no_collision (os : ostate) (evs : list dev) : Prop :=
  match evs with
  | [] => True
  | e :: r =>
    match e with
    | Submit _ id _ _ => map_mem id (o_map os) = false /\ lenN (o_map os) < 65536
    | _ => True
    end /\ no_collision (fst (odemux_step os e)) r
  end.

(* ---- observation functions used by the theorems and the entry point --- *)
Definition dres_eqb (a b : dres) : bool :=
  match a, b with
  | RReply o1 w1 q1, RReply o2 w2 q2 => (o1 =? o2) && (w1 =? w2) && (q1 =? q2)
  | RErrSend, RErrSend | RErrTcp, RErrTcp | RErrInternal, RErrInternal => true
  | _, _ => false
  end.

(* the deliveries made to waiter [w], in order *)
Fixpoint deliveries (w : N) (o : list dout) : list dres :=
  match o with
  | [] => []
  | Deliver w' r :: t => if w' =? w then r :: deliveries w t else deliveries w t
  | Sent _ _ :: t => deliveries w t
  end.

Definition pending (w : N) (m : list (N * (N * N))) : bool :=
  existsb (fun e => snd (snd e) =? w) m.
Definition opending (w : N) (m : list (N * N)) : bool :=
  existsb (fun e => snd e =? w) m.

(* the waiters submitted by an event list, with the id their query carried *)
Fixpoint submissions (evs : list dev) : list (N * N) :=
  match evs with
  | [] => []
  | Submit w id _ _ :: r => (w, id) :: submissions r
  | _ :: r => submissions r
  end.
(* ... and the question it asked *)
Fixpoint questions (evs : list dev) : list (N * N) :=
  match evs with
  | [] => []
  | Submit w _ q _ :: r => (w, q) :: questions r
  | _ :: r => questions r
  end.

(* every reply that arrives under an id in flight answers the question that was sent
   under that id (what an upstream that may delay, reorder, drop and repeat within the
   lifetime of an id does; the repaired code DROPS the others, the code as found did not) *)
Fixpoint well_answered (s : dstate) (evs : list dev) : Prop :=
  match evs with
  | [] => True
  | e :: r =>
    match e with
    | Arrive wire rq =>
      match map_find wire (d_map s) with
      | Some _ => question_matches wire rq (d_qs s) = true
      | None => True
      end
    | _ => True
    end /\ well_answered (fst (demux_step s e)) r
  end.

(* ===================================================================== *)
(* (ii) Retry: send_udp                                                  *)
(* ===================================================================== *)
(* Times in nanoseconds (the granularity of [Duration]).  The fate of the
   k-th transmission (each goes out on its own connected socket, so a reply or
   ICMP error can only complete the attempt it belongs to): *)
Inductive fate :=
| Lost                        (* nothing ever comes back *)
| Reply (d : N)               (* a parseable reply arrives d ns after the transmission *)
| SockErr (d : N).            (* recv fails / unparseable datagram after d ns: Some(Err(e)) *)

Inductive uout :=
| UAnswered (attempt at_ns sent : N)   (* reply of transmission [attempt] (1-based) taken at time [at_ns]; [sent] transmissions made *)
| UFailed (attempt at_ns sent : N)     (* Some(Err(e)) => Err(e) *)
| UTimeout (at_ns sent : N).           (* Error::Timeout *)

(* earliest completion among the pending attempts: (attempt, time, is_reply) *)
Fixpoint earliest (l : list (N * N * bool)) : option (N * N * bool) :=
  match l with
  | [] => None
  | (i, a, k) :: r =>
    match earliest r with
    | None => Some (i, a, k)
    | Some (j, b, k') => if a <=? b then Some (i, a, k) else Some (j, b, k')
    end
  end.

Definition next_timeout (timeout j : N) : N := timeout + timeout / 2 + j mod timeout.
  (* timeout += (timeout / 2) + jitter,  jitter = random_range(0..timeout) *)

Fixpoint retry_loop (fuel : nat) (fates : list fate) (jit : list N)
         (now timeout n : N) (pend : list (N * N * bool)) : uout :=
  match fuel with
  | O => UTimeout now n                     (* not reachable with fuel 4 *)
  | S f =>
    let n' := n + 1 in                      (* attempts.push(send_single_udp(..)) *)
    let pend' := match nth_error fates (N.to_nat n) with
                 | Some (Reply d) => pend ++ [(n', now + d, true)]
                 | Some (SockErr d) => pend ++ [(n', now + d, false)]
                 | _ => pend
                 end in
    let deadline := now + timeout in        (* tokio::time::sleep(timeout) *)
    match earliest pend' with
    | Some (i, a, k) =>
      if a <=? deadline
      then (if k then UAnswered i a n' else UFailed i a n')
      else if 3 <? n' then UTimeout deadline n'
      else retry_loop f fates (tl jit) deadline (next_timeout timeout (hd 0 jit)) n' pend'
    | None =>
      if 3 <? n' then UTimeout deadline n'  (* attempts.len() > 3 *)
      else retry_loop f fates (tl jit) deadline (next_timeout timeout (hd 0 jit)) n' pend'
    end
  end.

Definition retry (fates : list fate) (jit : list N) (t0 : N) : uout :=
  retry_loop 4 fates jit 0 t0 0 [].

Definition transmissions (u : uout) : N :=
  match u with UAnswered _ _ s | UFailed _ _ s | UTimeout _ s => s end.
Definition elapsed (u : uout) : N :=
  match u with UAnswered _ a _ | UFailed _ a _ | UTimeout a _ => a end.
Definition is_timeout (u : uout) : bool := match u with UTimeout _ _ => true | _ => false end.

(* none of the (at most four) transmissions is ever answered *)
Definition all_lost (fates : list fate) : bool :=
  forallb (fun k => match nth_error fates k with Some Lost | None => true | _ => false end)
          [0%nat; 1%nat; 2%nat; 3%nat].

(* the clamp applied when the global estimate is updated (outquery.rs:483-485, 503-505) *)
Definition MIN_TIMEOUT : N := 300000000.
Definition MAX_TIMEOUT : N := 2000000000.
Definition clamp_timeout (t : N) : N := N.max (N.min t MAX_TIMEOUT) MIN_TIMEOUT.

(* the update of the global estimate when a query that needed more than one attempt is
   answered (outquery.rs:515-555): [initial] = the value the query started with, [cur] = the
   value now, [dur] = how long the winning attempt took, [attempts] = attempts outstanding *)
Definition adapt (initial cur dur attempts : N) : N :=
  if attempts <=? 1 then cur
  else if dur <? initial
       then (if dur <=? cur then clamp_timeout ((dur * 10 + cur * 990) / 1000) else cur)
       else clamp_timeout (N.max cur (dur * 100)).     (* dur * (BASE + HEADROOM/BASE), integer division *)

(* ===================================================================== *)
(* (iii) Accept, and the composition                                     *)
(* ===================================================================== *)
Inductive verdict := Accept | RetryTcp.

(* handle_query_internal, Protocol::Udp arm: outquery.rs:551-577 *)
Definition accept_udp (id rid : N) (tc : bool) : verdict :=
  if negb (rid =? id) then RetryTcp        (* "smells like a kaminsky attack": disregard, retry over TCP *)
  else if tc then RetryTcp                 (* truncated: retry over TCP *)
  else Accept.

Inductive udp_res := UdpReply (rid : N) (tc : bool) | UdpErr (e : N).
(* error numbering = verif::error_code: 0 Timeout 1 Send 2 Recv 3 TcpConnection 4 Parse 5 Internal *)
Inductive oq_result := OqReply (rid : N) (via_tcp : bool) | OqErr (e : N).

Definition of_tcp (t : dres) : oq_result :=
  match t with
  | RReply orig _ _ => OqReply orig true
  | RErrSend => OqErr 1
  | RErrTcp => OqErr 3
  | RErrInternal => OqErr 5
  end.

Definition udp_res_of (u : uout) (rid : N) (tc : bool) : udp_res :=
  match u with
  | UAnswered _ _ _ => UdpReply rid tc
  | UFailed _ _ _ => UdpErr 2
  | UTimeout _ _ => UdpErr 0
  end.

Definition handle_query_model (client_tcp : bool) (id : N) (u : udp_res) (t : dres) : oq_result :=
  if client_tcp then of_tcp t
  else match u with
       | UdpErr e => OqErr e
       | UdpReply rid tc =>
         match accept_udp id rid tc with
         | Accept => OqReply rid false
         | RetryTcp => of_tcp t
         end
       end.

(* The question whose answer ends up in the reply to the client ([None]: no upstream
   answer, the client gets SERVFAIL).  Over UDP every attempt has its own connected
   socket, so the reply taken was sent in response to this query's own transmission and
   (honest upstream) answers its question [q]; over the shared TCP connection it is
   whatever reply the Demux task handed over, with the question [rq] it carries. *)
Definition answered_question (client_tcp : bool) (id q : N) (u : udp_res) (t : dres) : option N :=
  let via_tcp := match t with RReply _ _ rq => Some rq | _ => None end in
  if client_tcp then via_tcp
  else match u with
       | UdpErr _ => None
       | UdpReply rid tc =>
         match accept_udp id rid tc with
         | Accept => Some q
         | RetryTcp => via_tcp
         end
       end.

(* recv_in_query / create_in_reply / create_in_error (dns/mod.rs:470-600):
   the reply carries the client's id; every out-query error is SERVFAIL *)
Definition SERVFAIL : N := 2.
Record in_reply := { ir_qid : N; ir_rcode : N; ir_from_upstream : bool }.
Definition in_reply_of (client_qid up_rcode : N) (r : oq_result) : in_reply :=
  match r with
  | OqReply _ _ => {| ir_qid := client_qid; ir_rcode := up_rcode; ir_from_upstream := true |}
  | OqErr _ => {| ir_qid := client_qid; ir_rcode := SERVFAIL; ir_from_upstream := false |}
  end.

(* Token-level entry point for property C20 (see harness/src/bin/c20.rs).
   Case kinds:
     1 via n row* status utf8 body     the lease listing
         via    0 = http::leases_to_json on the rows, 1 = GET /api/v1/leases.json through serve_request
                on a store holding exactly the rows
         row    ip cid(len bytes) start expire has_host [host(len code points)]
         status HTTP status (200 for via 0); utf8 = 1 when the body is valid UTF-8;
         body   len code points
     3 now n expiry* impl               get_pool_metrics; impl = 0 active expired | 1 (error) | 2 (panic)
   Definitions only. *)
From Erbium Require Import Lib.Base Model.Json Model.Http.

Definition tok_row (ts : list N) : option (lease * list N) :=
  match ts with
  | ip :: r =>
    match tok_bytes r with
    | Some (cid, st :: ex :: hh :: r2) =>
      if hh =? 0 then Some ({| l_ip := ip; l_cid := cid; l_start := st; l_expire := ex; l_host := None |}, r2)
      else match tok_bytes r2 with
           | Some (h, r3) => Some ({| l_ip := ip; l_cid := cid; l_start := st; l_expire := ex; l_host := Some h |}, r3)
           | None => None
           end
    | _ => None
    end
  | [] => None
  end.
Fixpoint tok_rows (n : nat) (ts : list N) : option (list lease * list N) :=
  match n with
  | O => Some ([], ts)
  | S k => match tok_row ts with
           | Some (x, r) => match tok_rows k r with Some (xs, r2) => Some (x :: xs, r2) | None => None end
           | None => None
           end
  end.

(* what the property wants to read back for a stored lease *)
Definition spec_entry (l : lease) : entry :=
  {| e_ip := spec_ip_text (l_ip l); e_cid := spec_cid_text (l_cid l);
     e_start := l_start l; e_expire := l_expire l; e_host := l_host l |}.
Definition entry_eqb (a b : entry) : bool :=
  str_eqb (e_ip a) (e_ip b) && str_eqb (e_cid a) (e_cid b) && (e_start a =? e_start b)
  && (e_expire a =? e_expire b) && opt_eqb str_eqb (e_host a) (e_host b).

Definition wf_lease (l : lease) : bool :=
  (l_ip l <? 2 ^ 32) && forallb (fun b => b <? 256) (l_cid l) && (l_start l <? 2 ^ 32) && (l_expire l <? 2 ^ 32)
  && match l_host l with Some h => forallb (fun c => c <=? 1114111) h | None => true end.

Definition needs_escape (c : N) : bool := (c <? 32) || (c =? 34) || (c =? 92).

Definition count (f : N -> bool) (l : list N) : N := lenN (filter f l).

(* one entry per stored lease: the entries are the rows' entries in SOME order (the property does not fix
   the order; the order the handler produces is compared separately, as a correspondence) *)
Fixpoint remove_entry (x : entry) (l : list entry) : option (list entry) :=
  match l with
  | [] => None
  | y :: r => if entry_eqb x y then Some r
              else match remove_entry x r with Some r' => Some (y :: r') | None => None end
  end.
Fixpoint same_entries (a b : list entry) : bool :=
  match a with
  | [] => match b with [] => true | _ => false end
  | x :: r => match remove_entry x b with Some b' => same_entries r b' | None => false end
  end.

Definition check_listing (rows : list lease) (status utf8 : N) (body : list N) : list N :=
  if negb (status =? 200) then v_viol 3
  else if utf8 =? 0 then v_viol 1
  else match json_parse body with
       | None => v_viol 1
       | Some j =>
         match entries j with
         | None => v_viol 2
         | Some es =>
           if negb (same_entries es (map spec_entry rows)) then v_viol 2
           else if negb (list_eqb N.eqb body (render rows)) then v_diff (put_bytes (render rows))
           else v_ok (match rows with
                      | [] => 1
                      | _ => if existsb (fun l => match l_host l with Some h => existsb needs_escape h | None => false end) rows then 3
                             else if existsb (fun l => match l_host l with Some _ => true | None => false end) rows then 4
                             else 2
                      end)
         end
       end.

Definition check_C20 (ts : list N) : list N :=
  match ts with
  | 1 :: via :: n :: r =>
    match tok_rows (N.to_nat n) r with
    | Some (rows, status :: utf8 :: r2) =>
      match tok_bytes r2 with
      | Some (body, []) =>
        (* via 1 (the served listing): the rows come in the order the store returns them; the handler sorts *)
        if forallb wf_lease rows then check_listing (if via =? 1 then sort_by_ip rows else rows) status utf8 body else v_bad
      | _ => v_bad
      end
    | _ => v_bad
    end
  | 3 :: now :: n :: r =>
    match tok_take n r with
    | Some (exps, impl) =>
      match impl with
      | [0; a; e] =>
        if negb ((a =? count (fun x => now <? x) exps) && (e =? count (fun x => x <=? now) exps)) then v_viol 4
        else match metrics exps now with
             | Ok (ma, me) => if (a =? ma) && (e =? me)
                              then v_ok (match exps with
                                         | [] => 5
                                         | _ => if existsb (fun x => x =? now) exps then 8
                                                else if (a =? 0) || (e =? 0) then 6 else 7
                                         end)
                              else v_diff [0; ma; me]
             | _ => v_diff [1]
             end
      | [1] => v_viol 5
      | [2] => v_viol 5
      | _ => v_bad
      end
    | None => v_bad
    end
  | _ => v_bad
  end.

(* Token-level entry point for property C16 (REFUSED rate limit, cookies).
   Case lines (harness/src/bin/c16.rs); cap, rate are the constants of the code:
     1 cap rate z0 nops {op now n}*          | {res z}*      one bucket under a virtual clock
         op 0 check, 1 check-then-deplete (as the limiter does), 2 deplete, 3 refill
         res 0 false / nothing, 1 true, 2 panic;  z = stored timestamp afterwards
     2 cap rate now nops n*                  | res*          fresh IpRateLimiter, one source, real clock
     3 cap rate now nmsgs {rcode q r <ck>}*  | res*          should_ratelimit on a fresh limiter, one source
         res 0 answered, 1 dropped, 2 panic
     4 <ck>                                  | status        validate_cookie_keys: 0 missing 1 bad 2 good 3 panic
     5 <cur1> <prev1> <cur2> <prev2>         | s0 sff sg     the keys two fresh instances start with; forged cookies
     6 cap rate now nops {k v}*              | res*          the limiter with time passing (timestamps shifted)
   <ck> = 0  |  1 cur prev ikey cp ci lp li rp ri mut   (each but mut a length-prefixed octet string)
         the query carries client cookie cp and the server cookie that was issued under key
         ikey for (client cookie ci, server address li, client address ri), damaged if mut <> 0
         (mut 4: no server part at all); it arrives from rp at lp; the keys are cur, prev.
   Definitions only. *)
From Erbium Require Import Lib.Base Model.Bucket Model.Cookie.

Definition toks_eqb := list_eqb N.eqb.

(* ---- kind 1: one bucket ------------------------------------------------ *)
Fixpoint tok_ops (n : nat) (ts : list N) : option (list (N * N * N) * list N) :=
  match n with
  | O => Some ([], ts)
  | S k =>
    match ts with
    | op :: now :: m :: r =>
      match tok_ops k r with
      | Some (l, r2) => Some ((op, now, m) :: l, r2)
      | None => None
      end
    | _ => None
    end
  end.

Definition out_bool (o : outcome bool) : N :=
  match o with Ok true => 1 | Ok false => 0 | _ => 2 end.

(* model of one operation: result token and new state *)
Definition bucket_op (cap rate z op now n : N) : N * N :=
  match op with
  | 0 => (out_bool (check cap rate z now n), z)
  | 1 => match take cap rate z now n with
         | Ok (b, z') => ((if b then 1 else 0), z')
         | _ => (2, z)
         end
  | 2 => match deplete cap rate z now n with Ok z' => (0, z') | _ => (2, z) end
  | _ => match refill cap rate z now n with Ok z' => (0, z') | _ => (2, z) end
  end.

Fixpoint bucket_run (cap rate z : N) (ops : list (N * N * N)) : list N :=
  match ops with
  | [] => []
  | (op, now, n) :: r =>
    match bucket_op cap rate z op now n with
    | (res, z') => res :: z' :: bucket_run cap rate z' r
    end
  end.

(* -- the property on what the implementation did -- *)
(* window starting at the first element of l: running sums stay below cap + rate * dt *)
Fixpoint sums_ok (cap rate t0 acc : N) (l : list (N * N)) : bool :=
  match l with
  | [] => true
  | (t, n) :: l' => (acc + n <=? cap + rate * (t - t0)) && sums_ok cap rate t0 (acc + n) l'
  end.
Fixpoint all_windows_ok (cap rate : N) (l : list (N * N)) : bool :=
  match l with
  | [] => true
  | (t, n) :: l' => sums_ok cap rate t 0 l && all_windows_ok cap rate l'
  end.

Fixpoint sorted_from (t : N) (ops : list (N * N * N)) : bool :=
  match ops with
  | [] => true
  | (_, now, _) :: r => (t <=? now) && sorted_from now r
  end.

Definition disciplined (cap rate z0 : N) (ops : list (N * N * N)) : bool :=
  forallb (fun o => fst (fst o) <=? 1) ops
  && match ops with
     | (_, t0, _) :: _ => (cap / rate <=? t0) && (z0 <=? t0) && sorted_from t0 ops
     | [] => true
     end.

(* the requests of kind 1 the implementation granted: (time, tokens) *)
Fixpoint impl_grants (ops : list (N * N * N)) (res : list N) : list (N * N) :=
  match ops, res with
  | (op, now, n) :: r, rs :: _ :: res' =>
    if (op =? 1) && (rs =? 1) then (now, n) :: impl_grants r res' else impl_grants r res'
  | _, _ => []
  end.

(* a request after a quiet period of at least cap/rate must be granted:
   [last] = the latest time the bucket can have been empty (z0, then grant times) *)
Fixpoint quiet_ok (cap rate last : N) (ops : list (N * N * N)) (res : list N) : bool :=
  match ops, res with
  | (op, now, n) :: r, rs :: _ :: res' =>
    let must := (op =? 1) && (last + cap / rate <=? now) && (n <=? rate * (cap / rate)) in
    (negb must || (rs =? 1))
    && quiet_ok cap rate (if (op =? 1) && (rs =? 1) then now else last) r res'
  | _, _ => true
  end.

Definition check_bucket (ts : list N) : list N :=
  match ts with
  | cap :: rate :: z0 :: nops :: r =>
    if (rate =? 0) || negb (nops <=? lenN r) then v_bad else
    match tok_ops (N.to_nat nops) r with
    | Some (ops, impl) =>
      if negb (lenN impl =? 2 * nops) then v_bad else
      let model := bucket_run cap rate z0 ops in
      let disc := disciplined cap rate z0 ops in
      if negb (MIN_COST <=? cap) then v_viol 3
      else if disc && negb (all_windows_ok cap rate (impl_grants ops impl)) then v_viol 1
      else if disc && negb (quiet_ok cap rate z0 ops impl) then v_viol 2
      else if negb (toks_eqb impl model) then v_diff model
      else if negb ((cap =? CAP) && (rate =? RATE)) then v_diff [CAP; RATE]
      else if negb disc then v_ok 3
      else
        let gr := impl_grants ops impl in
        if negb (lenN gr =? 0) && (lenN gr <? lenN (filter (fun o => fst (fst o) =? 1) ops)) then v_ok 1 else v_ok 2
    | None => v_bad
    end
  | _ => v_bad
  end.

(* ---- kind 2: the two-bucket limiter, one source ------------------------ *)
Fixpoint limiter_run (cap rate : N) (st : N * N) (now : N) (ns : list N) : list N :=
  match ns with
  | [] => []
  | n :: r =>
    match lim_check cap rate st now (cast 32 n) with
    | Ok (b, st') => (if b then 1 else 0) :: limiter_run cap rate st' now r
    | _ => 2 :: limiter_run cap rate st now r
    end
  end.

Fixpoint sum_granted (ns res : list N) : N :=
  match ns, res with
  | n :: r, rs :: res' => (if rs =? 1 then n else 0) + sum_granted r res'
  | _, _ => 0
  end.

Definition check_limiter (ts : list N) : list N :=
  match ts with
  | cap :: rate :: now :: nops :: r =>
    if rate =? 0 then v_bad else
    match tok_take nops r with
    | Some (ns, impl) =>
      if negb (lenN impl =? nops) then v_bad else
      let model := limiter_run cap rate (0, 0) now ns in
      if negb (MIN_COST <=? cap) then v_viol 3
      else if negb (sum_granted ns impl <=? 2 * cap) then v_viol 1
      else if negb (toks_eqb impl model) then v_diff model
      else v_ok 4
    | None => v_bad
    end
  | _ => v_bad
  end.

(* ---- cookies ----------------------------------------------------------- *)
Record ck := {
  ck_present : bool;
  ck_cur : list N; ck_prev : list N; ck_ikey : list N;
  ck_cp : list N; ck_ci : list N;
  ck_lp : list N; ck_li : list N;
  ck_rp : list N; ck_ri : list N;
  ck_mut : N }.

Definition no_ck : ck :=
  {| ck_present := false; ck_cur := []; ck_prev := []; ck_ikey := []; ck_cp := []; ck_ci := [];
     ck_lp := []; ck_li := []; ck_rp := []; ck_ri := []; ck_mut := 0 |}.

Definition tok_ck (ts : list N) : option (ck * list N) :=
  match ts with
  | 0 :: r => Some (no_ck, r)
  | 1 :: r =>
    match tok_bytes r with Some (cur, r) =>
    match tok_bytes r with Some (prev, r) =>
    match tok_bytes r with Some (ikey, r) =>
    match tok_bytes r with Some (cp, r) =>
    match tok_bytes r with Some (ci, r) =>
    match tok_bytes r with Some (lp, r) =>
    match tok_bytes r with Some (li, r) =>
    match tok_bytes r with Some (rp, r) =>
    match tok_bytes r with Some (ri, r) =>
    match r with
    | m :: r =>
      Some ({| ck_present := true; ck_cur := cur; ck_prev := prev; ck_ikey := ikey; ck_cp := cp; ck_ci := ci;
               ck_lp := lp; ck_li := li; ck_rp := rp; ck_ri := ri; ck_mut := m |}, r)
    | [] => None
    end
    | None => None end | None => None end | None => None end | None => None end | None => None end
    | None => None end | None => None end | None => None end | None => None end
  | _ => None
  end.

(* the COOKIE option the query carries, with the stand-in MAC *)
Definition ck_option (c : ck) : option (list N) :=
  if ck_present c then
    let tag := server_cookie free_mac (ck_ikey c) (ck_ci c) (ck_li c) (ck_ri c) in
    Some (ck_cp c ++ (if ck_mut c =? 4 then [] else if ck_mut c =? 0 then tag else tag ++ [256]))
  else None.

Definition ck_status (c : ck) : N :=
  match validate_keys free_mac (ck_option c) (ck_lp c) (ck_rp c) (ck_cur c) (ck_prev c) with
  | Ok Missing => 0 | Ok Bad => 1 | Ok Good => 2 | _ => 3
  end.

(* the property's side: "issued by this server for that same client cookie,
   client address and server address within the current or previous key period" *)
Definition issued_ok (c : ck) : bool :=
  ck_present c && (ck_mut c =? 0)
  && (bytes_eqb (ck_ikey c) (ck_cur c) || bytes_eqb (ck_ikey c) (ck_prev c))
  && bytes_eqb (ck_cp c) (ck_ci c) && bytes_eqb (ck_lp c) (ck_li c) && bytes_eqb (ck_rp c) (ck_ri c).

Definition check_cookie (ts : list N) : list N :=
  match tok_ck ts with
  | Some (c, [st]) =>
    if (st =? 2) && negb (issued_ok c) then v_viol 4
    else if negb (st =? ck_status c) then v_diff [ck_status c]
    else v_ok (7 + (2 - N.min st 2))
  | _ => v_bad
  end.

(* ---- kind 3: should_ratelimit ----------------------------------------- *)
Fixpoint tok_msgs (n : nat) (ts : list N) : option (list (N * N * N * ck) * list N) :=
  match n with
  | O => Some ([], ts)
  | S k =>
    match ts with
    | rcode :: q :: rp :: r =>
      match tok_ck r with
      | Some (c, r2) =>
        match tok_msgs k r2 with
        | Some (l, r3) => Some ((rcode, q, rp, c) :: l, r3)
        | None => None
        end
      | None => None
      end
    | _ => None
    end
  end.

Fixpoint ratelimit_run (cap rate : N) (st : N * N) (now : N) (ms : list (N * N * N * ck)) : list N :=
  match ms with
  | [] => []
  | (rcode, q, rp, c) :: r =>
    match should_ratelimit cap rate rcode (N.eqb (ck_status c) 2) q rp st now with
    | Ok (b, st') => (if b then 1 else 0) :: ratelimit_run cap rate st' now r
    | _ => 2 :: ratelimit_run cap rate st now r
    end
  end.

Definition limited_class (m : N * N * N * ck) : bool :=        (* REFUSED without a cookie issued to this client *)
  match m with (rcode, _, _, c) => (rcode =? 5) && negb (issued_ok c) end.

(* the first rate-limitable message on a fresh limiter must be answered when its cost fits *)
Fixpoint first_served (cap : N) (ms : list (N * N * N * ck)) (res : list N) : bool :=
  match ms, res with
  | m :: r, rs :: res' =>
    if limited_class m then
      match m with (_, q, rp, _) => negb (cost q rp <=? cap) || (rs =? 0) end
    else first_served cap r res'
  | _, _ => true
  end.

Fixpoint bytes_sent (ms : list (N * N * N * ck)) (res : list N) : N :=
  match ms, res with
  | m :: r, rs :: res' =>
    (if limited_class m && (rs =? 0) then snd (fst m) else 0) + bytes_sent r res'
  | _, _ => 0
  end.

Definition reply_covered (m : N * N * N * ck) : bool :=
  match m with (_, q, rp, _) => (rp <=? MIN_COST) || (q <=? rp) end.

Definition check_ratelimit (ts : list N) : list N :=
  match ts with
  | cap :: rate :: now :: nmsgs :: r =>
    if (rate =? 0) || negb (nmsgs <=? lenN r) then v_bad else
    match tok_msgs (N.to_nat nmsgs) r with
    | Some (ms, impl) =>
      if negb (lenN impl =? nmsgs) then v_bad else
      let model := ratelimit_run cap rate (0, 0) now ms in
      if negb (MIN_COST <=? cap) && negb (first_served CAP ms impl) then v_viol 5
      else if negb (first_served cap ms impl) then v_viol 5
      else if forallb reply_covered ms && negb (bytes_sent ms impl <=? 2 * cap) then v_viol 6
      else if negb (toks_eqb impl model) then v_diff model
      else if existsb (N.eqb 1) impl && existsb (N.eqb 0) impl then v_ok 5 else v_ok 6
    | None => v_bad
    end
  | _ => v_bad
  end.

(* ---- kind 5: the keys a freshly started service begins with ----------------
     5 <cur1> <prev1> <cur2> <prev2> s0 sff sg
   two fresh instances' (current, previous); s0/sff/sg: validate_cookie_keys under instance 1's keys
   of a cookie forged under the all-zero key, the all-0xff key and the fixed key 1..8 *)
Definition weak_key (k : list N) : bool :=
  bytes_eqb k (repeatN 0 8) || bytes_eqb k (repeatN 255 8) || bytes_eqb k [1; 2; 3; 4; 5; 6; 7; 8].

Definition check_fresh_keys (ts : list N) : list N :=
  match tok_bytes ts with Some (c1, r) =>
  match tok_bytes r with Some (p1, r) =>
  match tok_bytes r with Some (c2, r) =>
  match tok_bytes r with Some (p2, [s0; sff; sg]) =>
    if weak_key c1 || weak_key p1 || weak_key c2 || weak_key p2
       || bytes_eqb c1 p1 || bytes_eqb c2 p2
       || bytes_eqb c1 c2 || bytes_eqb c1 p2 || bytes_eqb p1 c2 || bytes_eqb p1 p2
       || (s0 =? 2) || (sff =? 2) || (sg =? 2)
       || negb ((lenN c1 =? 8) && (lenN p1 =? 8))
    then v_viol 7 else v_ok 10
  | _ => v_bad end | None => v_bad end | None => v_bad end | None => v_bad end.

(* ---- kind 6: the limiter with time passing (bucket timestamps shifted by the hook) ----
     6 cap rate now nops {k v}* res*     k = 0: a request of v tokens; k = 1: v seconds pass *)
Fixpoint tok_pairs (n : nat) (ts : list N) : option (list (N * N) * list N) :=
  match n with
  | O => Some ([], ts)
  | S k => match ts with
           | a :: b :: r => match tok_pairs k r with Some (l, r2) => Some ((a, b) :: l, r2) | None => None end
           | _ => None
           end
  end.

Fixpoint shifted_run (cap rate : N) (st : N * N) (now : N) (ops : list (N * N)) : list N :=
  match ops with
  | [] => []
  | (0, n) :: r =>
    match lim_check cap rate st now (cast 32 n) with
    | Ok (b, st') => (if b then 1 else 0) :: shifted_run cap rate st' now r
    | _ => 2 :: shifted_run cap rate st now r
    end
  | (_, d) :: r => 0 :: shifted_run cap rate (fst st - d, snd st - d) now r
  end.

(* on the implementation's answers: [idle] = seconds passed since the last grant (a fresh limiter
   counts as idle for ever), [granted]/[passed] = totals *)
Fixpoint shifted_ok (cap rate idle granted passed : N) (ops : list (N * N)) (res : list N) : N :=
  match ops, res with
  | (0, n) :: r, rs :: res' =>
    if (cap / rate <=? idle) && (n <=? rate * (cap / rate)) && negb (rs =? 1) then 2
    else
      let granted' := if rs =? 1 then granted + n else granted in
      if 2 * cap + 2 * (rate * passed) <? granted' then 1
      else shifted_ok cap rate (if rs =? 1 then 0 else idle) granted' passed r res'
  | (_, d) :: r, _ :: res' => shifted_ok cap rate (idle + d) granted (passed + d) r res'
  | _, _ => 0
  end.

Definition check_shifted (ts : list N) : list N :=
  match ts with
  | cap :: rate :: now :: nops :: r =>
    if (rate =? 0) || negb (2 * nops <=? lenN r) then v_bad else
    match tok_pairs (N.to_nat nops) r with
    | Some (ops, impl) =>
      if negb (lenN impl =? nops) then v_bad else
      let model := shifted_run cap rate (0, 0) now ops in
      let v := shifted_ok cap rate (cap / rate) 0 0 ops impl in
      if negb (MIN_COST <=? cap) then v_viol 3
      else if negb (v =? 0) then v_viol v
      else if negb (toks_eqb impl model) then v_diff model
      else v_ok 11
    | None => v_bad
    end
  | _ => v_bad
  end.

Definition check_C16 (ts : list N) : list N :=
  match ts with
  | 1 :: r => check_bucket r
  | 2 :: r => check_limiter r
  | 3 :: r => check_ratelimit r
  | 4 :: r => check_cookie r
  | 5 :: r => check_fresh_keys r
  | 6 :: r => check_shifted r
  | _ => v_bad
  end.

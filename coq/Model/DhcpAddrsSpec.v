(* Specification of the address set a client may be served from, written from
   erbium.conf(5) and the text of property C02 only.  It is stated on the
   abstract configuration (what the file says), shares the data types with
   Model/DhcpAddrs.v and the condition vocabulary with Model/DhcpPolicySpec.v,
   but none of the loader / walk functions.  Definitions only.

   erbium.conf(5):
   - addresses: "For DHCP this will give out addresses on this interface
     except for the network address, broadcast address, and the local
     interface IPv4 address.  DHCP will also exclude any address given in a
     normal policy, in the same way that sub policies work below."
   - apply-address: "adds one IP address to the pool for the policy."
   - apply-subnet: "adds an entire subnet worth of addresses ... The first and
     last addresses of the subnet are not applied, as these are the network
     and broadcast addresses respectively."
   - apply-range: "from start-ip4 to last-ip4 inclusive."
   - "Sub-policies have their own DHCP IP pools.  If you add an IP address to
     a policy then it will be excluded from all parent pools."  "A policy that
     does not specify an new addresses will continue to use the addresses for
     it's parent pool."
   Property C02: "never the server's own address on the receiving interface". *)
From Erbium Require Import Lib.Base Model.DhcpPolicy Model.DhcpPolicySpec Model.DhcpAddrs.

(* ---- which policies apply to a request (on the abstract tree) ----------- *)
Definition cconds (c : cpolicy) : list cond :=
  (match c_chaddr c with Some m => [CChaddr m] | None => [] end)
  ++ (match c_subnet c with Some s => [CSubnet s] | None => [] end)
  ++ map (fun e => match snd e with
                   | Some v => COption (fst e) (val_bytes v)
                   | None => CAbsent (fst e) end) (c_match c).

Fixpoint cmatches (req : request) (c : cpolicy) : bool :=
  match cconds c with
  | [] => (fix any (cs : list cpolicy) : bool :=
             match cs with [] => false | d :: r => cmatches req d || any r end) (c_kids c)
  | cs => forallb (holds req) cs
  end.

Fixpoint cselected_in (req : request) (c : cpolicy) : list cpolicy :=
  c :: (fix first (cs : list cpolicy) : list cpolicy :=
          match cs with
          | [] => []
          | d :: r => if cmatches req d then cselected_in req d else first r
          end) (c_kids c).
Fixpoint cselected (req : request) (cs : list cpolicy) : list cpolicy :=
  match cs with
  | [] => []
  | d :: r => if cmatches req d then cselected_in req d else cselected req r
  end.

(* the innermost applied policy that names addresses decides the pool *)
Definition deciding (req : request) (cs : list cpolicy) : option cpolicy :=
  fold_left (fun acc c => match c_addrs c with [] => acc | _ => Some c end) (cselected req cs) None.

(* ---- the addresses a policy names ---------------------------------------- *)
Definition doc_item (x : N) (i : aitem) : bool :=
  match i with
  | AAddr a => x =? a
  | ARange s e => (s <=? x) && (x <=? e)                                 (* inclusive *)
  | ASubnet net len => (net <? x) && (x <? net + 2 ^ (32 - len) - 1)     (* all but first and last *)
  end.
Definition names (c : cpolicy) (x : N) : bool := existsb (doc_item x) (c_addrs c).
Fixpoint names_deep (c : cpolicy) (x : N) : bool :=
  names c x
  || (fix any (cs : list cpolicy) : bool :=
        match cs with [] => false | d :: r => names_deep d x || any r end) (c_kids c).

(* the top-level prefix of the receiving interface *)
Fixpoint receiving_prefix (ip : N) (l : list prefix_item) : option (N * N) :=
  match l with
  | [] => None
  | P6 :: r => receiving_prefix ip r
  | P4 net len :: r => if N.land ip (netmask len) =? net then Some (net, len) else receiving_prefix ip r
  end.

(* D(config, client, interface) *)
Definition documented (g : config) (req : request) (x : N) : bool :=
  negb (x =? r_serverip req)
  && match deciding req (g_policies g) with
     | Some c => names c x && negb (existsb (fun d => names_deep d x) (c_kids c))
     | None =>
       match receiving_prefix (r_serverip req) (g_addresses g) with
       | Some (net, len) =>
         (net <? x) && (x <? net + 2 ^ (32 - len) - 1)
         && negb (existsb (fun p => names_deep p x) (g_policies g))
       | None => false
       end
     end.
Definition Documented (g : config) (req : request) (x : N) : Prop := documented g req x = true.

(* Known finding F20 (class 1): the deciding policy's own pool contains the
   receiving address, and the code hands it out. *)
Definition known_F20 (g : config) (req : request) : bool :=
  match deciding req (g_policies g) with
  | Some c => names c (r_serverip req) && negb (existsb (fun d => names_deep d (r_serverip req)) (c_kids c))
  | None => false
  end.

(* is there a pool at all? *)
Definition has_pool (g : config) (req : request) : bool :=
  match deciding req (g_policies g) with
  | Some _ => true
  | None => match receiving_prefix (r_serverip req) (g_addresses g) with Some _ => true | None => false end
  end.

(* ---- well-formed configurations (the property's range) ------------------- *)
Definition prefix_ok (net len : N) : bool := (len <=? 32) && (N.land net (netmask len) =? net) && (net <? 2 ^ 32).
Fixpoint wf_policy (c : cpolicy) : bool :=
  (match c_subnet c with Some (n, l) => prefix_ok n l | None => true end)
  && forallb (fun i => match i with ASubnet n l => prefix_ok n l | _ => true end) (c_addrs c)
  && (fix all (cs : list cpolicy) : bool :=
        match cs with [] => true | d :: r => wf_policy d && all r end) (c_kids c).
Definition wf_cfg (g : config) : bool :=
  forallb (fun p => match p with P4 n l => prefix_ok n l | P6 => true end) (g_addresses g)
  && forallb wf_policy (g_policies g).

(* ---- top-level defaults (erbium.conf(5), "Top level Configuration") -------
   dns-servers: "the default dns servers to be handed out by DHCP ... limited
   to IPv4"; "$self4 ... will use the local IPv4 address of the interface the
   request arrived on"; dns-search: the default search path; captive-portal:
   the RFC 8910 URL.  Three-state: Some None = configured as absent. *)
Definition doc_dns (sip : N) (l : list dns_item) : list N :=
  flat_map (fun d => match d with
                     | DSelf4 => [sip]
                     | DV4 x => [if x =? 0 then sip else x]
                     | DSelf6 | DV6 => []
                     end) l.
Definition top_level_default (g : config) (req : request) (k : N) : option (option (list N)) :=
  if k =? 6 then
    Some (Some (flat_map be32 (doc_dns (r_serverip req) (match g_dns g with Some l => l | None => [DSelf4; DSelf6] end))))
  else if k =? 119 then Some (Some (flat_map domain_bytes (g_search g)))
  else if k =? 114 then Some (g_portal g)
  else None.

(* defaults derived from the receiving interface: "interface MTU and router,
   netmask and broadcast of the matched subnet" (the `addresses` prefix the
   request was received on) *)
Definition interface_default (g : config) (req : request) (k : N) : option (option (list N)) :=
  match receiving_prefix (r_serverip req) (g_addresses g) with
  | Some (net, len) =>
    if k =? 1 then Some (Some (be32 (netmask len)))
    else if k =? 28 then Some (Some (be32 (N.lor net (U32MAX - netmask len))))
    else if k =? 26 then option_map (fun m => Some (be16 (m mod 65536))) (r_mtu req)
    else if k =? 3 then option_map (fun r => Some (be32 r)) (r_router req)
    else None
  | None => None
  end.

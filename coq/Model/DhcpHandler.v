(* Model of the decision and reply-construction logic of
   crates/erbium-core/src/dhcp/mod.rs: handle_pkt, handle_discover,
   handle_request.  Policy evaluation (C11/C02) and address selection
   (C01/C09/C10) are inputs here: [pol] is what the policy walk ended with and
   [alloc] what allocate_address returned; the lease store is a list of rows
   with INSERT OR REPLACE on the address.  Definitions only. *)
From Erbium Require Import Lib.Base Model.DhcpCodec.

(* ---- option accessors (dhcppkt.rs get_option::<T>) -------------------- *)
Fixpoint opt_get (os : list (N * list N)) (code : N) : option (list N) :=
  match os with
  | [] => None
  | (c, v) :: r => if c =? code then Some v else opt_get r code
  end.
Definition msgtype (m : dhcp) : option N :=            (* MessageType::parse_into: exactly one octet *)
  match opt_get (d_options m) 53 with Some [t] => Some t | _ => None end.
Definition serverid (m : dhcp) : option N :=           (* Ipv4Addr::parse_into: exactly four octets *)
  match opt_get (d_options m) 54 with Some [a; b; c; d] => Some (be_decode [a; b; c; d]) | _ => None end.
Definition addr_request (m : dhcp) : option N :=
  match opt_get (d_options m) 50 with Some [a; b; c; d] => Some (be_decode [a; b; c; d]) | _ => None end.
Definition client_id (m : dhcp) : list N :=            (* get_client_id: option 61 whatever its length, else chaddr *)
  match opt_get (d_options m) 61 with Some v => v | None => d_chaddr m end.

(* ---- lease store ------------------------------------------------------- *)
Record lease := { le_addr : N; le_client : list N; le_start : N; le_expiry : N }.
Definition upsert (r : lease) (db : list lease) : list lease :=
  r :: filter (fun x => negb (le_addr x =? le_addr r)) db.
Definition row_of (db : list lease) (x : N) : option lease :=
  find (fun r => le_addr r =? x) db.

(* ---- handler ----------------------------------------------------------- *)
Inductive nreason := UnknownMessageType | InvalidPacket | OtherServer | NoPolicy | NoLeases | PoolError.
Inductive hres := Reply (r : dhcp) | NoReply (e : nreason).

(* what the policy walk produced: None = no policy matched; Some false = matched,
   no address set; Some true = matched with an address set (then allocate_address is called) *)
Record step_in := {
  i_ids : list N;              (* server identifiers this server has used (ServerIds) *)
  i_serverip : N;              (* address of the receiving interface *)
  i_pol : option bool;
  i_alloc : option (N * N);    (* allocate_address: Some (ip, lease secs) | None = pool error *)
  i_now : N;                   (* time of the INSERT (second clock read) *)
  i_reply_opts : list (N * list N)   (* options chosen by the policies (C11); taken as given *)
}.

Definition set_opt (os : list (N * list N)) (code : N) (v : list N) : list (N * list N) :=
  (code, v) :: filter (fun o => negb (fst o =? code)) os.

Definition mk_reply (i : step_in) (m : dhcp) (ack : bool) (ip secs : N) : dhcp :=
  let sid := if ack then match serverid m with Some s => s | None => i_serverip i end else i_serverip i in
  let os := set_opt (i_reply_opts i) 54 (be32 sid) in
  let os := set_opt os 53 [if ack then 5 else 2] in
  let os := set_opt os 51 (be32 (cast 32 secs)) in
  {| d_op := 2; d_htype := d_htype m; d_hlen := d_hlen m; d_hops := 0; d_xid := d_xid m; d_secs := 0;
     d_flags := d_flags m; d_ciaddr := if ack then d_ciaddr m else 0; d_yiaddr := ip; d_siaddr := 0;
     d_giaddr := d_giaddr m; d_chaddr := d_chaddr m; d_sname := []; d_file := [];
     d_options := os |}.

Definition accepted_server (i : step_in) (m : dhcp) : bool :=
  match serverid m with
  | None => true
  | Some s => existsb (N.eqb s) (i_ids i) || (s =? i_serverip i)
  end.

Definition handle (i : step_in) (db : list lease) (m : dhcp) : hres * list lease :=
  match msgtype m with
  | None => (NoReply InvalidPacket, db)
  | Some t =>
    if negb ((t =? 1) || (t =? 3)) then (NoReply UnknownMessageType, db)
    else if (t =? 3) && negb (accepted_server i m) then (NoReply OtherServer, db)
    else
      match i_pol i with
      | None => (NoReply NoPolicy, db)
      | Some false => (NoReply NoLeases, db)
      | Some true =>
        match i_alloc i with
        | None => (NoReply PoolError, db)
        | Some (ip, secs) =>
          (Reply (mk_reply i m (t =? 3) ip secs),
           upsert {| le_addr := ip; le_client := client_id m; le_start := cast 32 (i_now i);
                     le_expiry := cast 32 (i_now i + secs) |} db)
        end
      end
  end.

(* Model of the lease-store schema handling in crates/erbium-core/src/dhcp/pool.rs:
   setup_db, upgrade_schema_from_no_version, upgrade_schema_from_version_0.
   SQLite is modelled, not verified: a statement (outside a transaction) or a
   transaction commits atomically; killing the process rolls an open
   transaction back.  Definitions only. *)
From Erbium Require Import Lib.Base.

Record lrow := { l_addr : N; l_client : list N; l_start : N; l_expiry : N;
                 l_opts : option (list N) (* None: NULL, or the column does not exist *) }.

Record store := {
  s_sv : bool;                           (* table schema_version exists *)
  s_ver : option Z;                      (* its row for key 'pool' *)
  s_leases : option (bool * list lrow)   (* table leases: (has column `options`, rows) *)
}.

(* what get_leases() reports: NULL options read as empty *)
Definition row_view (r : lrow) : N * list N * N * N * list N :=
  (l_addr r, l_client r, l_start r, l_expiry r, match l_opts r with Some o => o | None => [] end).
Definition rows (s : store) : list (N * list N * N * N * list N) :=
  match s_leases s with Some (_, rs) => map row_view rs | None => [] end.

(* ---- statements -------------------------------------------------------- *)
Definition create_sv (s : store) : store :=          (* CREATE TABLE IF NOT EXISTS schema_version *)
  {| s_sv := true; s_ver := s_ver s; s_leases := s_leases s |}.
Definition set_ver (v : Z) (s : store) : store :=    (* INSERT OR REPLACE INTO schema_version *)
  {| s_sv := s_sv s; s_ver := Some v; s_leases := s_leases s |}.
Definition create_leases (s : store) : store :=      (* CREATE TABLE leases (... options BLOB ...) *)
  {| s_sv := s_sv s; s_ver := s_ver s; s_leases := Some (true, []) |}.
Definition alter (rs : list lrow) (s : store) : store :=   (* ALTER TABLE leases ADD COLUMN options BLOB *)
  {| s_sv := s_sv s; s_ver := s_ver s; s_leases := Some (true, rs) |}.

(* one iteration of the loop in setup_db -- one transaction *)
Inductive iter_res := Continue (n : N) (s' : store)   (* n statements were executed, then committed *)
                    | Done | Refuse | Fail.
Definition iter (s : store) : iter_res :=
  match s_ver s with
  | None =>
    match s_leases s with
    | Some _ => Continue 1 (set_ver 0 s)                       (* `SELECT 1 FROM leases` works: version 0 *)
    | None => Continue 2 (set_ver 1 (create_leases s))          (* brand new: latest schema directly *)
    end
  | Some 0%Z =>
    match s_leases s with
    | Some (false, rs) => Continue 2 (set_ver 1 (alter rs s))
    | _ => Fail                                                 (* duplicate column / no such table *)
    end
  | Some 1%Z => Done
  | Some v =>
    if ((-2147483648 <=? v) && (v <? 2147483648))%Z
    then Refuse                                                 (* newer than 1 (or otherwise unknown) *)
    else Fail                                                   (* does not fit the i32 the code reads it into *)
  end.

Inductive open_res := Opened (s : store) | Refused (s : store) | Failed (s : store).

Fixpoint loop (fuel : nat) (s : store) : open_res :=
  match fuel with
  | O => Failed s
  | S f =>
    match iter s with
    | Continue _ s' => loop f s'
    | Done => Opened s
    | Refuse => Refused s
    | Fail => Failed s
    end
  end.
Definition open (s : store) : open_res := loop 4 (create_sv s).

(* killing the process at the k-th statement boundary (k >= 1) of open:
   Some st = it was killed, st is what is on disk; None = open finished first *)
Fixpoint crash_loop (fuel : nat) (k : N) (s : store) : option store :=
  match fuel with
  | O => None
  | S f =>
    match iter s with
    | Continue n s' => if k <=? n then Some s else crash_loop f (k - n) s'
    | _ => None
    end
  end.
Definition crash_state (k : N) (s : store) : option store :=
  if k =? 0 then None
  else if k =? 1 then Some (create_sv s)
  else crash_loop 4 (k - 1) (create_sv s).

(* ---- stores a released erbium can have left behind --------------------- *)
Definition wf_store (s : store) : bool :=
  match s_sv s, s_ver s, s_leases s with
  | false, None, None => true                      (* no file yet *)
  | false, None, Some (false, _) => true           (* written before schema versions existed (= version 0) *)
  | true, None, None => true                       (* killed during the very first start *)
  | true, None, Some (false, _) => true            (* killed while upgrading a version-0 store *)
  | true, Some 0%Z, Some (false, _) => true
  | true, Some 1%Z, Some (true, _) => true         (* current *)
  | _, _, _ => false
  end.

Definition res_store (r : open_res) : store :=
  match r with Opened s | Refused s | Failed s => s end.
Definition is_opened (r : open_res) : bool := match r with Opened _ => true | _ => false end.

(* Model of crates/erbium-core/src/dns/bucket.rs (GenericTokenBucket) and of
   the two-bucket limiter and cost function in dns/mod.rs (IpRateLimiter::check,
   should_ratelimit).  Definitions only.

   The bucket state is one u32 [z]: "the time at which the bucket was last
   empty".  Capacity and rate are arguments of the generic definitions (the
   theorems hold for every capacity and every positive rate); the constants of
   the code follow.  Arithmetic is that of the debug profile: u32 subtraction
   and addition abort on overflow, the availability is computed in i64. *)
From Erbium Require Import Lib.Base.

Definition div_ceil (n r : N) : N := n / r + (if n mod r =? 0 then 0 else 1).    (* u32::div_ceil *)

Section Generic.
  Variables cap rate : N.

  Definition window : N := cap / rate.                       (* MAX_TOKENS / TOKENS_PER_SECOND *)

  (* get_tokens_with_time: max(self.0, now - window) *)
  Definition cur_tokens (z now : N) : outcome N :=
    do w <- sub_chk now window; Ok (N.max z w).

  (* (now as i64 - cur as i64) * rate *)
  Definition avail (z now : N) : outcome Z :=
    do c <- cur_tokens z now; Ok ((Z.of_N now - Z.of_N c) * Z.of_N rate)%Z.

  Definition check (z now n : N) : outcome bool :=
    do a <- avail z now; Ok (Z.of_N n <=? a)%Z.

  Definition deplete (z now n : N) : outcome N :=
    do c <- cur_tokens z now; add_chk 32 c (div_ceil n rate).

  Definition refill (z now n : N) : outcome N :=
    do c <- cur_tokens z now; sub_chk c (div_ceil n rate).

  (* how the limiter uses one bucket: deplete only after a successful check *)
  Definition take (z now n : N) : outcome (bool * N) :=
    do ok <- check z now n;
    if ok then (do z' <- deplete z now n; Ok (true, z')) else Ok (false, z).

  (* IpRateLimiter::check as seen by one source: its two buckets *)
  Definition lim_check (st : N * N) (now n : N) : outcome (bool * (N * N)) :=
    do r1 <- take (fst st) now n;
    if fst r1 then Ok (true, (snd r1, snd st))
    else
      do r2 <- take (snd st) now n;
      Ok (fst r2, (fst st, snd r2)).
End Generic.

(* the constants of the code (after the repair of F24: the capacity was 100,
   below the minimum charge) *)
Definition CAP : N := 1000.
Definition RATE : N := 2.
Definition MIN_COST : N := 200.

(* should_ratelimit: max((reply * 2).saturating_sub(query), 200) *)
Definition cost (query reply : N) : N := N.max (2 * reply - query) MIN_COST.

(* should_ratelimit; [exempt] is the outcome of the cookie validation.
   true = the reply is dropped. *)
Definition should_ratelimit (cap rate : N) (rcode : N) (exempt : bool) (query reply : N)
    (st : N * N) (now : N) : outcome (bool * (N * N)) :=
  if negb (rcode =? 5) then Ok (false, st)
  else if exempt then Ok (false, st)
  else do r <- lim_check cap rate st now (cast 32 (cost query reply)); Ok (negb (fst r), snd r).

(* ---- histories --------------------------------------------------------- *)
(* one bucket, a list of requests (time, tokens): the tokens granted in total
   and the final state; a request that would abort is skipped (it cannot occur
   when all times are >= window, see Proofs/Bucket.v) *)
Fixpoint run_bucket (cap rate : N) (z : N) (evs : list (N * N)) : N * N :=
  match evs with
  | [] => (0, z)
  | (t, n) :: evs' =>
    match take cap rate z t n with
    | Ok (true, z') => match run_bucket cap rate z' evs' with (g, zf) => (n + g, zf) end
    | _ => run_bucket cap rate z evs'
    end
  end.

(* one source and the other sources that hash into one of its two buckets *)
Inductive lev :=
| Mine (t n b : N)         (* a refused query of this source: cost n, reply of b octets *)
| Other1 (t n : N)         (* another source charging this source's first bucket *)
| Other2 (t n : N).        (* ... its second bucket *)
Definition lev_time (e : lev) : N := match e with Mine t _ _ => t | Other1 t _ | Other2 t _ => t end.

(* tokens granted to this source, octets sent to it, final state *)
Fixpoint run_limiter (cap rate : N) (st : N * N) (evs : list lev) : N * N * (N * N) :=
  match evs with
  | [] => (0, 0, st)
  | Mine t n b :: evs' =>
    match lim_check cap rate st t n with
    | Ok (true, st') =>
      match run_limiter cap rate st' evs' with (g, s, sf) => (n + g, b + s, sf) end
    | Ok (false, st') => run_limiter cap rate st' evs'
    | _ => run_limiter cap rate st evs'
    end
  | Other1 t n :: evs' =>
    match take cap rate (fst st) t n with
    | Ok (_, z') => run_limiter cap rate (z', snd st) evs'
    | _ => run_limiter cap rate st evs'
    end
  | Other2 t n :: evs' =>
    match take cap rate (snd st) t n with
    | Ok (_, z') => run_limiter cap rate (fst st, z') evs'
    | _ => run_limiter cap rate st evs'
    end
  end.

(* Token-level entry point for property C09: the shared history fold of
   Model/PoolEntry.v evaluating the C09 predicates (see props/C09.json). *)
From Erbium Require Import Lib.Base Model.DhcpPool Model.PoolEntry.
(* kind 41 (end-to-end rig, scenario `dhcpflow`): [41; step; before; after] -- the yiaddr of two consecutive
   replies of the REAL binary to one client: step 0 = OFFER then the ACK of the REQUEST selecting it ("the
   address acknowledged after an offer is the address that was offered"), step 1 = that ACK then the ACK of
   the renewal ("given that same address again on every ... renewal").  A history line can never have this
   shape (41 events need more than three further tokens). *)
Definition check_rig_same (step before after : N) : list N :=
  if before =? after then v_ok (200 + N.min step 1) else v_viol (if step =? 0 then 4 else 1).

Definition check_C09 (ts : list N) : list N :=
  match ts with
  | [41; step; before; after] => check_rig_same step before after
  | _ => check_pool 9 ts
  end.

(* Token-level entry point for property C09: the shared history fold of
   Model/PoolEntry.v evaluating the C09 predicates (see props/C09.json). *)
From Erbium Require Import Lib.Base Model.DhcpPool Model.PoolEntry.
Definition check_C09 (ts : list N) : list N := check_pool 9 ts.

(* Token codec for abstract configurations and requests (shared by the entry
   points of C11 and C02).  The harness generates a configuration as an
   abstract tree, renders it to YAML for the real loader, and prints the same
   tree as tokens; the model interprets the tree (it does not parse YAML).

   config   := dns search portal addresses policies
   dns      := 0 | 1 n item*            item := 0 ($self4) | 1 ($self6) | 2 x | 3 (some IPv6 address)
   search   := n bytes*                 bytes := len octet*
   portal   := 0 | 1 bytes
   addresses:= n (4 net len | 6)*
   policies := n policy*
   policy   := sn ch opts opts addrs policies
   sn       := 0 | 1 net len            ch := 0 | 1 bytes
   opts     := n (code (0 | 1 value))*
   value    := 0 bytes | 1 x | 2 n x* | 3 v | 4 v | 5 v | 6 n bytes* | 7 n (len net hop)*
   addrs    := n (0 x | 1 start end | 2 net len)*
   request  := serverip (0 | 1 mtu) (0 | 1 router) bytes(chaddr) n (code bytes)*
   Definitions only. *)
From Erbium Require Import Lib.Base Model.DhcpPolicy Model.DhcpAddrs.

Definition parser (A : Type) := list N -> option (A * list N).

Fixpoint tok_list {A} (f : parser A) (n : nat) (ts : list N) : option (list A * list N) :=
  match n with
  | O => Some ([], ts)
  | S k => match f ts with
           | Some (a, r) => match tok_list f k r with
                            | Some (l, r2) => Some (a :: l, r2)
                            | None => None end
           | None => None end
  end.
Definition tok_counted {A} (f : parser A) : parser (list A) :=
  fun ts => match ts with n :: r => tok_list f (N.to_nat n) r | [] => None end.
Definition tok_opt {A} (f : parser A) : parser (option A) :=
  fun ts => match ts with
            | 0 :: r => Some (None, r)
            | 1 :: r => match f r with Some (a, r2) => Some (Some a, r2) | None => None end
            | _ => None end.
Definition tok_n : parser N := tok_one.
Definition tok_pair : parser (N * N) :=
  fun ts => match ts with a :: b :: r => Some ((a, b), r) | _ => None end.
Definition tok_triple : parser (N * N * N) :=
  fun ts => match ts with a :: b :: c :: r => Some ((a, b, c), r) | _ => None end.

Definition tok_value : parser value :=
  fun ts => match ts with
  | 0 :: r => match tok_bytes r with Some (b, r2) => Some (VBytes b, r2) | None => None end
  | 1 :: x :: r => Some (VIp x, r)
  | 2 :: r => match tok_bytes r with Some (l, r2) => Some (VIpList l, r2) | None => None end
  | 3 :: v :: r => Some (VU8 v, r)
  | 4 :: v :: r => Some (VU16 v, r)
  | 5 :: v :: r => Some (VU32 v, r)
  | 6 :: r => match tok_counted tok_bytes r with Some (l, r2) => Some (VDomains l, r2) | None => None end
  | 7 :: r => match tok_counted tok_triple r with Some (l, r2) => Some (VRoutes l, r2) | None => None end
  | _ => None
  end.

Definition tok_optent : parser (N * option value) :=
  fun ts => match ts with
  | code :: r => match tok_opt tok_value r with Some (v, r2) => Some ((code, v), r2) | None => None end
  | [] => None end.

Definition tok_aitem : parser aitem :=
  fun ts => match ts with
  | 0 :: x :: r => Some (AAddr x, r)
  | 1 :: s :: e :: r => Some (ARange s e, r)
  | 2 :: n :: l :: r => Some (ASubnet n l, r)
  | _ => None end.

Fixpoint tok_policy (fuel : nat) (ts : list N) : option (cpolicy * list N) :=
  match fuel with
  | O => None
  | S f =>
    match tok_opt tok_pair ts with Some (sn, r) =>
    match tok_opt tok_bytes r with Some (ch, r) =>
    match tok_counted tok_optent r with Some (mo, r) =>
    match tok_counted tok_optent r with Some (ao, r) =>
    match tok_counted tok_aitem r with Some (ad, r) =>
    match tok_counted (tok_policy f) r with Some (kids, r) =>
      Some (CPolicy sn ch mo ao ad kids, r)
    | None => None end | None => None end | None => None end
    | None => None end | None => None end | None => None end
  end.

Definition tok_dns : parser dns_item :=
  fun ts => match ts with
  | 0 :: r => Some (DSelf4, r)
  | 1 :: r => Some (DSelf6, r)
  | 2 :: x :: r => Some (DV4 x, r)
  | 3 :: r => Some (DV6, r)
  | _ => None end.
Definition tok_prefix : parser prefix_item :=
  fun ts => match ts with
  | 4 :: n :: l :: r => Some (P4 n l, r)
  | 6 :: r => Some (P6, r)
  | _ => None end.

Definition tok_config : parser config :=
  fun ts =>
    match tok_opt (tok_counted tok_dns) ts with Some (dns, r) =>
    match tok_counted tok_bytes r with Some (search, r) =>
    match tok_opt tok_bytes r with Some (portal, r) =>
    match tok_counted tok_prefix r with Some (addrs, r) =>
    match tok_counted (tok_policy 8) r with Some (ps, r) =>
      Some ({| g_dns := dns; g_search := search; g_portal := portal;
               g_addresses := addrs; g_policies := ps |}, r)
    | None => None end | None => None end | None => None end
    | None => None end | None => None end.

Definition tok_ropt : parser (N * list N) :=
  fun ts => match ts with
  | code :: r => match tok_bytes r with Some (b, r2) => Some ((code, b), r2) | None => None end
  | [] => None end.

Definition tok_request : parser request :=
  fun ts =>
    match ts with sip :: r =>
    match tok_opt tok_n r with Some (mtu, r) =>
    match tok_opt tok_n r with Some (rt, r) =>
    match tok_bytes r with Some (ch, r) =>
    match tok_counted tok_ropt r with Some (os, r) =>
      Some ({| r_serverip := sip; r_mtu := mtu; r_router := rt; r_chaddr := ch; r_opts := os |}, r)
    | None => None end | None => None end | None => None end | None => None end
    | [] => None end.

(* ---- canonical option lists: sorted by code --------------------------- *)
Fixpoint ins_code (o : N * list N) (l : list (N * list N)) : list (N * list N) :=
  match l with
  | [] => [o]
  | p :: r => if fst o <=? fst p then o :: l else p :: ins_code o r
  end.
Definition sort_codes (l : list (N * list N)) : list (N * list N) := fold_right ins_code [] l.
Definition ropt_eqb (a b : N * list N) : bool := (fst a =? fst b) && bytes_eqb (snd a) (snd b).
Definition opts_eqb := list_eqb ropt_eqb.
Definition put_ropts (os : list (N * list N)) : list N :=
  lenN os :: flat_map (fun o => fst o :: put_bytes (snd o)) os.

(* Model of the router-advertisement builder and serialiser of erbium:
     crates/erbium-core/src/radv/mod.rs   RaAdvService::build_announcement_pure
     crates/erbium-core/src/radv/icmppkt.rs serialise_router_advertisement
     crates/erbium-core/src/config.rs      ConfigValue::{unwrap_or, or, always_unwrap_or}
   as coded AFTER the repairs F25 (clamping instead of `as u16`/`as u32`),
   F26 (RFC 8781 prefix length code table, unencodable length omitted),
   F27 (prefix bits beyond the prefix length cleared), F28 (no RDNSS/DNSSL
   option without entries) and F45 ($self6 also replaced in interface-level
   dns-servers) and F46 (search domains that are not RFC 1035 names left out).
   Definitions only.

   Conventions: addresses are lists of 16 octets; strings are lists of octets
   (UTF-8 as Rust holds them); a [dur] is std::time::Duration (whole seconds +
   nanoseconds); Rust operations that can abort are explicit [Panic]s. *)
From Erbium Require Import Lib.Base.

(* ---- std::time::Duration ---------------------------------------------- *)
Record dur := { d_secs : N; d_nanos : N }.
Definition secs (s : N) : dur := {| d_secs := s; d_nanos := 0 |}.
Definition as_secs (d : dur) : N := d_secs d.
Definition as_millis (d : dur) : N := d_secs d * 1000 + d_nanos d / 1000000.

(* ---- config::ConfigValue ---------------------------------------------- *)
Inductive cv (A : Type) := NotSpecified | DontSet | Value (a : A).
Arguments NotSpecified {A}.
Arguments DontSet {A}.
Arguments Value {A} a.

Definition cv_unwrap_or {A} (c : cv A) (n : A) : option A :=
  match c with NotSpecified => Some n | DontSet => None | Value v => Some v end.
Definition cv_or {A} (c : cv A) (n : option A) : option A :=
  match c with NotSpecified => n | DontSet => None | Value v => Some v end.
Definition cv_always_unwrap_or {A} (c : cv A) (n : A) : A :=
  match c with Value v => v | _ => n end.

(* ---- radv::config ------------------------------------------------------ *)
Record prefix := {
  p_addr : list N; p_len : N; p_onlink : bool; p_auto : bool; p_valid : dur; p_preferred : dur }.
Record pref64 := { n_lifetime : dur; n_prefix : list N; n_len : N }.
Record intf := {
  i_hoplimit : N; i_managed : bool; i_other : bool;
  i_lifetime : cv dur; i_reachable : dur; i_retrans : dur;
  i_prefixes : list prefix;
  i_rdnss_lifetime : cv dur; i_rdnss : cv (list (list N));
  i_dnssl_lifetime : cv dur; i_dnssl : cv (list (list N));
  i_captive : cv (list N);
  i_pref64 : option pref64 }.
(* the three top-level settings the builder reads; a DNS server is
   (family 4|6, octets) *)
Record top := { t_dns_servers : list (N * list N); t_dns_search : list (list N); t_captive : option (list N) }.
(* what the async wrapper passes in: link-layer address, MTU, the interface's
   own address, the router lifetime to use when none is configured *)
Record env := { e_ll : option (list N); e_mtu : option N; e_self6 : list N; e_lifetime : dur }.

(* ---- icmppkt::NDOptionValue / RtrAdvertisement ------------------------- *)
Inductive ndopt :=
| OSourceLL (b : list N)
| OMtu (m : N)
| OPrefix (len : N) (onlink auto : bool) (valid preferred : dur) (addr : list N)
| ORdnss (lt : dur) (servers : list (list N))
| ODnssl (lt : dur) (domains : list (list N))
| OPref64 (lt : dur) (len : N) (addr : list N)
| OCaptive (url : list N).
Record radv := {
  a_hop : N; a_managed : bool; a_other : bool;
  a_lifetime : dur; a_reachable : dur; a_retrans : dur; a_options : list ndopt }.

(* ---- build_announcement_pure ------------------------------------------ *)
Definition unspecified6 : list N := repeatN 0 16.
Definition is_unspecified (a : list N) : bool := bytes_eqb a unspecified6.
Definition subst_self6 (self6 a : list N) : list N := if is_unspecified a then self6 else a.

Definition top_rdnss (t : top) : list (list N) :=
  flat_map (fun s => if fst s =? 6 then [snd s] else []) (t_dns_servers t).

Definition default_dns_lifetime : dur := secs 1800.    (* 3 * DEFAULT_MAX_RTR_ADV_INTERVAL *)

Definition is_nil {A} (l : list A) : bool := match l with [] => true | _ => false end.

Definition build_options (t : top) (i : intf) (e : env) : list ndopt :=
  (match e_ll e with Some ll => [OSourceLL ll] | None => [] end)
  ++ (match e_mtu e with Some m => [OMtu m] | None => [] end)
  ++ map (fun p => OPrefix (p_len p) (p_onlink p) (p_auto p) (p_valid p) (p_preferred p) (p_addr p)) (i_prefixes i)
  ++ (match cv_unwrap_or (i_rdnss i) (top_rdnss t) with
      | Some v =>
        let v := map (subst_self6 (e_self6 e)) v in
        if is_nil v then [] else [ORdnss (cv_always_unwrap_or (i_rdnss_lifetime i) default_dns_lifetime) v]
      | None => [] end)
  ++ (match cv_unwrap_or (i_dnssl i) (t_dns_search t) with
      | Some v => if is_nil v then [] else [ODnssl (cv_always_unwrap_or (i_dnssl_lifetime i) default_dns_lifetime) v]
      | None => [] end)
  ++ (match i_pref64 i with Some p => [OPref64 (n_lifetime p) (n_len p) (n_prefix p)] | None => [] end)
  ++ (match cv_or (i_captive i) (t_captive t) with Some u => [OCaptive u] | None => [] end).

Definition build (t : top) (i : intf) (e : env) : radv :=
  {| a_hop := i_hoplimit i; a_managed := i_managed i; a_other := i_other i;
     a_lifetime := cv_always_unwrap_or (i_lifetime i) (e_lifetime e);
     a_reachable := i_reachable i; a_retrans := i_retrans i;
     a_options := build_options t i e |}.

(* ---- serialise_router_advertisement ------------------------------------ *)
Definition clamp (w v : N) : N := N.min v (pow2 w - 1).         (* uW::try_from(v).unwrap_or(uW::MAX) *)

(* address & netmask(len): the first [len] bits kept, octet by octet *)
Definition mask_byte (keep b : N) : N := let m := 2 ^ (8 - keep) in (b / m) * m.
Fixpoint mask_bytes (len : N) (bs : list N) : list N :=
  match bs with
  | [] => []
  | b :: r => mask_byte (N.min len 8) b :: mask_bytes (len - 8) r
  end.

(* RFC 8781 prefix length code, as the repaired encoder looks it up *)
Definition plc_of_len (len : N) : option N :=
  if len =? 96 then Some 0 else if len =? 64 then Some 1 else if len =? 56 then Some 2
  else if len =? 48 then Some 3 else if len =? 40 then Some 4 else if len =? 32 then Some 5 else None.

Fixpoint split_on (sep : N) (s : list N) : list (list N) :=      (* str::split('.') *)
  match s with
  | [] => [[]]
  | c :: r =>
    if c =? sep then [] :: split_on sep r
    else match split_on sep r with
         | l :: ls => (c :: l) :: ls
         | [] => [[c]]
         end
  end.

Definition enc_label (l : list N) : list N := cast 8 (lenN l) :: l.          (* label.len() as u8 *)
Definition enc_domain (d : list N) : list N := flat_map enc_label (split_on 46 d) ++ [0].
Definition pad8 (n : N) : N := (8 - n mod 8) mod 8.                          (* zeros up to a multiple of 8 *)
Definition enc_domains (ds : list (list N)) : list N :=
  let b := flat_map enc_domain ds in b ++ repeatN 0 (pad8 (lenN b)).
(* a name whose labels are all 1..63 octets; anything else is skipped by the encoder *)
Definition label_encodable (l : list N) : bool := (1 <=? lenN l) && (lenN l <=? 63).
Definition domain_encodable (d : list N) : bool := forallb label_encodable (split_on 46 d).
Definition enc_url (u : list N) : list N := u ++ repeatN 0 (pad8 (lenN u + 2)).
Definition div_ceil (a b : N) : N := (a + b - 1) / b.

(* the octets an option contributes, wherever the encoder does not abort *)
Definition enc_opt (o : ndopt) : list N :=
  match o with
  | OSourceLL b => 1 :: cast 8 (div_ceil (lenN b) 8) :: b
  | OMtu m => [5; 1; 0; 0] ++ be32 m
  | OPrefix len l a valid pref addr =>
    [3; 4; len; (if l then 128 else 0) + (if a then 64 else 0)]
    ++ be32 (clamp 32 (as_secs valid)) ++ be32 (clamp 32 (as_secs pref)) ++ [0; 0; 0; 0]
    ++ mask_bytes len addr
  | ORdnss lt servers =>
    [25; cast 8 (1 + 2 * lenN servers); 0; 0] ++ be32 (clamp 32 (as_secs lt)) ++ concat servers
  | ODnssl lt ds =>
    let ok := filter domain_encodable ds in
    if is_nil ok then []                          (* no name left: option omitted *)
    else
      let b := enc_domains ok in
      [31; 1 + cast 8 (lenN b / 8); 0; 0] ++ be32 (clamp 32 (as_secs lt)) ++ b
  | OPref64 lt len addr =>
    match plc_of_len len with
    | Some plc =>
      [38; 2] ++ be16 (N.min (div_ceil (as_secs lt) 8) 8191 * 8 + plc) ++ takeN 12 (mask_bytes len addr)
    | None => []                                  (* unencodable prefix length: option omitted *)
    end
  | OCaptive u =>
    let b := enc_url u in 37 :: cast 8 (1 + lenN b / 8) :: b
  end.

(* where the encoder aborts instead *)
Definition opt_panics (o : ndopt) : option panic_kind :=
  match o with
  | OSourceLL b => if div_ceil (lenN b) 8 <? 256 then None else Some UnwrapNone
  | ORdnss _ servers => if 1 + 2 * lenN servers <? 256 then None else Some UnwrapNone
  | ODnssl _ ds =>
    if cast 8 (lenN (enc_domains (filter domain_encodable ds)) / 8) =? 255 then Some Overflow else None
  | _ => None
  end.

Fixpoint first_panic (os : list ndopt) : option panic_kind :=
  match os with
  | [] => None
  | o :: r => match opt_panics o with Some k => Some k | None => first_panic r end
  end.

Definition enc_header (a : radv) : list N :=
  [134; 0; 0; 0; a_hop a; (if a_managed a then 128 else 0) + (if a_other a then 64 else 0)]
  ++ be16 (clamp 16 (as_secs (a_lifetime a)))
  ++ be32 (clamp 32 (as_millis (a_reachable a)))
  ++ be32 (clamp 32 (as_millis (a_retrans a))).

Definition enc_radv (a : radv) : list N := enc_header a ++ flat_map enc_opt (a_options a).

Definition serialise (a : radv) : outcome (list N) :=
  match first_panic (a_options a) with
  | Some k => Panic k
  | None =>
    let b := enc_radv a in
    if lenN b mod 8 =? 0 then Ok b else Panic Assert           (* assert_eq!(v.len() % 8, 0) *)
  end.

(* Model of crates/erbium-core/src/dns/cache/mod.rs (CacheHandler: get_entry,
   calculate_expiry, insert_cache_entry, expire, handle_query) and of
   dnspkt.rs (DNSPkt::get_expiry, clone_with_ttl_decrement).  Definitions only.

   Times are nanoseconds on tokio's clock.  Of a reply only what the cache
   looks at is kept: per section the list of (ttl, id) of its records, [id]
   standing for everything else in the record (it is copied unchanged).
   The upstream resolver is not modelled: its answer is an argument. *)
From Erbium Require Import Lib.Base.

Definition NS : N := 1000000000.

Definition rrs := list (N * N).                        (* (ttl, id) *)
Definition reply := (rrs * rrs * rrs)%type.            (* answer, nameserver, additional *)
Definition r_answer (r : reply) : rrs := fst (fst r).
Definition r_ns (r : reply) : rrs := snd (fst r).
Definition r_additional (r : reply) : rrs := snd r.
Definition all_rrs (r : reply) : rrs := r_answer r ++ r_ns r ++ r_additional r.

(* what the resolver returned: a reply or an error (1 Timeout, 2 FailedToSend,
   3 FailedToRecv, 4 TcpConnection, 5 Parse: remembered for 8 s; others: not) *)
Inductive result := ROk (r : reply) | RErr (e : N).

Record entry := { e_reply : result; e_birth : N; e_life : N }.

(* CacheKey: qname (octets, compared exactly), qtype, edns_do, cd *)
Definition key := (list (list N) * N * bool * bool)%type.
Definition key_eqb (a b : key) : bool :=
  match a, b with
  | (n1, t1, d1, c1), (n2, t2, d2, c2) =>
    list_eqb (list_eqb N.eqb) n1 n2 && (t1 =? t2) && Bool.eqb d1 d2 && Bool.eqb c1 c2
  end.

Definition cache := list (key * entry).                (* HashMap: at most one entry per key *)

Fixpoint lookup (k : key) (c : cache) : option entry :=
  match c with
  | [] => None
  | (k', e) :: r => if key_eqb k k' then Some e else lookup k r
  end.
Definition remove (k : key) (c : cache) : cache := filter (fun p => negb (key_eqb k (fst p))) c.
Definition insert (k : key) (e : entry) (c : cache) : cache := (k, e) :: remove k c.

(* DNSPkt::get_expiry, in seconds: the smallest TTL of all three sections, 0 if there is none *)
Fixpoint min_list (d : N) (l : list N) : N :=
  match l with
  | [] => d
  | x :: r => N.min x (min_list x r)
  end.
Definition min_ttl (r : reply) : N :=
  match map fst (all_rrs r) with
  | [] => 0
  | x :: l => min_list x (x :: l)
  end.

Definition cacheable_err (e : N) : bool := (1 <=? e) && (e <=? 5).

(* calculate_expiry, in ns *)
Definition calculate_expiry (res : result) : N :=
  match res with
  | ROk r => NS * min_ttl r
  | RErr e => if cacheable_err e then 8 * NS else 0
  end.

(* clone_with_ttl_decrement: `x.ttl - decrement` on u32 aborts on underflow *)
Fixpoint dec_rrs (d : N) (l : rrs) : outcome rrs :=
  match l with
  | [] => Ok []
  | (ttl, id) :: r =>
    do t <- sub_chk ttl d;
    do r' <- dec_rrs d r;
    Ok ((t, id) :: r')
  end.
Definition dec_reply (d : N) (r : reply) : outcome reply :=
  (* the struct literal evaluates additional, nameserver, answer in this order *)
  do ad <- dec_rrs d (r_additional r);
  do ns <- dec_rrs d (r_ns r);
  do an <- dec_rrs d (r_answer r);
  Ok (an, ns, ad).

Definition dec_result (res : result) (elapsed : N) : outcome result :=
  match res with
  | ROk r => do r' <- dec_reply (cast 32 (elapsed / NS)) r; Ok (ROk r')
  | RErr e => Ok (RErr e)
  end.

(* get_entry: a hit while expiry >= now *)
Definition get_entry (c : cache) (k : key) (now : N) : option (outcome result) :=
  match lookup k c with
  | Some e =>
    if now <=? e_birth e + e_life e then Some (dec_result (e_reply e) (now - e_birth e)) else None
  | None => None
  end.

(* expire: keep the entries with expiry >= now; the next run *)
Definition expire (c : cache) (now : N) : cache :=
  filter (fun p => now <=? e_birth (snd p) + e_life (snd p)) c.
Definition next_cycle (c : cache) (now clock : N) : N :=
  N.max (fold_right (fun p m => N.min m (e_birth (snd p) + e_life (snd p))) (now + 1800 * NS) (expire c now))
        (clock + 30 * NS).

(* handle_query.  [t_lookup]: the clock when the cache is consulted, [t_insert]:
   when the upstream result is stored; [up]: what the resolver returns if asked.
   Result: what the client of the cache gets, the new cache, whether the
   resolver was asked. *)
Definition handle (c : cache) (k : key) (qclass : N) (t_lookup t_insert : N) (up : result)
    : outcome result * cache * bool :=
  if negb (qclass =? 1) then (Ok up, c, true)
  else
    match get_entry c k t_lookup with
    | Some r => (r, c, false)
    | None =>
      let life := calculate_expiry up in
      (Ok up, (if 0 <? life then insert k {| e_reply := up; e_birth := t_insert; e_life := life |} c else c), true)
    end.

(* ---- histories ---------------------------------------------------------- *)
Inductive cop :=
| Query (k : key) (qclass : N) (t : N) (up : result)      (* lookup and insert at time t *)
| Expire (t : N).
Definition cop_time (o : cop) : N := match o with Query _ _ t _ => t | Expire t => t end.

(* what the client saw: (key, class, time, result, upstream asked) *)
Definition obs := (key * N * N * outcome result * bool)%type.

Fixpoint run (c : cache) (ops : list cop) : list obs :=
  match ops with
  | [] => []
  | Query k qc t up :: r =>
    match handle c k qc t t up with
    | (res, c', asked) => (k, qc, t, res, asked) :: run c' r
    end
  | Expire t :: r => run (expire c t) r
  end.

(* Token-level decoding shared by check_C01 / check_C09 / check_C10.
   A case line is a whole history:

     case   := nev event*
     event  := 1 via cidmode reqmode alt client req pool tmin tmax tlo thi answer opt51 rows   (Alloc)
             | 2 d                                                                            (Tick)
             | 3 rows                                                                         (Restart)
             | 4 rows                      (Kill: rows of a copy of the store files, taken while open)
             | 6 ...as 1...                (Alloc while ANOTHER connection holds the store's write lock: the
                                            model admits an error answer with unchanged rows, or -- if the
                                            write went through -- an ordinary step; a grant without its
                                            row fails C10.2 / C01.4)
             | 5 ...as 1...                (Alloc whose reply is produced but never reaches the client:
                                            same step, but the grant is not logged as held)
     via    := 0 Pool::allocate_address | 1 handle_pkt(DISCOVER) | 2 handle_pkt(REQUEST)
     cidmode reqmode alt : how the harness put client id / requested address into the packet
                           (input for replay; the model only sees the effective client/req)
     client := len byte*          req := 0 | 1 ip          pool := n ip*
     tlo thi: absolute clock (wall clock + seconds ticked so far) read before / after the call
     answer := 0 ip secs kind | 1 (NoAssignableAddress) | 2 (RequestedAddressInUse) | 3 (other error) | 4 (panic)
               kind: 0 New 1 Reusing 2 Requested 3 Revived 4 not observable (through handle_pkt;
               then secs is 0 and the lease time is read off the row)
     opt51  := 0 | 1 v            (option 51 of the reply built by handle_pkt)
     rows   := n (addr client start expiry)*      (get_leases() after the step, absolute time)

   The fold keeps the implementation's own rows of the previous step as the
   store, so both the model step and the property predicates are evaluated
   on what the implementation reported. *)
From Erbium Require Import Lib.Base Model.DhcpPool.

Definition tok_opt (ts : list N) : option (option N * list N) :=
  match ts with
  | 0 :: r => Some (None, r)
  | 1 :: v :: r => Some (Some v, r)
  | _ => None
  end.

Fixpoint tok_rows_n (n : nat) (ts : list N) : option (list row * list N) :=
  match n with
  | O => Some ([], ts)
  | S n' =>
      match ts with
      | a :: r =>
          match tok_bytes r with
          | Some (c, s :: e :: r') =>
              match tok_rows_n n' r' with
              | Some (rs, r'') => Some ({| r_addr := a; r_client := c; r_start := s; r_expiry := e |} :: rs, r'')
              | None => None
              end
          | _ => None
          end
      | [] => None
      end
  end.
Definition tok_rows (ts : list N) : option (list row * list N) :=
  match ts with
  | n :: r => if n <=? lenN r then tok_rows_n (N.to_nat n) r else None
  | [] => None
  end.

Definition kind_of (k : N) : option kind :=
  match k with 0 => Some NewAddress | 1 => Some ReusingLease | 2 => Some Requested | 3 => Some Revived | _ => None end.

(* answer as the implementation gave it: granted ip/secs/kind-token, or an error code *)
Inductive ianswer := IGranted (ip secs k : N) | IErr (code : N).
Definition tok_answer (ts : list N) : option (ianswer * list N) :=
  match ts with
  | 0 :: ip :: s :: k :: r => if k <=? 4 then Some (IGranted ip s k, r) else None
  | 1 :: r => Some (IErr 1, r)
  | 2 :: r => Some (IErr 2, r)
  | 3 :: r => Some (IErr 3, r)
  | 4 :: r => Some (IErr 4, r)
  | _ => None
  end.

Record ialloc := { i_via : N; i_rq : N; i_lost : bool; i_locked : bool; i_op : op; i_tlo : N; i_thi : N; i_ans : ianswer; i_opt51 : option N; i_rows : list row }.
(* IReplay k (C18, last event): the same events run once more on a store that is never closed answer the k-th
   allocation differently (another address, or a refusal for an address); 0: the same throughout *)
Inductive ievent := IAlloc (a : ialloc) | ITick (d : N) | IRestart (rows : list row) | IKill (rows : list row)
                  | IReplay (k : N).

Definition tok_event (ts : list N) : option (ievent * list N) :=
  match ts with
  | kind :: via :: _cid :: rq :: _alt :: r =>
      if negb ((kind =? 1) || (kind =? 5) || (kind =? 6)) then
        match ts with
        | 2 :: d :: r => Some (ITick d, r)
        | 3 :: r => match tok_rows r with Some (rows, r') => Some (IRestart rows, r') | None => None end
        | 4 :: r => match tok_rows r with Some (rows, r') => Some (IKill rows, r') | None => None end
        | 7 :: k :: r => Some (IReplay k, r)
        | _ => None
        end
      else
      match tok_bytes r with
      | Some (c, r1) =>
        match tok_opt r1 with
        | Some (req, r2) =>
          match tok_bytes r2 with
          | Some (pool, tmin :: tmax :: tlo :: thi :: r3) =>
            match tok_answer r3 with
            | Some (ans, r4) =>
              match tok_opt r4 with
              | Some (o51, r5) =>
                match tok_rows r5 with
                | Some (rows, r6) =>
                    Some (IAlloc {| i_via := via; i_rq := rq; i_lost := kind =? 5; i_locked := kind =? 6;
                                    i_op := {| o_client := c; o_req := req; o_pool := pool; o_min := tmin; o_max := tmax |};
                                    i_tlo := tlo; i_thi := thi; i_ans := ans; i_opt51 := o51; i_rows := rows |}, r6)
                | None => None
                end
              | None => None
              end
            | None => None
            end
          | _ => None
          end
        | None => None
        end
      | None => None
      end
  | 2 :: d :: r => Some (ITick d, r)
  | 3 :: r => match tok_rows r with Some (rows, r') => Some (IRestart rows, r') | None => None end
  | 4 :: r => match tok_rows r with Some (rows, r') => Some (IKill rows, r') | None => None end
  | 7 :: k :: r => Some (IReplay k, r)
  | _ => None
  end.

Fixpoint tok_events (n : nat) (ts : list N) : option (list ievent) :=
  match n with
  | O => match ts with [] => Some [] | _ => None end
  | S n' => match tok_event ts with
            | Some (e, r) => match tok_events n' r with Some es => Some (e :: es) | None => None end
            | None => None
            end
  end.
Definition tok_history (ts : list N) : option (list ievent) :=
  match ts with
  | n :: r => if n <=? lenN r then tok_events (N.to_nat n) r else None
  | [] => None
  end.

(* ---- comparison of stores -------------------------------------------- *)
Definition rows_sub (a b : list row) : bool := forallb (fun r => existsb (row_eqb r) b) a.
Definition rows_same (a b : list row) : bool :=
  (lenN a =? lenN b) && rows_sub a b && rows_sub b a.
Fixpoint nodup_addr (rs : list row) : bool :=
  match rs with
  | [] => true
  | r :: l => negb (existsb (fun r' => r_addr r' =? r_addr r) l) && nodup_addr l
  end.

(* ---- the model step on one implementation step ------------------------ *)
Definition cand_times (tlo thi : N) : list N :=
  filter (fun t => t <=? thi) [tlo; tlo + 1; tlo + 2; tlo + 3].
Definition cand_pairs (tlo thi : N) : list (N * N) :=
  flat_map (fun t1 => map (fun t2 => (t1, t2)) (filter (fun t2 => t1 <=? t2) (cand_times tlo thi)))
           (cand_times tlo thi).

(* the lease time the pool returned; through handle_pkt (kind 4) it is not visible and is
   read off the server's record -- option 51 is then compared with it by pred_C10 *)
Definition adv_secs (a : ialloc) (ip secs k : N) : N :=
  if k =? 4 then
    match find_addr ip (i_rows a) with Some r => r_expiry r - r_start r | None => 0 end
  else secs.

Definition cand_answers (a : ialloc) : list answer :=
  match i_ans a with
  | IGranted ip secs k =>
      let s := adv_secs a ip secs k in
      match kind_of k with
      | Some kd => [Granted ip s kd]
      | None => [Granted ip s ReusingLease; Granted ip s Revived; Granted ip s Requested; Granted ip s NewAddress]
      end
  | IErr 1 => [NoAddress]
  | IErr 2 => [InUse]
  | IErr 3 => [DbErr]
  | IErr _ => [Panicked]
  end.

(* 0 = some candidate accepted and the stores agree; 1 = no candidate answer admissible;
   2 = admissible, but the store the implementation holds differs *)
Definition model_step (prev : db) (a : ialloc) : N * answer :=
  let tries := flat_map (fun p => map (fun ans => (p, ans)) (cand_answers a)) (cand_pairs (i_tlo a) (i_thi a)) in
  let ok := filter (fun pa => match alloc_ok prev (i_op a) (fst (fst pa)) (snd (fst pa)) (snd pa) with
                              | Some _ => true | None => false end) tries in
  match find (fun pa => match alloc_ok prev (i_op a) (fst (fst pa)) (snd (fst pa)) (snd pa) with
                        | Some d' => rows_same d' (i_rows a) | None => false end) ok with
  | Some pa => (0, snd pa)
  | None => match ok with pa :: _ => (2, snd pa) | [] => (1, DbErr) end
  end.

(* ---- property predicates on the implementation's own behaviour -------- *)
(* C01.1: the latest grant of ip to some other client has not expired (log is newest first) *)
Fixpoint other_holds (log : list grant) (seen : list (list N)) (c : list N) (ip t : N) : bool :=
  match log with
  | [] => false
  | g :: l =>
      if (g_addr g =? ip) && negb (bytes_eqb (g_client g) c) && negb (existsb (bytes_eqb (g_client g)) seen)
      then (t <? g_expiry g) || other_holds l (g_client g :: seen) c ip t
      else other_holds l seen c ip t
  end.

Definition pred_C01 (prev : db) (log : list grant) (a : ialloc) : N :=
  let c := o_client (i_op a) in
  if negb (nodup_addr (i_rows a)) then 3
  else match i_ans a with
  | IGranted ip _ _ =>
      if other_holds log [] c ip (i_thi a) then 1
      else if existsb (fun r => (r_addr r =? ip) && negb (mine c r) && (i_thi a <? r_expiry r)) prev then 2
      else if negb (existsb (fun r => (r_addr r =? ip) && mine c r && (i_tlo a <=? r_start r)) (i_rows a)) then 4
      else 0
  | _ => 0
  end.

Definition pred_C09 (prev : db) (a : ialloc) : N :=
  let o := i_op a in
  let c := o_client o in
  let A t x := in_pool (o_pool o) x && held_by prev c x t in
  let nonempty := existsb (A (i_thi a)) (o_pool o) in
  match i_ans a with
  | IGranted ip _ _ =>
      if nonempty && negb (A (i_tlo a) ip) then 1
      else match o_req o with
           | Some q => if A (i_thi a) q && negb (ip =? q) then 2 else 0
           | None => 0
           end
  | IErr 1 =>
      if nonempty then 1
      else if existsb (fun x => negb (existsb (fun r => (r_addr r =? x) && negb (mine c r) && (i_tlo a <=? r_expiry r)) prev))
                      (o_pool o) then 3
      else 0
  | IErr _ => if nonempty && negb (i_locked a) then 1 else 0     (* store locked by another connection: a write error is the right answer *)
  end.

Definition pred_C10 (a : ialloc) : N :=
  let o := i_op a in
  match i_ans a with
  | IGranted ip secs k =>
      let s := adv_secs a ip secs k in
      if negb (i_via a =? 0) && negb (opt_eqb N.eqb (i_opt51 a) (Some s)) then 4
      else if (o_min o <=? o_max o) && negb ((o_min o <=? s) && (s <=? o_max o)) then 1
      else match find_addr ip (i_rows a) with
           | Some r =>
               if negb ((r_start r <=? r_expiry r) && (r_expiry r - r_start r =? s)) then 2
               else if r_expiry r <? i_tlo a + s then 3
               else 0
           | None => 2
           end
  | _ => 0
  end.

(* ---- the fold ---------------------------------------------------------- *)
Definition kind_bit (a : answer) : N :=
  match a with
  | Granted _ _ NewAddress => 1
  | Granted _ _ ReusingLease => 2
  | Granted _ _ Requested => 4
  | Granted _ _ Revived => 8
  | NoAddress => 16
  | _ => 0
  end.

(* f_diff: the first step (index, code) at which the model did not admit the implementation's
   answer or store -- the fold goes on after a
   disagreement, with the implementation's rows as the store, so that a later failure of the
   property predicate still turns the disagreement into a failing input *)
Record fstate := { f_prev : db; f_log : list grant; f_now : N; f_idx : N; f_mask : N; f_diff : option (N * N) }.

(* which: 1 = C01, 9 = C09, 10 = C10, 18 = C18 (only the restart predicate) *)
Definition pred_of (which : N) (s : fstate) (a : ialloc) : N :=
  match which with
  | 1 => pred_C01 (f_prev s) (f_log s) a
  | 9 => pred_C09 (f_prev s) a
  | 10 => pred_C10 a
  | _ => 0
  end.

Definition recorded_expiry (a : ialloc) (ip secs : N) : N :=
  match find_addr ip (i_rows a) with Some r => r_expiry r | None => i_thi a + secs end.

Definition note_diff (s : fstate) (code : N) : option (N * N) :=
  match f_diff s with Some d => Some d | None => Some (f_idx s, code) end.

Fixpoint fold_events (which : N) (s : fstate) (es : list ievent) : list N :=
  match es with
  | [] => match f_diff s with Some (i, c) => v_diff [i; c] | None => v_ok (f_mask s) end
  | ITick d :: es' =>
      fold_events which {| f_prev := f_prev s; f_log := f_log s; f_now := f_now s + d; f_idx := f_idx s + 1;
                           f_mask := f_mask s; f_diff := f_diff s |} es'
  | IRestart rows :: es' =>
      (* C18: closing and reopening the store must not lose, add or alter a lease *)
      if (which =? 18) && negb (rows_same (f_prev s) rows) then v_viol 3 else
      fold_events which {| f_prev := rows; f_log := f_log s; f_now := f_now s; f_idx := f_idx s + 1;
                           f_mask := N.lor (f_mask s) 32;
                           f_diff := if rows_same (f_prev s) rows then f_diff s else note_diff s 3 |} es'
  | IKill rows :: es' =>
      (* C18: what a SIGKILL at this instant leaves on disk (a copy of the store files taken
         while the connection is open) must hold the row of every allocation whose reply was
         already produced -- every such allocation is committed before the reply, so the copy
         shows exactly the live rows.  For the other properties a kill is a no-op. *)
      if (which =? 18) && negb (rows_same (f_prev s) rows) then v_viol 4 else
      fold_events which {| f_prev := f_prev s; f_log := f_log s; f_now := f_now s; f_idx := f_idx s + 1;
                           f_mask := N.lor (f_mask s) 64; f_diff := f_diff s |} es'
  | IReplay k :: es' =>
      (* C18 (S05, restart transparency): what clients are told must not depend on whether the server was
         restarted in between -- nothing but the store carries over *)
      if (which =? 18) && negb (k =? 0) then v_viol 6 else
      fold_events which {| f_prev := f_prev s; f_log := f_log s; f_now := f_now s; f_idx := f_idx s + 1;
                           f_mask := N.lor (f_mask s) 128; f_diff := f_diff s |} es'
  | IAlloc a :: es' =>
      if negb ((f_now s <=? i_tlo a) && (i_tlo a <=? i_thi a)) then v_bad
      else
      let p := pred_of which s a in
      if negb (p =? 0) then v_viol p
      else
      (* C18: a REQUEST that names this server (option 54 = the receiving address) is for this server
         even when the in-memory set of identifiers is empty, as it is right after a restart: it
         must not be dropped as "for another server" (error answer 3 without a locked store) *)
      if (which =? 18) && (128 <=? i_rq a) && negb (i_locked a) &&
         (match i_ans a with IErr 3 => true | _ => false end) then v_viol 5
      else
      if i_locked a && (match i_ans a with IErr 3 => true | _ => false end) && rows_same (f_prev s) (i_rows a)
      then (* the write could not be made (another connection holds the lock): an error, nothing stored *)
        fold_events which {| f_prev := f_prev s; f_log := f_log s; f_now := i_thi a; f_idx := f_idx s + 1;
                             f_mask := f_mask s; f_diff := f_diff s |} es'
      else
      let '(code, ans) := model_step (f_prev s) a in
      let log' := if i_lost a then f_log s else
                  match i_ans a with
                  | IGranted ip secs k =>
                      let sv := adv_secs a ip secs k in
                      {| g_client := o_client (i_op a); g_addr := ip; g_time := i_thi a;
                         g_expiry := recorded_expiry a ip sv; g_secs := sv;
                         g_min := o_min (i_op a); g_max := o_max (i_op a) |} :: f_log s
                  | _ => f_log s
                  end in
      fold_events which {| f_prev := i_rows a; f_log := log'; f_now := i_thi a; f_idx := f_idx s + 1;
                           f_mask := N.lor (f_mask s) (kind_bit ans);
                           f_diff := if code =? 0 then f_diff s else note_diff s code |} es'
  end.

Definition check_pool (which : N) (ts : list N) : list N :=
  match tok_history ts with
  | Some es => fold_events which {| f_prev := []; f_log := []; f_now := 0; f_idx := 0; f_mask := 0; f_diff := None |} es
  | None => v_bad
  end.

(* Model of the configuration side of the DHCP server:
   - the abstract configuration (what erbium.conf says, after YAML),
   - dhcp/config.rs parse_policy: option values to octets, address handling
     (apply-address / apply-range / apply-subnet, subtraction of everything a
     sub-policy names), Policy::get_all_used_addresses,
   - dhcp/mod.rs build_default_config, and the walk handle_discover /
     handle_request perform (base policy first, then dhcp-policies),
   - the options of the reply.
   Address sets are membership predicates over N; nothing is enumerated.
   The model is of the code AFTER the repair of F19 (the last host address of
   a subnet is part of the pool).  F20 (a configured pool is not purged of the
   receiving address) is NOT repaired -- the repair conflicts with the test
   suite -- and is modelled as coded.  Definitions only. *)
From Erbium Require Import Lib.Base Model.DhcpPolicy.

(* ---- option values (DhcpOptionTypeValue::as_bytes) --------------------- *)
Inductive value :=
| VBytes (b : list N)                 (* String, HwAddr *)
| VIp (x : N)
| VIpList (l : list N)
| VU8 (n : N)                         (* U8, Bool *)
| VU16 (n : N)                        (* U16, Seconds16 *)
| VU32 (n : N)                        (* U32, Seconds32, I32 (two's complement) *)
| VDomains (l : list (list N))
| VRoutes (l : list (N * N * N)).     (* prefixlen, prefix address, next hop *)

(* str::split('.'): always at least one piece *)
Fixpoint split_dot (cur : list N) (s : list N) : list (list N) :=
  match s with
  | [] => [rev cur]
  | c :: r => if c =? 46 then rev cur :: split_dot [] r else split_dot (c :: cur) r
  end.
Definition domain_bytes (d : list N) : list N :=
  flat_map (fun lab => cast 8 (lenN lab) :: lab) (split_dot [] d) ++ [0].

Definition val_bytes (v : value) : list N :=
  match v with
  | VBytes b => b
  | VIp x => be32 x
  | VIpList l => flat_map be32 l
  | VU8 n => [n mod 256]
  | VU16 n => be16 n
  | VU32 n => be32 n
  | VDomains l => flat_map domain_bytes l
  | VRoutes l => flat_map (fun r => match r with (len, net, hop) => (len mod 256) :: be32 net ++ be32 hop end) l
  end.

(* ---- addresses named by a policy --------------------------------------- *)
Inductive aitem :=
| AAddr (x : N)                       (* apply-address *)
| ARange (s e : N)                    (* apply-range {start, end}: `start..=end` *)
| ASubnet (net len : N).              (* apply-subnet *)

(* offsets 1 ..= 2^(32-len) - 2 from the network address *)
Definition hosts (net len x : N) : bool := (net + 1 <=? x) && (x + 2 <=? net + 2 ^ (32 - len)).
Definition item_mem (x : N) (i : aitem) : bool :=
  match i with
  | AAddr a => x =? a
  | ARange s e => (s <=? x) && (x <=? e)
  | ASubnet net len => hosts net len x
  end.

(* ---- the abstract configuration ---------------------------------------- *)
Inductive cpolicy :=
| CPolicy (sn : option subnet)                      (* match-subnet *)
          (ch : option (list N))                    (* match-hardware-address *)
          (mo : list (N * option value))            (* match-<option>: value | null *)
          (ao : list (N * option value))            (* apply-<option>: value | null *)
          (ad : list aitem)                         (* apply-address/-range/-subnet; [] = none given *)
          (kids : list cpolicy).                    (* policies: *)

Definition c_subnet (c : cpolicy) := match c with CPolicy s _ _ _ _ _ => s end.
Definition c_chaddr (c : cpolicy) := match c with CPolicy _ h _ _ _ _ => h end.
Definition c_match (c : cpolicy) := match c with CPolicy _ _ m _ _ _ => m end.
Definition c_apply (c : cpolicy) := match c with CPolicy _ _ _ a _ _ => a end.
Definition c_addrs (c : cpolicy) := match c with CPolicy _ _ _ _ a _ => a end.
Definition c_kids (c : cpolicy) := match c with CPolicy _ _ _ _ _ k => k end.

Inductive dns_item := DSelf4 | DSelf6 | DV4 (x : N) | DV6.
Inductive prefix_item := P4 (net len : N) | P6.

Record config := {
  g_dns : option (list dns_item);        (* dns-servers; absent = [$self4, $self6] *)
  g_search : list (list N);              (* dns-search *)
  g_portal : option (list N);            (* captive-portal *)
  g_addresses : list prefix_item;        (* addresses *)
  g_policies : list cpolicy              (* dhcp-policies *)
}.

(* ---- Policy::get_all_used_addresses on loaded policies ----------------- *)
Fixpoint used_rt (p : policy) (x : N) : bool :=
  (match p_addr p with Some f => f x | None => false end)
  || (fix any (ps : list policy) : bool :=
        match ps with [] => false | q :: r => used_rt q x || any r end) (p_kids p).
Definition used_all (ps : list policy) (x : N) : bool := existsb (fun p => used_rt p x) ps.

(* ---- parse_policy ------------------------------------------------------- *)
Definition load_opts (l : list (N * option value)) : list (N * option (list N)) :=
  map (fun e => (fst e, option_map val_bytes (snd e))) l.

Fixpoint load (c : cpolicy) : policy :=
  let kids := (fix go (cs : list cpolicy) : list policy :=
                 match cs with [] => [] | d :: r => load d :: go r end) (c_kids c) in
  Policy false (c_subnet c) (c_chaddr c) (load_opts (c_match c)) (load_opts (c_apply c))
    (match c_addrs c with
     | [] => None
     | items => Some (fun x => existsb (item_mem x) items && negb (used_all kids x))
     end)
    kids.

(* the loader rejects a policy whose match-subnet / apply-subnet has host bits set *)
Fixpoint loads (c : cpolicy) : bool :=
  (match c_subnet c with Some s => subnet_valid s | None => true end)
  && forallb (fun i => match i with ASubnet n l => subnet_valid (n, l) | _ => true end) (c_addrs c)
  && (fix all (cs : list cpolicy) : bool :=
        match cs with [] => true | d :: r => loads d && all r end) (c_kids c).

(* ---- build_default_config ---------------------------------------------- *)
Definition OPTION_ROUTERADDR : N := 3.
Definition OPTION_DOMAINSERVER : N := 6.
Definition OPTION_MTUIF : N := 26.
Definition OPTION_CAPTIVEPORTAL : N := 114.
Definition OPTION_DOMAINSEARCH : N := 119.

Definition dns_default : list dns_item := [DSelf4; DSelf6].
Definition dns_v4 (serverip : N) (l : list dns_item) : list N :=
  flat_map (fun d => match d with
                     | DSelf4 => [serverip]
                     | DV4 x => if x =? 0 then [serverip] else [x]     (* 0.0.0.0 IS the $self4 marker *)
                     | DSelf6 | DV6 => []
                     end) l.

(* Prefix4::contains (the prefix is written network-aligned) *)
Definition prefix_contains (net len ip : N) : bool := N.land ip (netmask len) =? net.

Definition default_subpolicy (g : config) (req : request) (conf : list policy) (pi : prefix_item) : list policy :=
  match pi with
  | P6 => []
  | P4 net len =>
    let nw := N.land net (netmask len) in
    [Policy false (Some (nw, len)) None []
       (if prefix_contains net len (r_serverip req)
        then (match r_mtu req with Some m => [(OPTION_MTUIF, Some (be16 (cast 16 m)))] | None => [] end)
             ++ (match r_router req with Some r => [(OPTION_ROUTERADDR, Some (be32 r))] | None => [] end)
        else [])
       (Some (fun x => hosts nw len x && negb (x =? r_serverip req) && negb (used_all conf x)))
       []]
  end.

Definition build_default (g : config) (req : request) (conf : list policy) : policy :=
  Policy true None None []
    [ (OPTION_DOMAINSERVER,
       Some (flat_map be32 (dns_v4 (r_serverip req) (match g_dns g with Some l => l | None => dns_default end))));
      (OPTION_DOMAINSEARCH, Some (flat_map domain_bytes (g_search g)));
      (OPTION_CAPTIVEPORTAL, g_portal g) ]
    None
    (flat_map (default_subpolicy g req conf) (g_addresses g)).

(* ---- the walk of handle_discover / handle_request ---------------------- *)
Definition conf_policies (g : config) : list policy := map load (g_policies g).

Definition policy_walk (g : config) (req : request) (init : table) : bool * response :=
  let conf := conf_policies g in
  match apply_policies req [build_default g req conf] {| rs_opts := init; rs_addr := None |} with
  | (b1, r1) => match apply_policies req conf r1 with (b2, r2) => (b1 || b2, r2) end
  end.

(* the address set a request may be served from; None = no pool at all *)
Definition allowed_set (g : config) (req : request) : option (N -> bool) :=
  rs_addr (snd (policy_walk g req [])).
Definition allowed (g : config) (req : request) (x : N) : bool :=
  match allowed_set g req with Some f => f x | None => false end.

(* ---- options of the reply ----------------------------------------------- *)
Definition OPTION_LEASETIME : N := 51.
Definition OPTION_MSGTYPE : N := 53.
Definition OPTION_SERVERID : N := 54.
Definition init_table (req : request) : table :=
  tset OPTION_SERVERID (Some (be32 (r_serverip req))) (tset OPTION_MSGTYPE (Some [2]) []).

(* OFFER: walk, then server-id again, then the lease time *)
Definition offer_table (g : config) (req : request) (lease : N) : table :=
  tset OPTION_LEASETIME (Some (be32 lease))
    (tset OPTION_SERVERID (Some (be32 (r_serverip req))) (rs_opts (snd (policy_walk g req (init_table req))))).
(* ACK: walk, then message type, server-id (the one the client named, if any), lease time *)
Definition ack_table (g : config) (req : request) (lease : N) : table :=
  tset OPTION_LEASETIME (Some (be32 lease))
    (tset OPTION_SERVERID
       (Some (match ropt OPTION_SERVERID req with
              | Some [a; b; c; d] => [a; b; c; d]
              | _ => be32 (r_serverip req) end))
       (tset OPTION_MSGTYPE (Some [5]) (rs_opts (snd (policy_walk g req (init_table req)))))).

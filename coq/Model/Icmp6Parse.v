(* Model of the ICMPv6 router solicitation / advertisement DECODER
   crates/erbium-core/src/radv/icmppkt.rs: parse, parse_nd_rtr_solicit,
   parse_nd_rtr_advert, parse_nd_rtr_options, on top of the cursor
   crates/erbium-core/src/pktparser/mod.rs: Buffer (new, remaining, get_u8,
   get_bytes, get_be16, get_be32).

   Every Rust operation that can abort in the debug profile is an explicit
   check here that yields [Panic k]: slice indexing and ranges, checked usize
   arithmetic (offset + n, l * 8 - 2, p + 1, len - offset), `try_into().unwrap()`
   to a fixed-size array, `<[u8;16]>::try_from(..).unwrap()`.  None of them is
   assumed away on the strength of an earlier length test: that they cannot
   fire is what Proofs/Icmp6Parse.v proves.  Exhausting the fuel of the
   options loop is [Panic Unreachable], so the same theorem shows the fuel is
   sufficient.

   `String::from_utf8` failing is an [Err], not a panic.  `log::trace!` is
   not modelled (formatting of a u8 pair; no abort).
   Definitions only. *)
From Erbium Require Import Lib.Base.

Definition E_TRUNCATED : N := 1.        (* Error::Truncated *)
Definition E_ENCODING : N := 2.         (* Error::InvalidEncoding *)
Definition E_PACKET : N := 3.           (* Error::InvalidPacket *)

Definition USZ : N := 64.               (* width of usize *)

(* ---- parse result ------------------------------------------------------ *)
(* NDOptionValue.  The decoder has no arm for DNSSL (31): it is ignored, so
   DnsSearchList is never produced and has no constructor here. *)
Inductive ndopt :=
| SourceLLAddr (v : list N)
| Mtu (mtu : N)
| Prefix (prefixlen : N) (onlink autonomous : bool) (valid_s preferred_s : N) (prefix : list N)
| RecursiveDnsServers (lifetime_s : N) (servers : list (list N))
| CaptivePortal (url : list N)                     (* the UTF-8 octets of the String *)
| Pref64 (lifetime_s : N) (prefixlen : N) (prefix : list N).

Record rtradv := {
  ra_hop_limit : N; ra_managed : bool; ra_other : bool;
  ra_lifetime_s : N; ra_reachable_ms : N; ra_retrans_ms : N;
  ra_options : list ndopt
}.

Inductive icmp6 :=
| Unknown
| RtrSolicit (opts : list ndopt)
| RtrAdvert (ra : rtradv).

(* ---- slices ------------------------------------------------------------ *)
(* v[i] *)
Definition index_chk (l : list N) (i : N) : outcome N :=
  match nthN l i with Some x => Ok x | None => Panic IndexOOB end.
(* v[lo..hi] of a slice whose length is [len] *)
Definition slice_len_chk (len lo hi : N) (l : list N) : outcome (list N) :=
  if hi <? lo then Panic IndexOOB
  else if len <? hi then Panic IndexOOB
  else Ok (takeN (hi - lo) (dropN lo l)).
Definition slice_chk (lo hi : N) (l : list N) : outcome (list N) :=
  slice_len_chk (lenN l) lo hi l.
(* v[lo..=hi]: aborts when hi = usize::MAX, otherwise v[lo..hi+1] *)
Definition slice_incl_chk (lo hi : N) (l : list N) : outcome (list N) :=
  do h <- add_chk USZ hi 1 ; slice_chk lo h l.
(* v[lo..] *)
Definition slice_from_chk (lo : N) (l : list N) : outcome (list N) :=
  slice_chk lo (lenN l) l.
(* <[u8; n]>::try_from(x).unwrap()  /  x.try_into().unwrap() *)
Definition to_array (n : N) (l : list N) : outcome (list N) :=
  if lenN l =? n then Ok l else Panic UnwrapNone.

Fixpoint mapM {A B} (f : A -> outcome B) (l : list A) : outcome (list B) :=
  match l with
  | [] => Ok []
  | a :: r => do b <- f a ; do bs <- mapM f r ; Ok (b :: bs)
  end.

(* ---- pktparser::Buffer -------------------------------------------------- *)
Record buffer := { b_buf : list N; b_len : N (* buffer.len() *); b_off : N }.
Definition buf_new (l : list N) : buffer := {| b_buf := l; b_len := lenN l; b_off := 0 |}.
Definition buf_seek (s : buffer) (o : N) : buffer :=
  {| b_buf := b_buf s; b_len := b_len s; b_off := o |}.

(* self.buffer.len() - self.offset *)
Definition remaining (s : buffer) : outcome N := sub_chk (b_len s) (b_off s).

Definition get_u8 (s : buffer) : outcome (option (N * buffer)) :=
  if b_off s <? b_len s then
    do x <- index_chk (b_buf s) (b_off s) ;
    do o <- add_chk USZ (b_off s) 1 ;
    Ok (Some (x, buf_seek s o))
  else Ok None.

(* `self.offset + b` is evaluated three times in the source (test, slice
   end, new offset); same operands, so one check stands for the three. *)
Definition get_bytes (n : N) (s : buffer) : outcome (option (list N * buffer)) :=
  do e <- add_chk USZ (b_off s) n ;
  if e <=? b_len s then
    do v <- slice_len_chk (b_len s) (b_off s) e (b_buf s) ;
    Ok (Some (v, buf_seek s e))
  else Ok None.

(* get_be16 / get_be32: get_bytes(size_of)?, then from_be_bytes(bytes.try_into().unwrap()) *)
Definition get_be (n : N) (s : buffer) : outcome (option (N * buffer)) :=
  do r <- get_bytes n s ;
  match r with
  | None => Ok None
  | Some (v, s') => do a <- to_array n v ; Ok (Some (be_decode a, s'))
  end.

(* .ok_or(e)? *)
Definition ok_or {A} (e : N) (o : outcome (option A)) : outcome A :=
  do x <- o ; match x with Some a => Ok a | None => Err e end.

(* ---- String::from_utf8: well-formed UTF-8 (Unicode 15, Table 3-7) ------- *)
Definition in_rng (lo hi b : N) : bool := (lo <=? b) && (b <=? hi).
Definition cont (b : N) : bool := in_rng 128 191 b.
Fixpoint utf8_ok (l : list N) : bool :=
  match l with
  | [] => true
  | b0 :: r0 =>
    if b0 <? 128 then utf8_ok r0
    else if in_rng 194 223 b0 then
      match r0 with
      | b1 :: r1 => cont b1 && utf8_ok r1
      | _ => false
      end
    else if in_rng 224 239 b0 then
      match r0 with
      | b1 :: b2 :: r2 =>
        (if b0 =? 224 then in_rng 160 191 b1          (* no overlong 3-octet forms *)
         else if b0 =? 237 then in_rng 128 159 b1     (* no surrogates D800..DFFF *)
         else cont b1)
        && cont b2 && utf8_ok r2
      | _ => false
      end
    else if in_rng 240 244 b0 then
      match r0 with
      | b1 :: b2 :: b3 :: r3 =>
        (if b0 =? 240 then in_rng 144 191 b1          (* no overlong 4-octet forms *)
         else if b0 =? 244 then in_rng 128 143 b1     (* nothing above U+10FFFF *)
         else cont b1)
        && cont b2 && cont b3 && utf8_ok r3
      | _ => false
      end
    else false                                        (* 80..C1, F5..FF *)
  end.

(* value.iter().rposition(|b| *b != 0) *)
Fixpoint rposition_nz_from (i : N) (acc : option N) (l : list N) : option N :=
  match l with
  | [] => acc
  | b :: r => rposition_nz_from (i + 1) (if b =? 0 then acc else Some i) r
  end.
Definition rposition_nz (l : list N) : option N := rposition_nz_from 0 None l.

(* value.chunks_exact(n): the complete chunks, the remainder is dropped *)
Fixpoint chunks_exact (fuel : nat) (n : N) (l : list N) : list (list N) :=
  match fuel with
  | O => []
  | S f => if n <=? lenN l then takeN n l :: chunks_exact f n (dropN n l) else []
  end.

(* RFC 8781 section 4, Prefix Length Code: `match scaled_lifetime_plc & 0x07` *)
Definition pref64_len (plc : N) : option N :=
  if plc =? 0 then Some 96 else if plc =? 1 then Some 64 else if plc =? 2 then Some 56
  else if plc =? 3 then Some 48 else if plc =? 4 then Some 40 else if plc =? 5 then Some 32
  else None.

(* ---- one option body: the `match (ty, data)` of parse_nd_rtr_options ---- *)
Definition nd_option (ty : N) (value : list N) : outcome (option ndopt) :=
  if ty =? 1 then                                            (* SOURCE_LL_ADDR *)
    Ok (Some (SourceLLAddr value))
  else if ty =? 37 then                                      (* CAPTIVE_PORTAL *)
    do n <- match rposition_nz value with
            | Some p => add_chk USZ p 1                      (* .map(|p| p + 1) *)
            | None => Ok 0                                   (* .unwrap_or(0) *)
            end ;
    do s <- slice_chk 0 n value ;                            (* value[..n] *)
    if utf8_ok s then Ok (Some (CaptivePortal s)) else Err E_ENCODING
  else if ty =? 38 then                                      (* PREF64 *)
    if negb (lenN value =? 14) then Err E_PACKET else
    do a <- slice_incl_chk 0 1 value ;
    do a <- to_array 2 a ;
    let scaled := be_decode a in
    let lifetime := N.land scaled 65528 in                   (* & !7 on u16 *)
    match pref64_len (N.land scaled 7) with
    | None => Ok None                                        (* PLC 6, 7: `continue`, option ignored *)
    | Some plen =>
      do t <- slice_from_chk 2 value ;
      do ip <- to_array 16 (t ++ [0; 0; 0; 0]) ;
      Ok (Some (Pref64 lifetime plen ip))
    end
  else if ty =? 5 then                                       (* MTU *)
    if negb (lenN value =? 6) then Err E_PACKET else
    do a <- slice_incl_chk 2 5 value ;
    do a <- to_array 4 a ;
    Ok (Some (Mtu (be_decode a)))
  else if ty =? 25 then                                      (* RDNSS *)
    do a <- slice_incl_chk 2 5 value ;
    do a <- to_array 4 a ;
    do t <- slice_from_chk 6 value ;
    do servers <- mapM (to_array 16) (chunks_exact (length t) 16 t) ;
    Ok (Some (RecursiveDnsServers (be_decode a) servers))
  else if ty =? 3 then                                       (* PREFIX_INFO *)
    if negb (lenN value =? 30) then Err E_PACKET else
    do plen <- index_chk value 0 ;
    do f1 <- index_chk value 1 ;
    do f2 <- index_chk value 1 ;
    do a <- slice_chk 2 6 value ;
    do valid <- to_array 4 a ;
    do a <- slice_chk 6 10 value ;
    do preferred <- to_array 4 a ;
    do a <- slice_chk 14 30 value ;
    do prefix <- to_array 16 a ;
    Ok (Some (Prefix plen (negb (N.land f1 128 =? 0)) (negb (N.land f2 64 =? 0))
                     (be_decode valid) (be_decode preferred) prefix))
  else Ok None.                                              (* logged and ignored *)

(* ---- parse_nd_rtr_options ---------------------------------------------- *)
Fixpoint parse_options (fuel : nat) (s : buffer) : outcome (list ndopt) :=
  match fuel with
  | O => Panic Unreachable                  (* out of fuel: proved not to happen *)
  | S f =>
    do rem <- remaining s ;
    if 0 <? rem then
      do (ty, s1) <- ok_or E_TRUNCATED (get_u8 s) ;
      do (l, s2) <- ok_or E_TRUNCATED (get_u8 s1) ;
      if l =? 0 then Err E_TRUNCATED else
      do l8 <- mul_chk USZ l 8 ;
      do n <- sub_chk l8 2 ;
      do (value, s3) <- ok_or E_TRUNCATED (get_bytes n s2) ;
      do o <- nd_option ty value ;
      do rest <- parse_options f s3 ;
      Ok (match o with Some x => x :: rest | None => rest end)
    else Ok []
  end.

Definition options_fuel (s : buffer) : nat := S (length (b_buf s)).

Definition parse_nd_rtr_solicit (s : buffer) : outcome icmp6 :=
  do (_reserved, s) <- ok_or E_TRUNCATED (get_be 4 s) ;
  do opts <- parse_options (options_fuel s) s ;
  Ok (RtrSolicit opts).

Definition parse_nd_rtr_advert (s : buffer) : outcome icmp6 :=
  do (hop_limit, s) <- ok_or E_TRUNCATED (get_u8 s) ;
  do (mo, s) <- ok_or E_TRUNCATED (get_u8 s) ;
  do (lifetime, s) <- ok_or E_TRUNCATED (get_be 2 s) ;
  do (reachable, s) <- ok_or E_TRUNCATED (get_be 4 s) ;
  do (retrans, s) <- ok_or E_TRUNCATED (get_be 4 s) ;
  do opts <- parse_options (options_fuel s) s ;
  Ok (RtrAdvert {| ra_hop_limit := hop_limit;
                   ra_managed := negb (N.land 128 mo =? 0);
                   ra_other := negb (N.land 64 mo =? 0);
                   ra_lifetime_s := lifetime; ra_reachable_ms := reachable;
                   ra_retrans_ms := retrans; ra_options := opts |}).

(* ---- parse -------------------------------------------------------------- *)
Definition icmp6_parse (pkt : list N) : outcome icmp6 :=
  if lenN pkt <? 8 then Err E_TRUNCATED else
  let s := buf_new pkt in
  do (ty, s) <- ok_or E_TRUNCATED (get_u8 s) ;
  do (code, s) <- ok_or E_TRUNCATED (get_u8 s) ;
  do (_chksum, s) <- ok_or E_TRUNCATED (get_be 2 s) ;
  if ty =? 1 then Ok Unknown                                 (* ICMP6_DESTINATION_UNREACHABLE, any code *)
  else if (ty =? 133) && (code =? 0) then parse_nd_rtr_solicit s
  else if (ty =? 134) && (code =? 0) then parse_nd_rtr_advert s
  else Ok Unknown.                                           (* 135/0, 136/0, 137/_, everything else *)

(* What Rust guarantees of any `&[u8]`: octets, and at most isize::MAX of them. *)
Definition slice_u8_ok (pkt : list N) : bool := bytes_ok pkt && (lenN pkt <? 2 ^ 63).

(* Token-level entry point for property C07.  Case kinds (harness/src/bin/c07.rs):

   kind 1  [1; o0;o1;o2;o3; m0;m1;m2;m3]
           IPv4 address octets; memory image of std_to_libc_in_addr(ip).s_addr
   kind 3  [3; nph; phase*; nw; code*]                      per-upstream TCP task
           phase = n id*n  r g*r  close
             n waiters submit concurrently queries with the given ids (waiters
             are numbered 0.. across phases); once the scripted upstream has
             read them it replies to waiters g*r in that order (repeats =
             duplicated replies, omissions = lost replies) and then closes the
             connection if close = 1.
           code per waiter: 0 own answer, own id | 1 somebody else's answer |
             2 own answer, id not restored | 3 Error::TcpConnection |
             4 Error::Internal | 5 Error::FailedToSend | 6 other | 7 no result
   kind 4  [4; t0_ms; t0hi_ms; slack_ms; nq; (lst proto mask delay_ms dup special)*nq;
                          (nresp rcode own srcok idok utx ttx)*nq]
           one batch of concurrent client queries through the real service
           (listener -> acl -> router -> cache -> OutQuery) against a scripted
           upstream.  t0_ms = the first-retry delay set before the queries were
           released, t0hi_ms = the largest value the (global, adaptive) delay took
           while they ran (a query reads it when it starts).  slack_ms = 150 + 3 x the largest scheduling lag the harness
           measured during the run (a task sleeping 5 ms at a time): how far a
           reply may be off its scripted delay for the comparison of
           transmission counts.
             lst     0 v4-only listener 127.0.0.1 | 1 v6-only [::1] | 2 dual-stack [::]
                     reached over IPv4 | 3 dual-stack reached over IPv6 |
                     4 wildcard 0.0.0.0 reached at 127.0.0.2
             proto   0 UDP client | 1 TCP client | 2 TCP client, length prefix in two segments |
                     3 TCP client sending its query twice on one connection (two responses expected)
             mask    bit k set = the upstream drops the (k+1)-th UDP transmission
             delay   every reply of the upstream is sent delay_ms after the query
             dup     1 = every reply is sent twice
             special 0 | 1 UDP replies carry TC (TCP retry) | 2 UDP replies carry a wrong id (TCP retry)
           observed per query: number of responses the client received within
           the window, rcode of the first (255 none), own (1 the answer to its
           own question, 0 another answer, 2 no answer record), source
           address+port = where the query was sent, id echoed, UDP
           transmissions and TCP queries the upstream saw for this question.
   kind 5 and kind 30: see check_adapt / check_rig below.
   Definitions only. *)
From Erbium Require Import Lib.Base Model.Cmsg Model.OutQuery.

Definition toks_eqb := list_eqb N.eqb.

(* ---------------------------------------------------------------- kind 1 *)
Definition check_cmsg (ts : list N) : list N :=
  match ts with
  | [o0; o1; o2; o3; m0; m1; m2; m3] =>
    let ip := [o0; o1; o2; o3] in
    let impl := [m0; m1; m2; m3] in
    if negb (ip4_ok ip) then v_bad
    else if negb (toks_eqb impl ip) then v_viol 1
    else if negb (toks_eqb (local_ip_of (pktinfo_for ip)) impl) then v_diff (local_ip_of (pktinfo_for ip))
    else v_ok (if toks_eqb ip (rev ip) then 0 else 1)
  | _ => v_bad
  end.

(* ---------------------------------------------------------------- kind 3 *)
Record phase := { p_ids : list N; p_replies : list N; p_close : bool }.

Fixpoint tok_phases (n : nat) (ts : list N) : option (list phase * list N) :=
  match n with
  | O => Some ([], ts)
  | S k =>
    match tok_bytes ts with
    | Some (ids, r1) =>
      match tok_bytes r1 with
      | Some (reps, r2) =>
        match r2 with
        | c :: r3 =>
          match tok_phases k r3 with
          | Some (ps, r4) => Some ({| p_ids := ids; p_replies := reps; p_close := negb (c =? 0) |} :: ps, r4)
          | None => None
          end
        | [] => None
        end
      | None => None
      end
    | None => None
    end
  end.

Fixpoint memN (x : N) (l : list N) : bool :=
  match l with [] => false | y :: r => (x =? y) || memN x r end.
Fixpoint removeN (x : N) (l : list N) : list N :=
  match l with [] => [] | y :: r => if x =? y then removeN x r else y :: removeN x r end.
Definition seqN (start : N) (len : nat) : list N := map N.of_nat (seq (N.to_nat start) len).

(* --- the SPEC, written from the property text, not from the code: a waiter
   whose reply the upstream sent while the connection it was asked on was
   still up gets that reply (code 0); one whose connection was closed first
   gets an error (code 3); nothing else is allowed. *)
Fixpoint spec_replies (reps pend : list N) (res : list (N * N)) : list N * list (N * N) :=
  match reps with
  | [] => (pend, res)
  | g :: r => if memN g pend then spec_replies r (removeN g pend) ((g, 0) :: res)
              else spec_replies r pend res
  end.
Fixpoint spec_phases (ps : list phase) (next : N) (pend : list N) (res : list (N * N)) : list (N * N) :=
  match ps with
  | [] => map (fun g => (g, 7)) pend ++ res
  | p :: r =>
    let new := seqN next (length (p_ids p)) in
    let '(pend1, res1) := spec_replies (p_replies p) (pend ++ new) res in
    if p_close p
    then spec_phases r (next + lenN (p_ids p)) [] (map (fun g => (g, 3)) pend1 ++ res1)
    else spec_phases r (next + lenN (p_ids p)) pend1 res1
  end.
Definition code_of (res : list (N * N)) (g : N) : N :=
  match map_find g res with Some c => c | None => 7 end.
Definition spec_codes (ps : list phase) (nw : nat) : list N :=
  let res := spec_phases ps 0 [] [] in map (code_of res) (seqN 0 nw).

(* "two queries in flight on one connection share an id" (the class of F37) *)
Fixpoint ids_collide (ids : list N) (inflight : list N) : bool :=
  match ids with
  | [] => false
  | i :: r => memN i inflight || ids_collide r (i :: inflight)
  end.
Fixpoint phases_collide (ps : list phase) (next : N) (pend : list (N * N)) : bool :=
  (* pend : (waiter, id) in flight *)
  match ps with
  | [] => false
  | p :: r =>
    let new := combine (seqN next (length (p_ids p))) (p_ids p) in
    ids_collide (p_ids p) (map snd pend)
    || (let pend1 := filter (fun e => negb (memN (fst e) (p_replies p))) (pend ++ new) in
        phases_collide r (next + lenN (p_ids p)) (if p_close p then [] else pend1))
  end.

(* --- the MODEL: the Demux machine driven by the same script ------------- *)
Fixpoint sent_of (o : list dout) : list (N * N) :=
  match o with
  | [] => []
  | Sent w wire :: r => (w, wire) :: sent_of r
  | _ :: r => sent_of r
  end.

Record mrun := { m_st : dstate; m_sent : list (N * N); m_out : list dout; m_stale : bool }.

Definition m_ev (m : mrun) (e : dev) : mrun :=
  let '(s1, o1) := demux_step (m_st m) e in
  {| m_st := s1; m_sent := sent_of o1 ++ m_sent m; m_out := m_out m ++ o1; m_stale := m_stale m |}.

Fixpoint m_submits (m : mrun) (next : N) (ids : list N) : mrun :=
  match ids with
  | [] => m
  | i :: r => m_submits (m_ev m (Submit next i next IoOk)) (next + 1) r   (* question tag = waiter number: all distinct *)
  end.
Fixpoint m_replies (m : mrun) (reps : list N) : mrun :=
  match reps with
  | [] => m
  | g :: r =>
    match map_find g (m_sent m) with
    | Some wire =>
      (* (formerly known-finding class 1, F45) the upstream repeats a reply whose waiter is gone,
         after the wire id has been taken by a query that is now in flight *)
      let hit := d_conn (m_st m) && negb (pending g (d_map (m_st m))) && map_mem wire (d_map (m_st m)) in
      let m1 := m_ev m (Arrive wire g) in
      m_replies {| m_st := m_st m1; m_sent := m_sent m1; m_out := m_out m1; m_stale := m_stale m1 || hit |} r
    | None => m_replies m r
    end
  end.
Fixpoint m_phases (m : mrun) (next : N) (ps : list phase) : mrun :=
  match ps with
  | [] => m
  | p :: r =>
    let m1 := m_replies (m_submits m next (p_ids p)) (p_replies p) in
    let m2 := if p_close p then m_ev m1 ConnError else m1 in
    m_phases m2 (next + lenN (p_ids p)) r
  end.

Definition code_of_dres (g id : N) (l : list dres) : N :=
  match l with
  | [] => 7
  | [RReply orig _ rq] => if negb (rq =? g) then 1 else if orig =? id then 0 else 2
  | [RErrTcp] => 3
  | [RErrInternal] => 4
  | [RErrSend] => 5
  | _ => 6
  end.
Definition m_start : mrun := {| m_st := d_init; m_sent := []; m_out := []; m_stale := false |}.
Definition stale_reuse (ps : list phase) : bool := m_stale (m_phases m_start 0 ps).
Definition model_codes (ps : list phase) (nw : nat) : list N :=
  let m := m_phases m_start 0 ps in
  let ids := flat_map p_ids ps in
  map (fun g => code_of_dres g (nth (N.to_nat g) ids 0) (deliveries g (m_out m))) (seqN 0 nw).

Definition check_demux (ts : list N) : list N :=
  match ts with
  | nph :: r =>
    match tok_phases (N.to_nat nph) r with
    | Some (ps, r1) =>
      match tok_bytes r1 with
      | Some (impl, []) =>
        let nw := length (flat_map p_ids ps) in
        if negb (lenN impl =? N.of_nat nw) then v_bad
        else if negb (toks_eqb impl (spec_codes ps nw)) then v_viol 2
        else if negb (toks_eqb impl (model_codes ps nw)) then v_diff (model_codes ps nw)
        else v_ok (if stale_reuse ps then 7 else if phases_collide ps 0 [] then 3 else 2)
      | _ => v_bad
      end
    | None => v_bad
    end
  | [] => v_bad
  end.

(* ---------------------------------------------------------------- kind 4 *)
Definition MS : N := 1000000.

Fixpoint chunk (k : nat) (n : nat) (ts : list N) : option (list (list N) * list N) :=
  match n with
  | O => Some ([], ts)
  | S m =>
    if Nat.leb k (length ts)
    then match chunk k m (skipn k ts) with
         | Some (cs, r) => Some (firstn k ts :: cs, r)
         | None => None
         end
    else None
  end.

(* the fate of the k-th UDP transmission under (mask, delay) *)
Definition fates_of (mask delay_ns : N) : list fate :=
  map (fun k => if N.testbit mask k then Lost else Reply delay_ns) [0; 1; 2; 3].

(* jitter lists reaching the two extremes of [random_range(0..timeout)] *)
Fixpoint max_jitters (n : nat) (timeout : N) : list N :=
  match n with
  | O => []
  | S k => (timeout - 1) :: max_jitters k (next_timeout timeout (timeout - 1))
  end.

(* transmissions the upstream may see, and whether the query may time out /
   may be answered, over the whole jitter range and +-SLACK on the delay *)
Definition retry_bounds (t0_ns t0hi_ns SLACK_NS mask delay_ns : N) : N * N * bool * bool :=
  let fast := retry (fates_of mask (delay_ns + SLACK_NS)) [0; 0; 0; 0] t0_ns in
  let slow := retry (fates_of mask (delay_ns - SLACK_NS)) (max_jitters 4 t0hi_ns) t0hi_ns in
  let fast' := retry (fates_of mask (delay_ns - SLACK_NS)) [0; 0; 0; 0] t0_ns in
  let slow' := retry (fates_of mask (delay_ns + SLACK_NS)) (max_jitters 4 t0hi_ns) t0hi_ns in
  let lo := N.min (N.min (transmissions fast) (transmissions slow)) (N.min (transmissions fast') (transmissions slow')) in
  let hi := N.max (N.max (transmissions fast) (transmissions slow)) (N.max (transmissions fast') (transmissions slow')) in
  let may_timeout := is_timeout fast || is_timeout slow || is_timeout fast' || is_timeout slow' in
  let may_answer := negb (is_timeout fast && is_timeout slow && is_timeout fast' && is_timeout slow') in
  (lo, hi, may_timeout, may_answer).

Definition inb (lo hi x : N) : bool := (lo <=? x) && (x <=? hi).

(* SPEC predicates on what the client and the upstream observed; number of the
   first failing one, 0 if none *)
Definition spec_query (t0 : N) (q o : list N) : N :=
  match q, o with
  | [lst; proto; mask; delay; dup; special], [nresp; rcode; own; srcok; idok; utx; ttx] =>
    if negb (nresp =? (if proto =? 3 then 2 else 1)) then 3   (* exactly one response per query *)
    else if negb (srcok =? 1) then 4                 (* from where it was sent to *)
    else if negb (idok =? 1) || (own =? 0) || ((rcode =? 0) && negb (own =? 1)) then 5   (* its own answer *)
    else if (proto =? 0) && (mask mod 16 =? 15) && negb (rcode =? SERVFAIL) then 6       (* silent upstream: SERVFAIL *)
    else if 4 <? utx then 7                          (* at most 4 transmissions *)
    else if ((0 <? proto) || negb (mask mod 16 =? 15)) && (delay <=? 100) && negb (rcode =? 0) then 8
                                                     (* a prompt upstream answer reaches the client *)
    else 0
  | _, _ => 9
  end.

(* MODEL expectation: (lo, hi) transmissions, allowed rcodes, tcp queries *)
Definition model_query (t0 t0hi slack : N) (q : list N) : list N :=
  match q with
  | [lst; proto; mask; delay; dup; special] =>
    if 0 <? proto then [0; 0; 0; 0; 1; (if proto =? 3 then 2 else 1)]   (* utx in [0,0]; rcode 0 only; ttx in [1,1] *)
    else
      let '(lo, hi, may_to, may_an) := retry_bounds (t0 * MS) (t0hi * MS) (slack * MS) (mask mod 16) (delay * MS) in
      let rc_lo := if may_an then 0 else SERVFAIL in
      let rc_hi := if may_to then SERVFAIL else 0 in
      let t_hi := if may_an && negb (special =? 0) then 1 else 0 in
      let t_lo := if may_to then 0 else t_hi in
      [lo; hi; rc_lo; rc_hi; t_lo; t_hi]
  | _ => []
  end.

Definition agree_query (t0 t0hi slack : N) (q o : list N) : bool :=
  match model_query t0 t0hi slack q, o with
  | [lo; hi; rc_lo; rc_hi; t_lo; t_hi], [nresp; rcode; own; srcok; idok; utx; ttx] =>
    inb lo hi utx && ((rcode =? rc_lo) || (rcode =? rc_hi)) && inb t_lo t_hi ttx
    && ((rcode =? 0) || (ttx <=? t_hi))
  | _, _ => false
  end.

Fixpoint first_viol (t0 : N) (qs os : list (list N)) : N :=
  match qs, os with
  | q :: qr, o :: or => let p := spec_query t0 q o in if (p =? 0) || (100 <=? p) then first_viol t0 qr or else p
  | _, _ => 0
  end.
(* known-finding classes are reported only when no other predicate fails in the batch *)
Fixpoint first_known (t0 : N) (qs os : list (list N)) : N :=
  match qs, os with
  | q :: qr, o :: or => let p := spec_query t0 q o in if 100 <=? p then p - 100 else first_known t0 qr or
  | _, _ => 0
  end.
Fixpoint first_diff (t0 t0hi slack : N) (idx : N) (qs os : list (list N)) : option (N * list N) :=
  match qs, os with
  | q :: qr, o :: or => if agree_query t0 t0hi slack q o then first_diff t0 t0hi slack (idx + 1) qr or else Some (idx, model_query t0 t0hi slack q)
  | _, _ => None
  end.

Definition q_lossy (q : list N) : bool :=
  match q with [_; proto; mask; _; _; _] => (proto =? 0) && negb (mask mod 16 =? 0) | _ => false end.
Definition q_silent (q : list N) : bool :=
  match q with [_; proto; mask; _; _; _] => (proto =? 0) && (mask mod 16 =? 15) | _ => false end.

Definition check_batch (ts : list N) : list N :=
  match ts with
  | t0 :: t0hi :: slack :: nq :: r =>
    match chunk 6 (N.to_nat nq) r with
    | Some (qs, r1) =>
      match chunk 7 (N.to_nat nq) r1 with
      | Some (os, []) =>
        if (t0 =? 0) || (t0hi <? t0) then v_bad else
        let p := first_viol t0 qs os in
        if negb (p =? 0) then v_viol p
        else if negb (first_known t0 qs os =? 0) then v_known (first_known t0 qs os)
        else match first_diff t0 t0hi slack 0 qs os with
             | Some (idx, e) => v_diff (idx :: e)
             | None => v_ok (if existsb q_silent qs then 6 else if existsb q_lossy qs then 5 else 4)
             end
      | _ => v_bad
      end
    | None => v_bad
    end
  | _ => v_bad
  end.

(* ---------------------------------------------------------------- kind 5 *)
(* [5; t0; mask; delay; silent; after; rcodeA; ownA; utxA; nrespB; rcodeB; elapsedB]
   one service, UDP-only upstream (its TCP port refuses connections).  Query A: the upstream
   drops the transmissions in [mask] and answers the others [delay] ms late.  [after] = the
   global adaptive first-retry delay read through the hook once A is answered.  silent = 1:
   then query B meets a silent upstream; nrespB/rcodeB/elapsedB (ms) what its client saw within
   50.75 s + 1.5 s. *)
Definition check_adapt (ts : list N) : list N :=
  match ts with
  | [t0; mask; delay; silent; after; rcodeA; ownA; utxA; nrespB; rcodeB; elapsedB] =>
    let m := mask mod 16 in
    let answerable := negb (m =? 15) && ((delay =? 0) || (negb (N.testbit m 0) && (delay <=? 2000))) in
    (* SPEC *)
    if (after <? MIN_TIMEOUT / MS) || (MAX_TIMEOUT / MS <? after) then v_viol 11
    else if answerable && negb ((rcodeA =? 0) && (ownA =? 1)) then v_viol 13
    else if negb (silent =? 0) && negb ((nrespB =? 1) && (rcodeB =? SERVFAIL) && (elapsedB <=? 50750 + 1500)) then v_viol 12
    else if 4 <? utxA then v_viol 7
    (* MODEL: the estimate is adapted only when at least two other transmissions are outstanding when the
       answer comes.  The second goes out at t0, the third between 2.5 t0 and 3.5 t0 (back-off with jitter):
       an answer to the first transmission later than 5 t0 finds both out whatever the jitter and however late
       the timers fire on a busy machine, and takes the "too slow" branch; one between 2.5 t0 and 5 t0 may or
       may not (either outcome is the code's); an earlier one leaves the estimate alone *)
    else if (5 * t0 <=? delay) && answerable then
      (if after =? adapt (t0 * MS) (t0 * MS) (delay * MS) 2 / MS
       then v_ok (if silent =? 0 then 12 else 13)
       else v_diff [adapt (t0 * MS) (t0 * MS) (delay * MS) 2 / MS])
    else if (5 * t0 <=? 2 * delay) && answerable then
      (if (after =? t0) || (after =? MAX_TIMEOUT / MS) || (after =? adapt (t0 * MS) (t0 * MS) (delay * MS) 2 / MS)
       then v_ok 11 else v_diff [t0])
    else if (after =? t0) || (after =? MAX_TIMEOUT / MS) then v_ok 11
    else v_diff [t0]
  | _ => v_bad
  end.

(* --------------------------------------------------------------- kind 30 *)
(* end-to-end rig (real binary in a network namespace, tools/rig.py + rigcases.py):
   [30; listener; got; from_ok; id_ok]  listener 1 = IPv4-only 127.0.0.1, 2 = second IPv4
   address 127.0.0.3, 3 = [::1]; got = a reply arrived; from_ok = its source address is the
   query's destination; id_ok = it echoes the query id.  The model side is (iv)+(v):
   [reply_dgram] sends from the query's destination (C07_reply_from_query_destination). *)
Definition check_rig (ts : list N) : list N :=
  match ts with
  | [lst; got; from_ok; id_ok] =>
    if negb ((1 <=? lst) && (lst <=? 3)) then v_bad
    else if (got =? 0) || (from_ok =? 0) then v_viol 9
    else if id_ok =? 0 then v_viol 10
    else v_ok (7 + lst)
  | _ => v_bad
  end.

(* ---------------------------------------------------------------- entry *)
Definition check_C07 (ts : list N) : list N :=
  match ts with
  | 1 :: r => check_cmsg r
  | 3 :: r => check_demux r
  | 4 :: r => check_batch r
  | 5 :: r => check_adapt r
  | 30 :: r => check_rig r
  | _ => v_bad
  end.

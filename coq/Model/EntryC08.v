(* Token-level entry point for property C08 (see harness/src/bin/c08.rs).
   Case kinds:
     1 rules client op impl            require_permission on rules loaded by the real loader
                                       impl: 0 granted 1 not-authenticated 2 not-authorised 3 panic 4 loader refused
     2 rules client get path status    serve_request (status 0 = panic, 1 = loader refused)
     3 prefix client impl              Prefix::contains (0 false 1 true 2 panic)
     4 rules client impl               DnsAclHandler::handle_query (0 handed on, 1 refused by ACL, 2 other/panic)
     5 n prefixes client op impl       as 1 with the default ACLs derived from `addresses`
     6 impl                            address of an unnamed unix-socket client (0 unix address, 2 panic)
   Definitions only. *)
From Erbium Require Import Lib.Base Model.Acl.

Definition w128 (a b c d : N) : N := ((a * 4294967296 + b) * 4294967296 + c) * 4294967296 + d.

Definition tok_prefix (ts : list N) : option (prefix * list N) :=
  match ts with
  | 4 :: a :: l :: r => Some (P4 a l, r)
  | 6 :: a :: b :: c :: d :: l :: r => Some (P6 (w128 a b c d) l, r)
  | _ => None
  end.

Definition tok_addr (ts : list N) : option (addr * list N) :=
  match ts with
  | 4 :: a :: r => Some (A4 a, r)
  | 6 :: a :: b :: c :: d :: r => Some (A6 (w128 a b c d), r)
  | 0 :: r => Some (AUnix, r)
  | _ => None
  end.

Fixpoint tok_prefixes (n : nat) (ts : list N) : option (list prefix * list N) :=
  match n with
  | O => Some ([], ts)
  | S k => match tok_prefix ts with
           | Some (p, r) => match tok_prefixes k r with Some (ps, r2) => Some (p :: ps, r2) | None => None end
           | None => None
           end
  end.

Definition tok_rule (ts : list N) : option (rule * list N) :=
  match ts with
  | hs :: nsub :: r =>
    match tok_prefixes (N.to_nat nsub) r with
    | Some (ps, u :: r2) =>
      match tok_bytes r2 with
      | Some (accs, r3) =>
        Some ({| r_subnet := if hs =? 0 then None else Some ps;
                 r_unix := match u with 0 => None | 1 => Some false | _ => Some true end;
                 r_perm := perm_of_accesses accs |}, r3)
      | None => None
      end
    | _ => None
    end
  | _ => None
  end.

Fixpoint tok_rules_n (n : nat) (ts : list N) : option (list rule * list N) :=
  match n with
  | O => Some ([], ts)
  | S k => match tok_rule ts with
           | Some (x, r) => match tok_rules_n k r with Some (xs, r2) => Some (x :: xs, r2) | None => None end
           | None => None
           end
  end.
Definition tok_rules (ts : list N) : option (list rule * list N) :=
  match ts with n :: r => tok_rules_n (N.to_nat n) r | [] => None end.

Definition op_of (n : N) : op := match n with 0 => OpDns | 1 => OpHttp | 2 => OpLeases | _ => OpMetrics end.
Definition decision_code (d : decision) : N :=
  match d with Granted => 0 | NotAuthenticated => 1 | NotAuthorised => 2 end.

(* index (from 0) of the first rule the model matches; used only for tags *)
Fixpoint first_idx (rs : list rule) (cl : addr) (i : N) : option N :=
  match rs with
  | [] => None
  | r :: rest => if rule_check r cl then Some i else first_idx rest cl (i + 1)
  end.

Definition addr_class (cl : addr) : N :=
  match cl with A4 _ => 0 | A6 x => match from_mapped x with Some _ => 1 | None => 2 end | AUnix => 3 end.

Definition check_decision (rs : list rule) (cl : addr) (o : op) (impl : N) (tagbase : N) : list N :=
  if impl =? 3 then v_viol 2
  else if negb (Bool.eqb (impl =? 0) (spec_granted rs cl o)) then v_viol 1
  else
    let d := decision_code (require rs cl o) in
    if negb (impl =? d) then v_diff [d]
    else v_ok (tagbase + d + match first_idx rs cl 0 with Some 0 => 0 | Some _ => 3 | None => 0 end).

(* the permission the property attaches to each HTTP endpoint *)
Definition spec_http_perm (get : bool) (path : N) : op :=
  if get then match path with 0 => OpHttp | 1 => OpMetrics | _ => OpLeases end else OpLeases.

Definition check_C08 (ts : list N) : list N :=
  match ts with
  | 1 :: r =>
    match tok_rules r with
    | Some (rs, r2) =>
      match tok_addr r2 with
      | Some (cl, [o; impl]) => if wf_rules rs && wf_addr cl then check_decision rs cl (op_of o) impl 10 else v_bad
      | _ => v_bad
      end
    | None => v_bad
    end
  | 2 :: r =>
    match tok_rules r with
    | Some (rs, r2) =>
      match tok_addr r2 with
      | Some (cl, [g; path; status]) =>
        let get := negb (g =? 0) in
        if negb (wf_rules rs && wf_addr cl) then v_bad
        else if status <? 2 then v_viol 2
        else if negb (Bool.eqb (status =? 403) (negb (spec_granted rs cl (spec_http_perm get path)))) then v_viol 3
        else
          let m := http_status rs cl get path in
          if negb (status =? m) then v_diff [m]
          else v_ok (if m =? 403 then 20 + N.min path 3 else 24 + N.min path 3)
      | _ => v_bad
      end
    | None => v_bad
    end
  | 3 :: r =>
    match tok_prefix r with
    | Some (p, r2) =>
      match tok_addr r2 with
      | Some (cl, [impl]) =>
        if negb (wf_prefix p && wf_addr cl) then v_bad
        else if impl =? 2 then v_viol 2
        else if negb (Bool.eqb (impl =? 1) (in_prefix_b p cl)) then v_viol 4
        else if negb (Bool.eqb (impl =? 1) (contains p cl)) then v_diff [N.b2n (contains p cl)]
        else v_ok (30 + 2 * addr_class cl + N.b2n (contains p cl))
      | _ => v_bad
      end
    | None => v_bad
    end
  | 4 :: r =>
    match tok_rules r with
    | Some (rs, r2) =>
      match tok_addr r2 with
      | Some (cl, [impl]) =>
        if negb (wf_rules rs && wf_addr cl) then v_bad
        else if 2 <=? impl then v_viol 2
        else if negb (Bool.eqb (impl =? 1) (negb (spec_granted rs cl OpDns))) then v_viol 5
        else
          let m := match dns_gate rs cl with DnsPassedOn => 0 | DnsRefusedByAcl => 1 end in
          if negb (impl =? m) then v_diff [m] else v_ok (40 + m)
      | _ => v_bad
      end
    | None => v_bad
    end
  | 5 :: n :: r =>
    match tok_prefixes (N.to_nat n) r with
    | Some (ps, r2) =>
      match tok_addr r2 with
      | Some (cl, [o; impl]) =>
        if forallb wf_prefix ps && wf_addr cl then check_decision (default_acls ps) cl (op_of o) impl 50 else v_bad
      | _ => v_bad
      end
    | None => v_bad
    end
  (* end-to-end rig (real binary in a network namespace, tools/rig.py):
     kind 20: [20; klass; path; status]  HTTP GET from a client whose first matching rule grants the
              permission the path needs (klass 1) or does not (klass 0), one request per connection
              or several on one keep-alive connection; path 0 "/", 1 "/metrics", 2 leases, 3 other
     kind 21: [21; klass; got; rcode]    DNS query from a client whose first matching rule grants
              dns-recursion (klass 1) or does not (klass 0) *)
  | [20; klass; path; status] =>
    if status =? 0 then v_diff [0]
    else if (klass =? 0) && negb (status =? 403) then v_viol 7
    else if (klass =? 1) && (status =? 403) then v_viol 7
    else if (klass =? 1) && negb (status =? (if path =? 3 then 404 else 200)) then v_diff [if path =? 3 then 404 else 200]
    else v_ok (70 + 4 * klass + N.min path 3)
  | [21; klass; got; rcode] =>
    if (klass =? 0) && (got =? 1) && negb (rcode =? 5) then v_viol 8
    else if (klass =? 1) && (got =? 1) && (rcode =? 5) then v_viol 8
    else if got =? 0 then v_diff [1]
    else v_ok (80 + klass)
  | [6; impl] => if impl =? 0 then v_ok 60 else v_viol 6
  | _ => v_bad
  end.

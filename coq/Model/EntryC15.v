(* Token-level entry point for property C15 (DNS route selection).
   Case line (harness/src/bin/c15.rs):
     1 <table> <query name> rd  |  res rcode nhits hit*
   <table> = nroutes { kind nsrv srv* nsuf <name>* }*     kind 0 = forge-nxdomain, 1 = forward
   <name>  = nlabels { len octet* }*
   res: 0 reply relayed from upstream, 1 Blocked, 2 NoRouteConfigured, 3 NotAuthoritative,
        4 another error, 5 panic, 6 the configuration did not load, 7 the loaded table is
        not the table that was written
   rcode: the rcode of the reply the listener builds for an error result (create_in_error);
        65535 when a reply was relayed or nothing was built.
   hits: the (sorted, distinct) servers that received at least one datagram for this query.
   Definitions only. *)
From Erbium Require Import Lib.Base Model.DnsRoute.

Section TokList.
  Context {A : Type} (f : list N -> option (A * list N)).
  Fixpoint tok_list (n : nat) (ts : list N) : option (list A * list N) :=
    match n with
    | O => Some ([], ts)
    | S k =>
      match f ts with
      | Some (a, r) =>
        match tok_list k r with
        | Some (l, r2) => Some (a :: l, r2)
        | None => None
        end
      | None => None
      end
    end.
  Definition tok_counted (ts : list N) : option (list A * list N) :=
    match ts with
    | n :: r => if n <=? lenN r then tok_list (N.to_nat n) r else None
    | [] => None
    end.
End TokList.

Definition tok_name : list N -> option (name * list N) := tok_counted tok_bytes.

Definition tok_route (ts : list N) : option (route * list N) :=
  match ts with
  | kind :: r =>
    match tok_bytes r with
    | Some (srvs, r2) =>
      match tok_counted tok_name r2 with
      | Some (sufs, r3) =>
        Some ((sufs, if kind =? 0 then Forge else Forward srvs), r3)
      | None => None
      end
    | None => None
    end
  | [] => None
  end.

Definition tok_table : list N -> option (table * list N) := tok_counted tok_route.

Definition rc_tok (r : rresult) : N := match rcode_of r with Some c => c | None => 65535 end.
Definition put_result (r : rresult) : list N :=
  match r with
  | RForward s => [0; rc_tok r; 1; s]
  | RBlocked => [1; rc_tok r; 0]
  | RNoRoute => [2; rc_tok r; 0]
  | RNotAuth => [3; rc_tok r; 0]
  | RPanic => [5; rc_tok r; 0]
  end.

Definition toks_eqb := list_eqb N.eqb.

Definition action_eqb (a b : action) : bool :=
  match a, b with
  | Forge, Forge => true
  | Forward x, Forward y => list_eqb N.eqb x y
  | _, _ => false
  end.

Definition result_base (r : rresult) : N :=
  match r with RNoRoute => 1 | RBlocked => 2 | RNotAuth => 3 | RForward _ => 4 | RPanic => 5 end.

Definition check_route (ts : list N) : list N :=
  match tok_table ts with
  | Some (rt, r1) =>
    match tok_name r1 with
    | Some (q, rd :: res :: impl_rest) =>
      let rdb := negb (rd =? 0) in
      let impl := res :: impl_rest in
      let bests := best_entries rt q in
      let expected := match bests with
                      | [] => [put_result RNoRoute]
                      | _ => map (fun e => put_result (act_result (snd e) rdb)) bests
                      end in
      let m := decide rt q rdb in
      if res =? 7 then v_viol 5
      else if res =? 6 then v_viol 6
      else if (match impl_rest with _ :: 0 :: _ => false | _ => true end)
              && ((res =? 1) || (res =? 2) || (res =? 3)) then v_viol 2
      else if negb (existsb (toks_eqb impl) expected) then v_viol 1
      else if negb (toks_eqb impl (put_result m)) then v_diff (put_result m)
      else
        let case_matters := negb (toks_eqb (put_result (decide_cs rt q rdb)) (put_result m)) in
        let ms := matching rt q in
        let nested := existsb (fun e => negb (length (fst e) =? max_labels ms)%nat) ms in
        let ambiguous := match bests with
                         | e :: l => existsb (fun e' => negb (action_eqb (snd e) (snd e'))) l
                         | [] => false
                         end in
        v_ok (result_base m + (if case_matters then 10 else 0) + (if nested then 20 else 0)
              + (if ambiguous then 40 else 0))
    | _ => v_bad
    end
  | None => v_bad
  end.

Definition check_C15 (ts : list N) : list N :=
  match ts with
  | 1 :: r => check_route r
  (* end-to-end rig (real binary): [40; got; rcode] -- a query for a name under a forge-nxdomain
     suffix ("x.invalid"), with a catch-all forward route also configured *)
  | [40; got; rcode] =>
    if got =? 0 then v_diff [1]
    else if negb (rcode =? 3) then v_viol 40
    else v_ok 40
  | _ => v_bad
  end.

(* Model of the DNS cookie validation in crates/erbium-core/src/dns/mod.rs
   (calculate_cookie, validate_cookie_key, validate_cookie_keys) and
   dnspkt.rs (EdnsData::get_cookie).  Definitions only.

   The MAC (HMAC-SHA256 in the code) is a Section variable: nothing is assumed
   about it here. *)
From Erbium Require Import Lib.Base.

Inductive cstatus := Missing | Bad | Good.

Section Cookie.
  Variable mac : list N -> list N -> list N.        (* key -> data -> tag *)

  (* hasher.update(client); update(local octets); update(remote octets) *)
  Definition cookie_data (client local remote : list N) : list N := client ++ local ++ remote.

  (* the server cookie erbium hands out *)
  Definition server_cookie (key client local remote : list N) : list N :=
    mac key (cookie_data client local remote).

  (* [opt] = the data of the COOKIE option of the query, if there is one.
     get_cookie: (&data[..8], data.get(8..)) -- aborts on fewer than 8 octets *)
  Definition validate_key (opt : option (list N)) (local remote key : list N) : outcome cstatus :=
    match opt with
    | None => Ok Missing
    | Some d =>
      if lenN d <? 8 then Panic IndexOOB
      else if bytes_eqb (dropN 8 d) (server_cookie key (takeN 8 d) local remote) then Ok Good
      else Ok Bad
    end.

  Definition validate_keys (opt : option (list N)) (local remote cur prev : list N) : outcome cstatus :=
    do s <- validate_key opt local remote cur;
    match s with
    | Bad => validate_key opt local remote prev
    | _ => Ok s
    end.

  Definition exempt (opt : option (list N)) (local remote cur prev : list N) : bool :=
    match validate_keys opt local remote cur prev with
    | Ok Good => true
    | _ => false
    end.
End Cookie.

(* an injective stand-in for the MAC, used to run the model *)
Definition free_mac (key data : list N) : list N := lenN key :: key ++ data.

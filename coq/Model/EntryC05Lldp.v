(* Token-level entry point for the LLDP part of C05 (case kinds 400..499).
   kind 400: [400; bytes(frame);   impl]   lldp::verif::decode_frame (Ethernet-header skip + from_wire)
   kind 401: [401; bytes(payload); impl]   LldpPacket::from_wire
        impl = 0 :: n :: bytes(to_wire tlv_1) .. bytes(to_wire tlv_n) | [1; e] | [2] (panic)
   kind 402: [402; bytes(buf);     impl]   LldpTlv::from_wire
        impl = 0 :: bytes(to_wire tlv) ++ [remaining] | [1; e] | [2]
   Definitions only. *)
From Erbium Require Import Lib.Base Model.Lldp.

Definition ltoks_eqb := list_eqb N.eqb.

Definition put_lldp (o : outcome (list tlv)) : list N :=
  match o with
  | Ok ts => 0 :: lenN ts :: flat_map (fun t => put_bytes (tlv_wire t)) ts
  | Err e => [1; e]
  | Panic _ => [2]
  end.
Definition put_tlv (o : outcome (tlv * list N)) : list N :=
  match o with
  | Ok (t, rest) => 0 :: put_bytes (tlv_wire t) ++ [lenN rest]
  | Err e => [1; e]
  | Panic _ => [2]
  end.

Definition has_mgmt (ts : list tlv) : bool :=
  existsb (fun t => match t with TMgmt _ _ _ _ _ => true | _ => false end) ts.
Definition has_other (ts : list tlv) : bool :=
  existsb (fun t => match t with TOrg _ _ _ | TUnknown _ _ => true | _ => false end) ts.

Definition lldp_tag (short : bool) (o : outcome (list tlv)) : N :=
  match o with
  | Ok ts => if has_mgmt ts then 404 else if has_other ts then 405 else 400
  | Err e => if short then 403 else if e =? L_EOF then 401 else 402
  | Panic _ => 409
  end.

Definition check_lldp_with (pred : N) (short : bool) (model : outcome (list tlv)) (impl : list N) : list N :=
  match impl with
  | 2 :: _ => v_viol pred                       (* the implementation panicked: a C05 failing input *)
  | _ => if ltoks_eqb impl (put_lldp model) then v_ok (lldp_tag short model) else v_diff (put_lldp model)
  end.

Definition check_C05_lldp (ts : list N) : list N :=
  match ts with
  | 400 :: r =>
    match tok_bytes r with
    | Some (frame, impl) =>
      check_lldp_with 400 (lenN frame <? 14) (lldp_handle_frame frame) impl
    | None => v_bad
    end
  | 401 :: r =>
    match tok_bytes r with
    | Some (p, impl) => check_lldp_with 401 false (lldp_from_wire p) impl
    | None => v_bad
    end
  | 402 :: r =>
    match tok_bytes r with
    | Some (p, impl) =>
      match impl with
      | 2 :: _ => v_viol 402
      | _ => let m := put_tlv (tlv_from_wire p) in
             if ltoks_eqb impl m then v_ok (match m with 0 :: _ => 406 | _ => 407 end) else v_diff m
      end
    | None => v_bad
    end
  | _ => v_bad
  end.

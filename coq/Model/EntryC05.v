(* Token-level entry point for property C05.  Each network-facing decoder has
   its own sub-entry; this file dispatches on the case kind.  Definitions only.
     4        DHCP packet decoder (shared with C12)
     5        DHCP service path: bytes -> parse -> handle -> serialise -> frame
     100-199  DHCP option value decoders / log_options
     200-299  DNS
     300-399  ICMPv6
     400-499  LLDP *)
From Erbium Require Import Lib.Base Model.DhcpCodec Model.EntryC12 Model.EntryC05Lldp Model.EntryC05DhcpOpt Model.EntryC05Icmp6 Model.DnsEntry.

(* kind 5: [5; bytes; stage; followup]
   stage: 0 = a reply frame was produced, 1 = dropped with an error / no reply,
          2 = PANIC (any stage);  followup: 1 = the valid DISCOVER sent afterwards
          on the same store was answered, 0 = it was not *)
Definition check_dhcp_service (ts : list N) : list N :=
  match tok_bytes ts with
  | Some (wire, [stage; followup]) =>
    if stage =? 2 then v_viol 1
    else if followup =? 0 then v_viol 2
    else
      match decode wire with
      | Ok _ => v_ok (20 + stage)                       (* decoded: answered or refused, both fine *)
      | Err e => if stage =? 1 then v_ok (30 + e) else v_diff [1]   (* not decodable: must be dropped *)
      | Panic _ => v_diff [2]
      end
  | _ => v_bad
  end.

(* end-to-end rig (real binary, private network namespace):
   kind 6: [6; answered]   a valid DISCOVER sent right after a hostile datagram: answered (1) or not (0)
   kind 7: [7; panics; alive]   number of "panicked at" lines in the server log, process alive at the end
   kind 8: [8; answered]   a valid DNS query sent right after a hostile query / hostile upstream reply *)
Definition check_rig (k : N) (ts : list N) : list N :=
  match k, ts with
  | 6, [a] => if a =? 0 then v_viol 3 else v_ok 40
  | 8, [a] => if a =? 0 then v_viol 5 else v_ok 42
  | 7, [panics; alive] => if alive =? 0 then v_viol 4 else if negb (panics =? 0) then v_viol 6 else v_ok 41
  | _, _ => v_bad
  end.

(* sub-entries written stand-alone number their predicates and tags from 1: shift them into their own range *)
Definition shift_verdict (d : N) (v : list N) : list N :=
  match v with
  | [0; tag] => [0; d + tag]
  | [2; p] => [2; d + p]
  | [3; c] => [3; d + c]
  | _ => v
  end.

Definition check_C05 (ts : list N) : list N :=
  match ts with
  | 4 :: r => check_decode r
  | 5 :: r => check_dhcp_service r
  | 6 :: r => check_rig 6 r
  | 7 :: r => check_rig 7 r
  | 8 :: r => check_rig 8 r
  | 200 :: r => shift_verdict 200 (check_dns r)       (* DNS decoder / encoder: the C14 case kinds *)
  | k :: _ =>
    if (100 <=? k) && (k <? 200) then check_C05_dhcpopt ts
    else if (300 <=? k) && (k <? 400) then shift_verdict 300 (check_C05_icmp6 ts)
    else if (400 <=? k) && (k <? 500) then check_C05_lldp ts
    else v_bad
  | [] => v_bad
  end.

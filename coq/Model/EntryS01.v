(* Token-level entry point for the composed DHCPv4 server step (pseudo-property S01).

     case     := <config> universe nsteps step*          (<config>: Model/ConfTokens.v)
     universe := n x*
     step     := serverip (0 | 1 mtu) (0 | 1 router) mac*6 port bytes(datagram) tlo thi outcome rows
     outcome  := 0 (no frame) | 1 bytes(frame) | 2 (panic)
     rows     := n (addr client start expiry)*             (get_leases() after the step)

   The pool's answer is not in the tokens: it is read off the implementation's behaviour
   (yiaddr of the frame / the row that changed), all four lease kinds are tried, and the
   model must then produce the SAME FRAME OCTETS and the same rows.  The order of the
   options inside the reply is the implementation's HashMap order: the model's reply is
   re-ordered after the order found in the implementation's payload (same set of options
   required) before the octets are compared. *)
From Erbium Require Import Lib.Base Model.DhcpCodec Model.DhcpOptVal Model.DhcpPolicy Model.DhcpAddrs
  Model.DhcpPool Model.DhcpHandler Model.Frame Model.ConfTokens Model.PoolEntry Model.DhcpServer.

Record istep := { s_env : env; s_pkt : list N; s_tlo : N; s_thi : N; s_out : option (option (list N)); s_rows : list row }.

Definition tok_istep : parser istep :=
  fun ts =>
    match ts with
    | sip :: r =>
      match ConfTokens.tok_opt tok_n r with Some (mtu, r) =>
      match ConfTokens.tok_opt tok_n r with Some (rt, r) =>
      match tok_take 6 r with Some (mac, port :: r) =>
      match tok_bytes r with Some (pkt, tlo :: thi :: r) =>
        let fin out r :=
          match tok_rows r with
          | Some (rows, r') =>
            Some ({| s_env := {| e_serverip := sip; e_mac := mac; e_port := port; e_mtu := mtu; e_router := rt |};
                     s_pkt := pkt; s_tlo := tlo; s_thi := thi; s_out := out; s_rows := rows |}, r')
          | None => None
          end in
        match r with
        | 0 :: r => fin (Some None) r
        | 1 :: r => match tok_bytes r with Some (f, r) => fin (Some (Some f)) r | None => None end
        | 2 :: r => fin None r
        | _ => None
        end
      | _ => None end | _ => None end | None => None end | None => None end
    | [] => None
    end.

(* re-order the model's options after the order of the implementation's *)
Definition reorder (model impl : list (N * list N)) : option (list (N * list N)) :=
  if opts_eqb (sort_codes model) (sort_codes impl) && keys_distinct impl then Some impl else None.

Definition with_options (r : dhcp) (os : list (N * list N)) : dhcp :=
  {| d_op := d_op r; d_htype := d_htype r; d_hlen := d_hlen r; d_hops := d_hops r; d_xid := d_xid r;
     d_secs := d_secs r; d_flags := d_flags r; d_ciaddr := d_ciaddr r; d_yiaddr := d_yiaddr r;
     d_siaddr := d_siaddr r; d_giaddr := d_giaddr r; d_chaddr := d_chaddr r; d_sname := d_sname r;
     d_file := d_file r; d_options := os |}.

Definition frame_payload (f : list N) : list N := dropN 42 f.

(* candidate pool answers read off what the implementation did *)
Definition kinds : list kind := [ReusingLease; Revived; Requested; NewAddress].
Definition cands (s : istep) : list answer :=
  match s_out s with
  | Some (Some f) =>
    match decode (frame_payload f) with
    | Ok mi =>
      let ip := d_yiaddr mi in
      let secs := match find_addr ip (s_rows s) with Some r => r_expiry r - r_start r | None => 0 end in
      map (fun k => Granted ip secs k) kinds
    | _ => []
    end
  | _ =>
    NoAddress :: flat_map (fun r => map (fun k => Granted (r_addr r) (r_expiry r - r_start r) k) kinds) (s_rows s)
  end.

(* does the model, given answer [a] and clock reads [t1 t2], do what the implementation did? *)
Definition agrees (cfg : scfg) (st : sstate) (s : istep) (t1 t2 : N) (a : answer) : option sstate :=
  match server_step cfg st t1 t2 (s_env s) (s_pkt s) a with
  | Ok (st', fo) =>
    if negb (rows_same (fst st') (s_rows s)) then None else
    match fo, s_out s with
    | None, Some None => Some st'
    | Some fm, Some (Some fi) =>
      if bytes_eqb fm fi then Some st' else
      (* same reply up to the order of the options? *)
      match decode (s_pkt s), reply_of cfg st t2 (s_env s) (s_pkt s) a, decode (frame_payload fi) with
      | Ok m, Some r, Ok mi =>
        match reorder (d_options r) (d_options mi), to_array (d_chaddr r) with
        | Some os, Ok (Some mac) =>
          match udp4_build (frame_args (s_env s) m (with_options r os) mac) with
          | Ok f' => if bytes_eqb f' fi then Some st' else None
          | _ => None
          end
        | _, _ => None
        end
      | _, _, _ => None
      end
    | _, _ => None
    end
  | Err _ => None
  | Panic _ => match s_out s with None => Some st | _ => None end
  end.

Fixpoint first_some {A B} (f : A -> option B) (l : list A) : option B :=
  match l with [] => None | a :: r => match f a with Some b => Some b | None => first_some f r end end.

Definition model_sstep (cfg : scfg) (st : sstate) (s : istep) : option sstate :=
  first_some (fun p => first_some (fun a => agrees cfg st s (fst p) (snd p) a) (cands s))
             (cand_pairs (s_tlo s) (s_thi s)).

(* property predicates on the implementation's own output *)
Definition pred_S (cfg : scfg) (s : istep) : N :=
  match s_out s with
  | None => 1                                                (* S01: the step panicked *)
  | Some None => 0
  | Some (Some f) =>
    match decode (s_pkt s), decode (frame_payload f) with
    | Ok m, Ok mi =>
      let args := {| u_src_ip := be32 (e_serverip (s_env s)); u_src_port := 67; u_src_mac := e_mac (s_env s);
                     u_dst_ip := be32 (reply_dest (d_flags m) (d_yiaddr mi)); u_dst_port := e_port (s_env s);
                     u_dst_mac := takeN 6 (d_chaddr m); u_payload := frame_payload f |} in
      if negb (valid_frame args f) then 2                    (* S03: not a valid frame to the right destination *)
      else if negb (allowed (sc_conf cfg) (request_of (s_env s) m) (d_yiaddr mi)) then 3   (* S03: yiaddr outside Allowed *)
      else if negb ((d_xid mi =? d_xid m) && bytes_eqb (d_chaddr mi) (d_chaddr m) && (d_giaddr mi =? d_giaddr m)
                    && (d_flags mi =? d_flags m)) then 4     (* S03: echo *)
      else 0
    | _, _ => 5                                              (* a frame for an undecodable datagram / undecodable reply *)
    end
  end.

Fixpoint fold_steps (cfg : scfg) (st : sstate) (idx mask : N) (ss : list istep) : list N :=
  match ss with
  | [] => v_ok mask
  | s :: r =>
    let p := pred_S cfg s in
    if negb (p =? 0) then v_viol p else
    match model_sstep cfg st s with
    | Some st' =>
      let bit := match s_out s with
                 | Some (Some _) => 1
                 | _ => match decode (s_pkt s) with
                        | Ok _ => if rows_same (fst st) (s_rows s) then 2 else 8
                        | _ => 4 end
                 end in
      fold_steps cfg st' (idx + 1) (N.lor mask bit) r
    | None => v_diff [idx]
    end
  end.

Definition check_S01 (ts : list N) : list N :=
  match tok_config ts with
  | Some (g, r) =>
    match tok_counted tok_n r with
    | Some (univ, r) =>
      match tok_counted tok_istep r with
      | Some (ss, []) =>
        fold_steps {| sc_conf := g; sc_universe := univ; sc_min := 300; sc_max := 86400 |} ([], []) 0 0 ss
      | _ => v_bad
      end
    | None => v_bad
    end
  | None => v_bad
  end.

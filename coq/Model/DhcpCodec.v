(* Model of crates/erbium-core/src/dhcp/dhcppkt.rs: Dhcp::serialise, parse,
   parse_options, get_broadcast_flag.  The cursor (pktparser::Buffer) only
   ever moves forward, so it is modelled by the list of octets not yet read.
   Definitions only. *)
From Erbium Require Import Lib.Base.

Record dhcp := {
  d_op : N; d_htype : N; d_hlen : N; d_hops : N; d_xid : N; d_secs : N; d_flags : N;
  d_ciaddr : N; d_yiaddr : N; d_siaddr : N; d_giaddr : N;
  d_chaddr : list N; d_sname : list N; d_file : list N;
  d_options : list (N * list N)      (* HashMap<DhcpOption, Vec<u8>>: association list, keys distinct *)
}.

(* ---- encoder --------------------------------------------------------- *)
(* serialise_fixed(out, l): copy, then resize to exactly l (truncate or zero-pad) *)
Definition fixed (l : N) (out : list N) : list N :=
  takeN l out ++ repeatN 0 (l - lenN out).

(* serialise_option: one code/length/value triple per chunk of at most 255
   octets (RFC 3396 long-option encoding); an empty value is one triple of
   length 0.  [fuel] bounds the number of chunks; length v + 1 is enough. *)
Fixpoint enc_chunks (fuel : nat) (code : N) (v : list N) : list N :=
  match fuel with
  | O => []
  | S f =>
    if lenN v <=? 255 then code :: lenN v :: v
    else code :: 255 :: takeN 255 v ++ enc_chunks f code (dropN 255 v)
  end.
Definition enc_option (o : N * list N) : list N :=
  enc_chunks (S (length (snd o))) (fst o) (snd o).
Definition enc_options (os : list (N * list N)) : list N :=
  flat_map enc_option os ++ [255].

Definition magic : list N := [99; 130; 83; 99].    (* 0x63825363 *)

Definition encode (m : dhcp) : list N :=
  [d_op m; d_htype m; d_hlen m; d_hops m] ++ be32 (d_xid m) ++ be16 (d_secs m) ++ be16 (d_flags m)
  ++ be32 (d_ciaddr m) ++ be32 (d_yiaddr m) ++ be32 (d_siaddr m) ++ be32 (d_giaddr m)
  ++ fixed 16 (d_chaddr m) ++ fixed 64 (d_sname m) ++ fixed 128 (d_file m)
  ++ magic ++ enc_options (d_options m).

(* ---- decoder --------------------------------------------------------- *)
Definition E_EOF : N := 1.       (* ParseError::UnexpectedEndOfInput *)
Definition E_INVALID : N := 2.   (* ParseError::InvalidPacket *)
Definition E_MAGIC : N := 3.     (* ParseError::WrongMagic *)

Definition get_u8 (l : list N) : outcome (N * list N) :=
  match l with b :: r => Ok (b, r) | [] => Err E_EOF end.
Definition get_bytes (n : N) (l : list N) : outcome (list N * list N) :=
  if n <=? lenN l then Ok (takeN n l, dropN n l) else Err E_EOF.
Definition get_be (n : N) (l : list N) : outcome (N * list N) :=
  do (b, r) <- get_bytes n l ; Ok (be_decode b, r).

(* raw_options.entry(code).or_default().extend(bytes) *)
Fixpoint opt_extend (os : list (N * list N)) (code : N) (v : list N) : list (N * list N) :=
  match os with
  | [] => [(code, v)]
  | (c, w) :: r => if c =? code then (c, w ++ v) :: r else (c, w) :: opt_extend r code v
  end.

Fixpoint parse_options (fuel : nat) (l : list N) (acc : list (N * list N)) : outcome (list (N * list N)) :=
  match fuel with
  | O => Err E_EOF                     (* unreachable with fuel > length l; see parse_options_fuel *)
  | S f =>
    match l with
    | [] => Err E_EOF
    | x :: r =>
      if x =? 0 then parse_options f r acc          (* pad *)
      else if x =? 255 then Ok acc                  (* end *)
      else
        do (len, r1) <- get_u8 r ;
        do (v, r2) <- get_bytes len r1 ;
        parse_options f r2 (opt_extend acc x v)
    end
  end.

Fixpoint null_terminated (v : list N) : list N :=
  match v with
  | [] => []
  | b :: r => if b =? 0 then [] else b :: null_terminated r
  end.

Definition decode (pkt : list N) : outcome dhcp :=
  do (op, b) <- get_u8 pkt ;
  do (htype, b) <- get_u8 b ;
  do (hlen, b) <- get_u8 b ;
  do (hops, b) <- get_u8 b ;
  do (xid, b) <- get_be 4 b ;
  do (secs, b) <- get_be 2 b ;
  do (flags, b) <- get_be 2 b ;
  do (ciaddr, b) <- get_be 4 b ;
  do (yiaddr, b) <- get_be 4 b ;
  do (siaddr, b) <- get_be 4 b ;
  do (giaddr, b) <- get_be 4 b ;
  do (chaddr, b) <- get_bytes 16 b ;
  if 16 <? hlen then Err E_INVALID else
  do (sname, b) <- get_bytes 64 b ;
  do (file, b) <- get_bytes 128 b ;
  do (mg, b) <- get_be 4 b ;
  if negb (mg =? 1669485411) then Err E_MAGIC else
  do opts <- parse_options (S (length b)) b [] ;
  Ok {| d_op := op; d_htype := htype; d_hlen := hlen; d_hops := hops; d_xid := xid;
        d_secs := secs; d_flags := flags; d_ciaddr := ciaddr; d_yiaddr := yiaddr;
        d_siaddr := siaddr; d_giaddr := giaddr; d_chaddr := takeN hlen chaddr;
        d_sname := null_terminated sname; d_file := null_terminated file; d_options := opts |}.

(* ---- broadcast flag -------------------------------------------------- *)
(* `self.flags & 0x8000 != 0` *)
Definition BROADCAST_MASK : N := 32768.
Definition broadcast_flag (flags : N) : bool := negb (N.land flags BROADCAST_MASK =? 0).

(* destination of the reply frame: mod.rs recvdhcp *)
Definition reply_dest (req_flags yiaddr : N) : N :=
  if broadcast_flag req_flags then 4294967295 else yiaddr.

(* ---- well-formedness (what a Dhcp value built by the server satisfies) - *)
Fixpoint keys_distinct (os : list (N * list N)) : bool :=
  match os with
  | [] => true
  | (c, _) :: r => negb (existsb (fun o => fst o =? c) r) && keys_distinct r
  end.
Definition no_nul (v : list N) : bool := forallb (fun b => negb (b =? 0)) v.
Definition wf_option (o : N * list N) : bool :=
  (0 <? fst o) && (fst o <? 255) && bytes_ok (snd o).
Definition wf_dhcp (m : dhcp) : bool :=
  byte_ok (d_op m) && byte_ok (d_htype m) && byte_ok (d_hops m) &&
  (d_hlen m =? lenN (d_chaddr m)) && (d_hlen m <=? 16) && bytes_ok (d_chaddr m) &&
  (d_xid m <? 4294967296) && (d_secs m <? 65536) && (d_flags m <? 65536) &&
  (d_ciaddr m <? 4294967296) && (d_yiaddr m <? 4294967296) &&
  (d_siaddr m <? 4294967296) && (d_giaddr m <? 4294967296) &&
  (lenN (d_sname m) <=? 64) && bytes_ok (d_sname m) && no_nul (d_sname m) &&
  (lenN (d_file m) <=? 128) && bytes_ok (d_file m) && no_nul (d_file m) &&
  forallb wf_option (d_options m) && keys_distinct (d_options m).

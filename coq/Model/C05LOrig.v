(* The four repaired fragments as they were BEFORE the repairs (erbium worktree
   commit 78f357a = hooks only), so that the defects F13-F16 are statements in
   Coq whose witnesses are the failing inputs kept in corpus/C05L/.  Not used by
   the correspondence check (the code under test is the repaired one).
   Definitions only. *)
From Erbium Require Import Lib.Base Model.Lldp Model.DhcpOptVal.

(* F13  dhcp/mod.rs  `mac[0..6].try_into().ok()` *)
Definition to_array_orig (mac : list N) : outcome (option (list N)) :=
  if 6 <=? lenN mac then Ok (Some (takeN 6 mac)) else Panic IndexOOB.

(* F14  erbium-net lib.rs  Ipv4Subnet::new without the prefix-length test *)
Definition subnet_new_orig (addr plen : N) : outcome (N * N) :=
  do m <- netmask plen ;
  if N.land addr (4294967295 - m) =? 0 then Ok (addr, plen) else Err E_NONE.

(* F15  lldp/mod.rs  `&msg.buffer[14..]` *)
Definition frame_payload_orig (frame : list N) : outcome (list N) :=
  if 14 <=? lenN frame then Ok (dropN 14 frame) else Panic IndexOOB.

(* F16  lldppkt.rs  `let mgmt_addr_len = buf.get_u8()? - 1;` (the rest of the decoder is unchanged) *)
Definition mgmt_from_wire_orig (p : list N) : outcome tlv :=
  do (l, r) <- b_u8 p ;
  do alen <- sub_chk l 1 ;
  do (af, r) <- b_u8 r ;
  if negb ((1 <=? alen) && (alen <=? 32)) then Err L_INVALID else
  do (addr, r) <- b_bytes alen r ;
  do (st, r) <- b_u8 r ;
  do (ifn, r) <- b_be32 r ;
  do (olen, r) <- b_u8 r ;
  do (oid, r) <- b_bytes olen r ;
  Ok (TMgmt addr af st ifn oid).

(* C19 -- the configuration loader as a whole, over the YAML AST: everything
   `config::load_config_from_string` does after yaml-rust has produced the
   documents.  Built on the fragment parsers of Model/ConfigAst.v.

   Covered (crates/erbium-core/src), every key, every error path, every
   index / unwrap / arithmetic step (explicit [Panic] where the Rust code
   could abort):
     config.rs       load_config_from_string (document count, top-level key
                     dispatch, unknown / non-string keys, default ACLs),
                     parse_i64 / parse_num, parse_string_ip / _ip4 / _ip6,
                     parse_string_hwaddr (hexbyte), parse_string_sockaddr
     dhcp/config.rs  Config::new, parse_policies, parse_policy (the recursive
                     policy tree: match-* / apply-* keys in the order of the
                     Rust match, apply-range, apply-subnet, apply-address,
                     lease keys, `policies:`), parse_generic with the option
                     table (Model/DhcpOptTable.v, generated from OPT_INFO),
                     parse_routes, parse_number; pools as address ranges
     radv/config.rs  parse, parse_interface (all keys, the interval range
                     checks and the min/max cross-check), parse_prefix,
                     parse_rdnss, parse_dnssl (+ dnssl_octets), parse_domain,
                     parse_pref64
     dns/config.rs   parse_dns_routes / parse_dns_route, incl. the parse of the
                     suffixes as DNS names (dnspkt.rs Domain::from_str)
     acl.rs          parse_acl incl. the access names, default_acls
   Section variables (external code, answers supplied per case by the
   harness): [ip_parse] = str_ip ($self4 / $self6 / str::parse::<IpAddr>),
   [ip4_parse] = str::parse::<Ipv4Addr>, [sock_ok] = does str_sockaddr accept
   (nix UnixAddr::new / new_abstract, str::parse::<SocketAddr>).
   The recursion through `policies:` is by fuel (any fuel above the nesting
   depth of the document gives the same answer; the entry point passes the
   length of the case line).  Definitions only. *)
From Erbium Require Import Lib.Base Model.ConfigAst Model.DhcpOptTable.
From Coq Require Import String Ascii.

Definition E_range : N := 20.      (* integer / duration outside the option's type *)
Definition E_hwaddr : N := 21.
Definition E_sockaddr : N := 22.
Definition E_domain : N := 23.
Definition E_access : N := 24.
Definition E_docs : N := 25.       (* no document, or more than one *)
Definition E_count : N := 26.      (* too many RDNSS addresses / DNSSL octets *)
Definition E_interval : N := 27.   (* RFC 4861 interval checks *)
Definition E_fuel : N := 28.
Definition E_deprecated : N := 29. (* dhcp, dhcp-listeners, interface *)
Definition E_option : N := 30.     (* unknown / unsupported DHCP option name *)

(* comparison of a string with a literal, without building the literal's list *)
Fixpoint str_is (s : list N) (lit : string) : bool :=
  match s, lit with
  | [], EmptyString => true
  | c :: r, String a l => (c =? N_of_ascii a) && str_is r l
  | _, _ => false
  end.
(* `s.starts_with(lit)`: the rest after the literal *)
Fixpoint strip_prefix (s : list N) (lit : string) : option (list N) :=
  match lit with
  | EmptyString => Some s
  | String a l => match s with
                  | c :: r => if c =? N_of_ascii a then strip_prefix r l else None
                  | [] => None
                  end
  end.

Definition req {A} (o : outcome (option A)) : outcome A :=
  do v <- o ; match v with Some x => Ok x | None => Err E_null end.

(* config.rs:144 parse_i64, :156 parse_num::<u8 / u32> *)
Definition parse_i64 (y : yaml) : outcome (option Z) :=
  match y with YNull => Ok None | YInteger i => Ok (Some i) | e => type_error e end.
Definition parse_num (hi : Z) (y : yaml) : outcome (option Z) :=
  do v <- parse_i64 y ;
  match v with
  | None => Ok None
  | Some i => if ((0 <=? i) && (i <=? hi))%Z then Ok (Some i) else Err E_range
  end.

(* config.rs:288 hexbyte, :299 str_hwaddr *)
Definition is_hex (c : N) : bool :=
  is_digit c || ((65 <=? c) && (c <=? 70)) || ((97 <=? c) && (c <=? 102)).
Definition hwaddr_ok (s : list N) : bool :=
  forallb (fun part => match part with [a; b] => is_hex a && is_hex b | _ => false end) (split_on 58 s []).
Definition parse_string_hwaddr (y : yaml) : outcome (option (list N)) :=
  do s <- parse_string y ;
  match s with
  | None => Ok None
  | Some s => if hwaddr_ok s then Ok (Some s) else Err E_hwaddr
  end.

(* dns/dnspkt.rs:225 Domain::from_str: no backslash, no empty label before a
   dot, ASCII only *)
Fixpoint domain_loop (s : list N) (label_empty : bool) : bool :=
  match s with
  | [] => true
  | c :: r =>
    if c =? 92 then false
    else if c =? 46 then (if label_empty then false else domain_loop r true)
    else if c <? 128 then domain_loop r false
    else false
  end.
Definition domain_ok (s : list N) : bool := domain_loop s true.

(* radv/config.rs dnssl_octets: lengths are UTF-8 octets *)
Definition utf8_len (c : N) : N := if c <? 128 then 1 else if c <? 2048 then 2 else if c <? 65536 then 3 else 4.
Definition str_octets (s : list N) : N := fold_right (fun c n => utf8_len c + n) 0 s.
(* radv/config.rs MAX_CAPTIVE_PORTAL_OCTETS = 255 * 8 - 2: a longer URL does not fit the option and is refused
   ("captive-portal does not fit in a router advertisement option"), top level and per interface *)
Definition parse_captive (y : yaml) : outcome unit :=
  do s <- parse_string y ;
  match s with
  | Some u => if 2038 <? str_octets u then Err E_count else Ok tt
  | None => Ok tt
  end.

Definition dnssl_octets (l : list (list N)) : N :=
  fold_right (fun d n => fold_right (fun lab m => 1 + str_octets lab + m) 0 (split_on 46 d []) + 1 + n) 0 l.

Fixpoint hash_get (h : list (yaml * yaml)) (key : string) : option yaml :=
  match h with
  | [] => None
  | (k, v) :: r => match key_str k with
                   | Some ks => if str_is ks key then Some v else hash_get r key
                   | None => hash_get r key
                   end
  end.

Section Loader.
Variable ip_parse : list N -> option ip.
Variable ip4_parse : list N -> option N.
Variable sock_ok : list N -> bool.

Definition str_ip4 (s : list N) : outcome N :=
  match ip_parse s with Some (V4 v) => Ok v | Some (V6 _) => Err E_family | None => Err E_ip end.
Definition str_ip6 (s : list N) : outcome N :=
  match ip_parse s with Some (V6 v) => Ok v | Some (V4 _) => Err E_family | None => Err E_ip end.
Definition parse_string_ip4 (y : yaml) : outcome (option N) :=
  do s <- parse_string y ;
  match s with None => Ok None | Some s => do v <- str_ip4 s ; Ok (Some v) end.
Definition parse_string_ip6 (y : yaml) : outcome (option N) :=
  do s <- parse_string y ;
  match s with None => Ok None | Some s => do v <- str_ip6 s ; Ok (Some v) end.
Definition parse_string_sockaddr (y : yaml) : outcome (option (list N)) :=
  do s <- parse_string y ;
  match s with None => Ok None | Some s => if sock_ok s then Ok (Some s) else Err E_sockaddr end.

(* ---- acl.rs parse_acl: ConfigAst.acl plus the access names --------------- *)
Definition access_ok (s : list N) : bool :=
  str_is s "dhcp-client" || str_is s "dns-recursion" || str_is s "http" || str_is s "http-metrics"
  || str_is s "http-leases" || str_is s "http-ro".
Definition acl_full (y : yaml) : outcome (option (list ipprefix)) :=
  do l <- acl ip_parse y ;
  match y with
  | YHash h =>
    match hash_get h "apply-access" with
    | Some v =>
      do a <- parse_array parse_string v ;
      match a with
      | Some names => if forallb access_ok names then Ok (Some l) else Err E_access
      | None => Err E_null
      end
    | None => Ok (Some l)
    end
  | _ => Ok (Some l)
  end.

(* acl.rs default_acls: the prefixes of `addresses`, 127.0.0.0/8, ::1/128 *)
Definition default_acl_prefixes (addresses : list ipprefix) : list ipprefix :=
  addresses ++ [ {| p_fam := 4; p_addr := 2130706432; p_len := 8 |}; {| p_fam := 6; p_addr := 1; p_len := 128 |} ].

(* ---- dns/config.rs parse_dns_route: ConfigAst.dns_route plus the suffixes -- *)
Definition dns_route_full (y : yaml) : outcome (option (N * N)) :=
  do r <- dns_route ip_parse y ;
  match y with
  | YHash h =>
    match hash_get h "domain-suffixes" with
    | Some v =>
      do s <- parse_array parse_string v ;
      match s with
      | Some l => if forallb domain_ok l then Ok r else Err E_domain
      | None => Ok r
      end
    | None => Ok r
    end
  | _ => Ok r
  end.

(* ---- radv/config.rs ------------------------------------------------------- *)
Definition parse_domain (y : yaml) : outcome (option (list N)) := parse_string y.   (* same cases, other wording *)

Fixpoint rdnss_keys (h : list (yaml * yaml)) (count : N) : outcome N :=
  match h with
  | [] => Ok count
  | (k, v) :: r =>
    match key_str k with
    | None => type_error k
    | Some ks =>
      if str_is ks "addresses" then
        do a <- parse_array parse_string_ip6 v ;
        match a with
        | Some l => if 127 <? lenN l then Err E_count else rdnss_keys r (lenN l)
        | None => rdnss_keys r 0
        end
      else if str_is ks "lifetime" then do _ <- parse_duration v ; rdnss_keys r count
      else Err E_key
    end
  end.
Definition parse_rdnss (y : yaml) : outcome N :=
  match y with YHash h => rdnss_keys h 0 | e => type_error e end.

Fixpoint dnssl_keys (h : list (yaml * yaml)) (octets : N) : outcome N :=
  match h with
  | [] => Ok octets
  | (k, v) :: r =>
    match key_str k with
    | None => type_error k
    | Some ks =>
      if str_is ks "domains" then
        do a <- parse_array parse_domain v ;
        match a with
        | Some l => if 2032 <? dnssl_octets l then Err E_count else dnssl_keys r (dnssl_octets l)
        | None => dnssl_keys r 0
        end
      else if str_is ks "lifetime" then do _ <- parse_duration v ; dnssl_keys r octets
      else Err E_key
    end
  end.
Definition parse_dnssl (y : yaml) : outcome N :=
  match y with YHash h => dnssl_keys h 0 | e => type_error e end.

(* what parse_interface keeps of an interface, as far as modelled *)
Record iface := {
  i_min : option N; i_max : option N;       (* Value(secs) of the two intervals *)
  i_prefixes : list ipprefix;
  i_pref64 : option ipprefix;
  i_rdnss : N;                              (* number of addresses *)
  i_dnssl : N                               (* octets of the encoded search list *)
}.
Definition iface0 : iface :=
  {| i_min := None; i_max := None; i_prefixes := []; i_pref64 := None; i_rdnss := 0; i_dnssl := 0 |}.

Definition ra_prefix_opt (y : yaml) : outcome (option ipprefix) :=
  do p <- ra_prefix ip_parse y ;
  if 128 <? p_len p then Err E_len else Ok (Some p).       (* radv/config.rs:120, unreachable after str_prefix6 *)

Fixpoint interface_keys (h : list (yaml * yaml)) (i : iface) : outcome iface :=
  match h with
  | [] => Ok i
  | (k, v) :: r =>
    match key_str k with
    | None => type_error k
    | Some ks =>
      if str_is ks "interface" then Err E_deprecated
      else if str_is ks "max-router-advertisement-interval" then
        do d <- parse_duration v ;
        match d with
        | Some s => if (s <? 4) || (1800 <? s) then Err E_interval
                    else interface_keys r {| i_min := i_min i; i_max := Some s; i_prefixes := i_prefixes i;
                                             i_pref64 := i_pref64 i; i_rdnss := i_rdnss i; i_dnssl := i_dnssl i |}
        | None => interface_keys r {| i_min := i_min i; i_max := None; i_prefixes := i_prefixes i;
                                      i_pref64 := i_pref64 i; i_rdnss := i_rdnss i; i_dnssl := i_dnssl i |}
        end
      else if str_is ks "min-router-advertisement-interval" then
        do d <- parse_duration v ;
        match d with
        | Some s => if (s <? 3) || (s <? 1350) then Err E_interval           (* sic: radv/config.rs:311 *)
                    else interface_keys r {| i_min := Some s; i_max := i_max i; i_prefixes := i_prefixes i;
                                             i_pref64 := i_pref64 i; i_rdnss := i_rdnss i; i_dnssl := i_dnssl i |}
        | None => interface_keys r {| i_min := None; i_max := i_max i; i_prefixes := i_prefixes i;
                                      i_pref64 := i_pref64 i; i_rdnss := i_rdnss i; i_dnssl := i_dnssl i |}
        end
      else if str_is ks "hop-limit" then do _ <- parse_num 255 v ; interface_keys r i
      else if str_is ks "managed" || str_is ks "other" then do _ <- parse_boolean v ; interface_keys r i
      else if str_is ks "lifetime" || str_is ks "reachable" || str_is ks "retransmit" then
        do _ <- parse_duration v ; interface_keys r i
      else if str_is ks "mtu" then do _ <- parse_num 4294967295 v ; interface_keys r i
      else if str_is ks "pref64" then
        do p <- pref64 ip_parse v ;
        interface_keys r {| i_min := i_min i; i_max := i_max i; i_prefixes := i_prefixes i;
                            i_pref64 := p; i_rdnss := i_rdnss i; i_dnssl := i_dnssl i |}
      else if str_is ks "prefixes" then
        do l <- req (parse_array ra_prefix_opt v) ;
        interface_keys r {| i_min := i_min i; i_max := i_max i; i_prefixes := l;
                            i_pref64 := i_pref64 i; i_rdnss := i_rdnss i; i_dnssl := i_dnssl i |}
      else if str_is ks "dns-servers" then
        do n <- parse_rdnss v ;
        interface_keys r {| i_min := i_min i; i_max := i_max i; i_prefixes := i_prefixes i;
                            i_pref64 := i_pref64 i; i_rdnss := n; i_dnssl := i_dnssl i |}
      else if str_is ks "dns-search" then
        do n <- parse_dnssl v ;
        interface_keys r {| i_min := i_min i; i_max := i_max i; i_prefixes := i_prefixes i;
                            i_pref64 := i_pref64 i; i_rdnss := i_rdnss i; i_dnssl := n |}
      else if str_is ks "captive-portal" then do _ <- parse_captive v ; interface_keys r i
      else Err E_key
    end
  end.

(* radv/config.rs:350 `*min > 3 * *max / 4` on Durations: u32 * Duration
   panics when the seconds leave u64 *)
Definition interval_crosscheck (i : iface) : outcome iface :=
  match i_min i, i_max i with
  | Some mn, Some mx =>
    do m3 <- mul_chk 64 3 mx ;
    if m3 <? 4 * mn then Err E_interval else Ok i          (* min > (3 max)/4 with the quotient as a Duration (ns) *)
  | _, _ => Ok i
  end.
Definition parse_interface (y : yaml) : outcome iface :=
  match y with
  | YHash h => do i <- interface_keys h iface0 ; interval_crosscheck i
  | e => type_error e
  end.

Fixpoint ra_interfaces (h : list (yaml * yaml)) : outcome (list iface) :=
  match h with
  | [] => Ok []
  | (k, v) :: r =>
    match key_str k with
    | None => type_error k
    | Some _ =>
      do i <- match v with YNull => parse_interface (YHash []) | _ => parse_interface v end ;
      do l <- ra_interfaces r ; Ok (i :: l)
    end
  end.
Definition parse_ra (y : yaml) : outcome (list iface) :=
  match y with
  | YHash h => ra_interfaces h
  | YArray _ => Err E_type
  | e => type_error e
  end.

(* ---- dhcp/config.rs -------------------------------------------------------- *)
Definition parse_number (y : yaml) : outcome (option Z) :=
  match y with YNull => Ok None | YInteger i => Ok (Some i) | _ => Err E_type end.
Definition in_range (lo hi : Z) (o : outcome (option Z)) : outcome unit :=
  do v <- o ;
  match v with
  | Some i => if ((lo <=? i) && (i <=? hi))%Z then Ok tt else Err E_range
  | None => Ok tt
  end.
Definition dur_within (hi : N) (y : yaml) : outcome unit :=
  do d <- parse_duration y ;
  match d with Some s => if s <=? hi then Ok tt else Err E_range | None => Ok tt end.

(* parse_routes: the lengths of the route prefixes *)
Fixpoint route_entry_keys (h : list (yaml * yaml)) (pfx : option N) (hop : bool) : outcome (option N * bool) :=
  match h with
  | [] => Ok (pfx, hop)
  | (k, v) :: r =>
    match k with
    | YNull => Err E_key
    | YString ks =>
      if str_is ks "next-hop" then do _ <- req (parse_string_ip4 v) ; route_entry_keys r pfx true
      else if str_is ks "prefix" then do sn <- route_prefix ip4_parse v ; route_entry_keys r (Some (snd sn)) hop
      else Err E_key
    | _ => Err E_key
    end
  end.
Definition route_entry (y : yaml) : outcome N :=
  match y with
  | YHash h =>
    do (pfx, hop) <- route_entry_keys h None false ;
    match pfx with
    | Some l => if hop then Ok l else Err E_missing
    | None => Err E_missing
    end
  | _ => Err E_type
  end.
Definition parse_routes (y : yaml) : outcome (list N) :=
  match y with
  | YNull => Ok []
  | YArray a => omap route_entry a
  | _ => Err E_type
  end.

Fixpoint opt_lookup (tbl : list (list N * (N * N))) (name : list N) : option (N * N) :=
  match tbl with
  | [] => None
  | (n, ct) :: r => if str_eqb n name then Some ct else opt_lookup r name
  end.

(* parse_generic: (option code, lengths of route prefixes in the value) *)
Definition parse_generic (name : list N) (v : yaml) : outcome (N * list N) :=
  match opt_lookup opt_table name with
  | None => Err E_option
  | Some (code, ty) =>
    match ty with
    | 0 => do _ <- parse_string v ; Ok (code, [])
    | 1 => do _ <- parse_array parse_string_ip4 v ; Ok (code, [])
    | 2 => do l <- parse_routes v ; Ok (code, l)
    | 3 => do _ <- parse_string_ip4 v ; Ok (code, [])
    | 4 => do _ <- in_range (-2147483648) 2147483647 (parse_number v) ; Ok (code, [])
    | 5 => do _ <- in_range 0 255 (parse_number v) ; Ok (code, [])
    | 6 => do _ <- in_range 0 65535 (parse_number v) ; Ok (code, [])
    | 7 => do _ <- in_range 0 4294967295 (parse_number v) ; Ok (code, [])
    | 8 => do _ <- dur_within 65535 v ; Ok (code, [])
    | 9 => do _ <- dur_within 4294967295 v ; Ok (code, [])
    | 10 => do _ <- parse_boolean v ; Ok (code, [])
    | 11 => do _ <- parse_string_hwaddr v ; Ok (code, [])
    | 12 => do _ <- parse_array parse_string v ; Ok (code, [])
    | _ => Err E_option
    end
  end.

(* apply-range *)
Fixpoint range_keys (h : list (yaml * yaml)) (st en : option N) : outcome (option N * option N) :=
  match h with
  | [] => Ok (st, en)
  | (k, v) :: r =>
    match key_str k with
    | None => Err E_key
    | Some ks =>
      if str_is ks "start" then do a <- req (parse_string_ip4 v) ; range_keys r (Some a) en
      else if str_is ks "end" then do a <- req (parse_string_ip4 v) ; range_keys r st (Some a)
      else Err E_key
    end
  end.

(* a policy, as far as modelled: the address ranges it adds (first, last),
   the option codes applied, the Ipv4Subnet lengths in it and below *)
Record pol := {
  pl_ranges : list (N * N);      (* what apply-address / apply-range / apply-subnet of THIS policy add *)
  pl_applied : list N;
  pl_subnets : list N;
  pl_has : bool;                 (* the policy names addresses at all (`addresses` is Some) *)
  pl_below : list (N * N)        (* every range of every policy below it *)
}.

Fixpoint policy_keys (parse_policies : yaml -> outcome (list pol))
  (h : list (yaml * yaml)) (p : pol) : outcome pol :=
  match h with
  | [] => Ok p
  | (k, v) :: r =>
    match key_str k with
    | None => Err E_key
    | Some ks =>
      if str_is ks "match-interface" then do _ <- parse_string v ; policy_keys parse_policies r p
      else if str_is ks "match-hardware-address" then do _ <- parse_string_hwaddr v ; policy_keys parse_policies r p
      else if str_is ks "match-subnet" then
        do sn <- match_subnet ip4_parse v ;
        policy_keys parse_policies r {| pl_ranges := pl_ranges p; pl_applied := pl_applied p; pl_subnets := snd sn :: pl_subnets p; pl_has := pl_has p; pl_below := pl_below p |}
      else match strip_prefix ks "match-" with
      | Some name =>
        do g <- parse_generic name v ;
        policy_keys parse_policies r {| pl_ranges := pl_ranges p; pl_applied := pl_applied p; pl_subnets := snd g ++ pl_subnets p; pl_has := pl_has p; pl_below := pl_below p |}
      | None =>
        if str_is ks "apply-address" then
          do a <- req (parse_string_ip4 v) ;
          policy_keys parse_policies r {| pl_ranges := (a, a) :: pl_ranges p; pl_applied := pl_applied p; pl_subnets := pl_subnets p; pl_has := true; pl_below := pl_below p |}
        else if str_is ks "apply-default-lease" || str_is ks "apply-max-lease" then
          do _ <- req (parse_duration v) ; policy_keys parse_policies r p
        else if str_is ks "apply-range" then
          match v with
          | YHash rh =>
            do (st, en) <- range_keys rh None None ;
            match st, en with
            | Some a, Some b =>
              policy_keys parse_policies r {| pl_ranges := (if a <=? b then [(a, b)] else []) ++ pl_ranges p;
                                              pl_applied := pl_applied p; pl_subnets := pl_subnets p; pl_has := true; pl_below := pl_below p |}
            | _, _ => Err E_missing
            end
          | _ => Err E_type
          end
        else if str_is ks "apply-subnet" then
          do rg <- apply_subnet ip4_parse v ;
          policy_keys parse_policies r {| pl_ranges := match rg with Some x => [x] | None => [] end ++ pl_ranges p;
                                          pl_applied := pl_applied p; pl_subnets := pl_subnets p;
                                          pl_has := true; pl_below := pl_below p |}
        else match strip_prefix ks "apply-" with
        | Some name =>
          do g <- parse_generic name v ;
          if existsb (N.eqb (fst g)) (pl_applied p) then Err E_key          (* "Duplicate specification" *)
          else policy_keys parse_policies r {| pl_ranges := pl_ranges p; pl_applied := fst g :: pl_applied p;
                                               pl_subnets := snd g ++ pl_subnets p; pl_has := pl_has p; pl_below := pl_below p |}
        | None =>
          if str_is ks "policies" then
            do subs <- parse_policies v ;
            policy_keys parse_policies r {| pl_ranges := pl_ranges p; pl_applied := pl_applied p;
                                            pl_subnets := flat_map pl_subnets subs ++ pl_subnets p; pl_has := pl_has p; pl_below := flat_map (fun q => pl_ranges q ++ pl_below q) subs ++ pl_below p |}
          else Err E_key
        end
      end
    end
  end.

(* the pool of a policy (parse_policy's closing step): the addresses it names
   minus every address named anywhere below it; as a number of addresses.
   Ranges are inclusive; [norm] sorts them by start and merges overlaps. *)
Fixpoint ins_range (x : N * N) (l : list (N * N)) : list (N * N) :=
  match l with
  | [] => [x]
  | y :: r => if fst x <=? fst y then x :: l else y :: ins_range x r
  end.
Fixpoint merge_sorted (l : list (N * N)) (cur : option (N * N)) : list (N * N) :=
  match l with
  | [] => match cur with Some c => [c] | None => [] end
  | (a, b) :: r =>
    match cur with
    | None => merge_sorted r (Some (a, b))
    | Some (c, d) => if a <=? d + 1 then merge_sorted r (Some (c, N.max b d)) else (c, d) :: merge_sorted r (Some (a, b))
    end
  end.
Definition norm (l : list (N * N)) : list (N * N) := merge_sorted (fold_right ins_range [] l) None.
Definition count_ranges (l : list (N * N)) : N := fold_right (fun x n => snd x - fst x + 1 + n) 0 l.
Definition pool_size (p : pol) : option N :=
  if pl_has p then Some (count_ranges (norm (pl_ranges p ++ pl_below p)) - count_ranges (norm (pl_below p)))
  else None.

Definition pol0 : pol := {| pl_ranges := []; pl_applied := []; pl_subnets := []; pl_has := false; pl_below := [] |}.

Fixpoint parse_policies (fuel : nat) (y : yaml) : outcome (list pol) :=
  match fuel with
  | O => Err E_fuel
  | S f =>
    match y with
    | YArray a =>
      omap (fun x => match x with
                     | YHash h => policy_keys (parse_policies f) h pol0
                     | _ => Err E_type
                     end) a
    | _ => Err E_type
    end
  end.

(* ---- config.rs load_config_from_string ------------------------------------- *)
Record top := {
  t_addresses : option (list ipprefix);
  t_acls : option (list (list ipprefix));
  t_routes : list (N * N);
  t_ifaces : list iface;
  t_policies : list pol;
  t_dns6 : N;                    (* IPv6 addresses in the top-level dns-servers ($self6 included) *)
  t_dnssl : N                    (* octets of the top-level search list *)
}.
Definition top0 : top :=
  {| t_addresses := None; t_acls := None; t_routes := []; t_ifaces := []; t_policies := [];
     t_dns6 := 1 (* the default [$self4, $self6] *); t_dnssl := 0 |}.

Definition is_v6 (a : ip) : bool := match a with V6 _ => true | V4 _ => false end.

Fixpoint top_keys (fuel : nat) (h : list (yaml * yaml)) (t : top) : outcome top :=
  match h with
  | [] => Ok t
  | (k, v) :: r =>
    match key_str k with
    | None => type_error k
    | Some ks =>
      if str_is ks "dhcp" then Err E_deprecated
      else if str_is ks "dhcp-policies" then
        do ps <- parse_policies fuel v ;
        top_keys fuel r {| t_addresses := t_addresses t; t_acls := t_acls t; t_routes := t_routes t; t_ifaces := t_ifaces t;
                           t_policies := ps; t_dns6 := t_dns6 t; t_dnssl := t_dnssl t |}
      else if str_is ks "router-advertisements" then
        do is <- parse_ra v ;
        top_keys fuel r {| t_addresses := t_addresses t; t_acls := t_acls t; t_routes := t_routes t; t_ifaces := is;
                           t_policies := t_policies t; t_dns6 := t_dns6 t; t_dnssl := t_dnssl t |}
      else if str_is ks "dns-servers" then
        do l <- req (parse_array (parse_string_ip ip_parse) v) ;
        let n6 := lenN (filter is_v6 l) in
        if 127 <? n6 then Err E_count
        else top_keys fuel r {| t_addresses := t_addresses t; t_acls := t_acls t; t_routes := t_routes t; t_ifaces := t_ifaces t;
                                t_policies := t_policies t; t_dns6 := n6; t_dnssl := t_dnssl t |}
      else if str_is ks "dns-search" then
        do l <- req (parse_array parse_string v) ;
        if 2032 <? dnssl_octets l then Err E_count
        else top_keys fuel r {| t_addresses := t_addresses t; t_acls := t_acls t; t_routes := t_routes t; t_ifaces := t_ifaces t;
                                t_policies := t_policies t; t_dns6 := t_dns6 t; t_dnssl := dnssl_octets l |}
      else if str_is ks "captive-portal" then do _ <- parse_captive v ; top_keys fuel r t
      else if str_is ks "addresses" then
        do a <- parse_array (parse_string_prefix ip_parse 0) v ;
        top_keys fuel r {| t_addresses := a; t_acls := t_acls t; t_routes := t_routes t; t_ifaces := t_ifaces t;
                           t_policies := t_policies t; t_dns6 := t_dns6 t; t_dnssl := t_dnssl t |}
      else if str_is ks "api-listeners" || str_is ks "dns-listeners" then
        do _ <- parse_array parse_string_sockaddr v ; top_keys fuel r t
      else if str_is ks "dhcp-listeners" then Err E_deprecated
      else if str_is ks "default-listen-style" then
        match v with
        | YString s => if str_is s "bind-addresses-interfaces" || str_is s "bind-unspecified" then top_keys fuel r t
                       else Err E_keyword
        | e => type_error e
        end
      else if str_is ks "acls" then
        do a <- parse_array acl_full v ;
        top_keys fuel r {| t_addresses := t_addresses t; t_acls := a; t_routes := t_routes t; t_ifaces := t_ifaces t;
                           t_policies := t_policies t; t_dns6 := t_dns6 t; t_dnssl := t_dnssl t |}
      else if str_is ks "dns-routes" then
        do a <- parse_array dns_route_full v ;
        top_keys fuel r {| t_addresses := t_addresses t; t_acls := t_acls t;
                           t_routes := match a with Some l => l | None => [] end; t_ifaces := t_ifaces t;
                           t_policies := t_policies t; t_dns6 := t_dns6 t; t_dnssl := t_dnssl t |}
      else Err E_key
    end
  end.

(* the loaded configuration in the shape of ConfigAst.cfg (the serving model's input) *)
Definition cfg_of_top (t : top) : cfg :=
  let addrs := match t_addresses t with Some l => l | None => [] end in
  {| c_addresses := addrs;
     c_acl := match t_acls t with Some l => List.concat l | None => default_acl_prefixes addrs end;
     c_routes := t_routes t;
     c_pref64 := map p_len (somes (map i_pref64 (t_ifaces t)));
     c_raprefix := map p_len (flat_map i_prefixes (t_ifaces t));
     c_subnets := flat_map pl_subnets (t_policies t) |}.

(* [ndocs]: how many YAML documents the text held; [y]: the first *)
Definition load (fuel : nat) (ndocs : N) (y : yaml) : outcome top :=
  if negb (ndocs =? 1) then Err E_docs
  else match y with
       | YHash h => top_keys fuel h top0
       | _ => Err E_type
       end.

End Loader.

(* ---- serving: the option lengths of a router advertisement ------------------
   radv/icmppkt.rs RDNSS: `u8::try_from(1 + servers.len() * 2).unwrap()`;
   DNSSL: `1 + (dnssl.len() / 8) as u8` after padding to a multiple of 8.  An
   interface without its own list announces the top-level one. *)
Definition rdnss_optlen (n : N) : outcome N :=
  if 1 + 2 * n <? 256 then Ok (1 + 2 * n) else Panic UnwrapNone.
Definition dnssl_optlen (octets : N) : outcome N :=
  let padded := ((octets + 7) / 8) * 8 in add_chk 8 1 (cast 8 (padded / 8)).
Definition ra_lens_no_panic (t : top) : bool :=
  forallb (fun i => negb (is_panic (rdnss_optlen (i_rdnss i))) && negb (is_panic (dnssl_optlen (i_dnssl i)))) (t_ifaces t)
  && negb (is_panic (rdnss_optlen (t_dns6 t))) && negb (is_panic (dnssl_optlen (t_dnssl t))).

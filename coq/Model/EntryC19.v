(* Token-level entry point for property C19 (case formats: header of
   harness/src/bin/c19.rs).  Definitions only. *)
From Erbium Require Import Lib.Base Model.ConfigAst Model.ConfigLoad.
From Coq Require Import String.

Definition toks_eqb := list_eqb N.eqb.

(* ---- decoding ---------------------------------------------------------- *)
(* a prefix of the summary: fam len addr-words (1 word for v4, 4 for v6) *)
Definition tok_prefix (ts : list N) : option (ipprefix * list N) :=
  match ts with
  | 4 :: len :: a :: r => Some ({| p_fam := 4; p_addr := a; p_len := len |}, r)
  | 6 :: len :: w3 :: w2 :: w1 :: w0 :: r =>
    Some ({| p_fam := 6; p_addr := ((w3 * 4294967296 + w2) * 4294967296 + w1) * 4294967296 + w0; p_len := len |}, r)
  | _ => None
  end.

Fixpoint tok_many {A} (one : list N -> option (A * list N)) (n : nat) (ts : list N) : option (list A * list N) :=
  match n with
  | O => Some ([], ts)
  | S k => match one ts with
           | Some (x, r) => match tok_many one k r with Some (xs, r2) => Some (x :: xs, r2) | None => None end
           | None => None
           end
  end.
Definition tok_list {A} (one : list N -> option (A * list N)) (ts : list N) : option (list A * list N) :=
  match ts with n :: r => if n <=? lenN r then tok_many one (N.to_nat n) r else None | [] => None end.
Definition tok_pair (ts : list N) : option ((N * N) * list N) :=
  match ts with a :: b :: r => Some ((a, b), r) | _ => None end.

Definition tok_summary (ts : list N) : option (cfg * list N) :=
  match tok_list tok_prefix ts with Some (addrs, r) =>
  match tok_list tok_prefix r with Some (acls, r) =>
  match tok_list tok_pair r with Some (routes, r) =>
  match tok_list tok_one r with Some (p64, r) =>
  match tok_list tok_one r with Some (rap, r) =>
  match tok_list tok_one r with Some (subs, r) =>
    Some ({| c_addresses := addrs; c_acl := acls; c_routes := routes; c_pref64 := p64;
             c_raprefix := rap; c_subnets := subs |}, r)
  | None => None end | None => None end | None => None end
  | None => None end | None => None end | None => None end.

(* the clients the harness sends through the ACLs (serve_acl in c19.rs) *)
Definition clients : list ip :=
  [V4 3221225991; V4 2130706433; V4 4294967295;
   V6 42540766411282592856903984951653826567; V6 281473902969351; V6 1].

(* SERVE code -> predicate number: 11 DHCP -> 3, 12 DNS -> 4, 13 RA -> 5, 14 ACL -> 6 *)
Definition serve_pred (s : N) : N := s - 8.

(* LOAD of kinds 1-3.  [must_load]: an unmutated example. *)
Definition check_load (tag_ok tag_rej : N) (must_load : bool) (ts : list N) : list N :=
  match ts with
  | [2] => v_viol 1
  | [1] => if must_load then v_viol 2 else v_ok tag_rej
  | 0 :: r =>
    match tok_summary r with
    | Some (c, [s]) =>
      if 10 <=? s then v_viol (serve_pred s)
      else if negb (cfg_safe c) then v_viol 7
      else if negb (serve_no_panic c clients) then v_diff [2]      (* the model expects a handler to panic *)
      else v_ok tag_ok
    | _ => v_bad
    end
  | _ => v_bad
  end.

(* ---- kind 4: one scalar through a modelled parser ---------------------- *)
Definition tok_oracle (ts : list N) : option (option ip * list N) :=
  match ts with
  | 0 :: r => Some (None, r)
  | 4 :: v :: r => Some (Some (V4 v), r)
  | 6 :: w3 :: w2 :: w1 :: w0 :: r => Some (Some (V6 (((w3 * 4294967296 + w2) * 4294967296 + w1) * 4294967296 + w0)), r)
  | _ => None
  end.

Definition head_of (s : list N) : list N := match split_slash s with h :: _ => h | [] => [] end.
Definition oracle_ip (s : list N) (res : option ip) : list N -> option ip :=
  fun q => if str_eqb q (head_of s) then res else None.
Definition oracle_ip4 (s : list N) (res : option ip) : list N -> option N :=
  fun q => if str_eqb q (head_of s) then match res with Some (V4 v) => Some v | _ => None end else None.

Definition kstr (s : string) : yaml := YString (codes s).

(* what the model expects the loader to answer: class and VALUE *)
Definition put_prefix_fl (p : ipprefix) : list N := [p_fam p; p_len p].
Definition expect_scalar (p : N) (s : list N) (res : option ip) : outcome (list N) :=
  let ipp := oracle_ip s res in
  let ip4p := oracle_ip4 s res in
  match p with
  | 1 => do d <- str_duration s ; Ok [d / 4294967296; d mod 4294967296]
  | 2 => do r <- apply_subnet ip4p (YString s) ;
         Ok (match r with Some (first, last) => [last - first + 1; first; last] | None => [0; 0; 0] end)
  | 3 => do sn <- match_subnet ip4p (YString s) ; Ok [snd sn]
  | 4 => do sn <- route_prefix ip4p (YString s) ; Ok [snd sn]
  | 5 => do l <- load_addresses ipp (YArray [YString s]) ;
         match l with [x] => Ok (put_prefix_fl x) | _ => Err 0 end
  | 6 => do l <- acl ipp (YHash [(kstr "match-subnets", YArray [YString s]); (kstr "apply-access", YArray [kstr "dns-recursion"])]) ;
         match l with [x] => Ok (put_prefix_fl x) | _ => Err 0 end
  | 7 => do x <- ra_prefix ipp (YHash [(kstr "prefix", YString s)]) ; Ok [p_len x]
  | _ => do x <- pref64 ipp (YHash [(kstr "prefix", YString s)]) ;
         match x with Some x => Ok [p_len x] | None => Err 0 end
  end.

(* the configuration a scalar case produces, for the serving model *)
Definition scalar_cfg (p : N) (s : list N) (res : option ip) : cfg :=
  let ipp := oracle_ip s res in
  let one := match str_prefix ipp (if p =? 5 then 0 else if p =? 6 then 0 else 6) s with Ok x => [x] | _ => [] end in
  {| c_addresses := if p =? 5 then one else [];
     c_acl := if p =? 6 then one else [];
     c_routes := [];
     c_pref64 := if p =? 8 then map p_len one else [];
     c_raprefix := if p =? 7 then map p_len one else [];
     c_subnets := [] |}.

Definition value_agrees (p : N) (model impl : list N) : bool := toks_eqb model impl.

(* predicate 8: the loader accepted a duration string but the value it stored
   is not the sum of its parts (silent wrap-around) *)
Definition wrapped_duration (p : N) (s impl : list N) : bool :=
  match p, impl with
  | 1, hi :: lo :: _ =>
    match dur_value s None 0 with
    | Some v => negb (hi * 4294967296 + lo =? v)
    | None => true
    end
  | _, _ => false
  end.

Definition check_scalar (ts : list N) : list N :=
  match ts with
  | p :: r =>
    match tok_bytes r with
    | Some (s, r) =>
      match tok_oracle r with
      | Some (res, impl) =>
        let model := expect_scalar p s res in
        match impl with
        | [2] => v_viol 1
        | [1] => match model with
                 | Err _ => v_ok (20 + p)
                 | Ok v => v_diff (0 :: v)
                 | Panic _ => v_diff [2]
                 end
        | 0 :: rest =>
          if wrapped_duration p s rest then v_viol 8 else
          match model with
          | Ok v =>
            let n := lenN v in
            match tok_take n rest with
            | Some (iv, [sv]) =>
              if 10 <=? sv then v_viol (serve_pred sv)
              else if negb (value_agrees p v iv) then v_diff (0 :: v)
              else if negb (cfg_safe (scalar_cfg p s res)) then v_viol 7
              else if negb (serve_no_panic (scalar_cfg p s res) clients) then v_diff [2]
              else v_ok (10 + p)
            | _ => v_bad
            end
          | Err e => match rev rest with
                     | sv :: _ => if 10 <=? sv then v_viol (serve_pred sv) else v_diff [1; e]
                     | [] => v_bad
                     end
          | Panic _ => v_diff [2]
          end
        | _ => v_bad
        end
      | None => v_bad
      end
    | None => v_bad
    end
  | [] => v_bad
  end.

(* ---- kind 5: type names ------------------------------------------------ *)
Fixpoint tok_yaml (fuel : nat) (ts : list N) : option (yaml * list N) :=
  match fuel with
  | O => None
  | S k =>
    match ts with
    | 0 :: r => Some (YReal [], r)
    | 1 :: r => Some (YInteger 0, r)
    | 2 :: r => Some (YString [], r)
    | 3 :: r => Some (YBoolean true, r)
    | 4 :: n :: r =>
      if n <=? lenN r then
        match tok_many (tok_yaml k) (N.to_nat n) r with Some (xs, r2) => Some (YArray xs, r2) | None => None end
      else None
    | 5 :: n :: r =>
      if n <=? lenN r then
        match tok_many (tok_yaml k) (N.to_nat n) r with
        | Some (xs, r2) => Some (YHash (map (fun v => (YString [], v)) xs), r2)
        | None => None
        end
      else None
    | 6 :: r => Some (YAlias 0, r)
    | 7 :: r => Some (YNull, r)
    | 8 :: r => Some (YBadValue, r)
    | _ => None
    end
  end.

Definition check_name (ts : list N) : list N :=
  match tok_yaml (S (List.length ts)) ts with
  | Some (y, impl) =>
    match impl with
    | [2] => v_viol 1
    | [3] => v_ok 30                                   (* not YAML: the scanner's error, nothing of the loader ran *)
    | _ =>
      let model :=
        match parse_string y with
        | Ok _ => [0]
        | Err _ => match type_to_name y with Ok n => 1 :: put_bytes n | _ => [2] end
        | Panic _ => [2]
        end in
      if toks_eqb impl model then v_ok (match model with 0 :: _ => 31 | _ => 32 end) else v_diff model
    end
  | None => v_bad
  end.

(* ---- kind 7: a whole fragment against the model's fragment parser -------- *)
Fixpoint tok_full (fuel : nat) (ts : list N) : option (yaml * list N) :=
  match fuel with
  | O => None
  | S k =>
    match ts with
    | 0 :: r => Some (YReal [], r)
    | 1 :: r => Some (YInteger 0, r)
    | 2 :: r => match tok_bytes r with Some (s, r2) => Some (YString s, r2) | None => None end
    | 3 :: b :: r => Some (YBoolean (negb (b =? 0)), r)
    | 4 :: n :: r =>
      if n <=? lenN r then
        match tok_many (tok_full k) (N.to_nat n) r with Some (xs, r2) => Some (YArray xs, r2) | None => None end
      else None
    | 5 :: n :: r =>
      if n <=? lenN r then
        match tok_many (fun t => match tok_full k t with
                                 | Some (key, r1) => match tok_full k r1 with
                                                     | Some (v, r2) => Some ((key, v), r2)
                                                     | None => None
                                                     end
                                 | None => None
                                 end) (N.to_nat n) r with
        | Some (kvs, r2) => Some (YHash kvs, r2)
        | None => None
        end
      else None
    | 7 :: r => Some (YNull, r)
    | 8 :: r => Some (YBadValue, r)
    | _ => None
    end
  end.

Definition tok_oracle_entry (ts : list N) : option ((list N * option ip) * list N) :=
  match tok_bytes ts with
  | Some (key, r) => match tok_oracle r with Some (res, r2) => Some ((key, res), r2) | None => None end
  | None => None
  end.
Definition table_ip (tbl : list (list N * option ip)) : list N -> option ip :=
  fun q => match find (fun e => str_eqb (fst e) q) tbl with Some e => snd e | None => None end.

Definition expect_fragment (f : N) (ipp : list N -> option ip) (y : yaml) : list N :=
  match f with
  | 1 => match dns_route ipp y with
         | Ok (Some (t, n)) => [0; 1; t; n]
         | Ok None => [1]                       (* parse_array: "Cannot have a Null value in array" *)
         | Err _ => [1]
         | Panic _ => [2]
         end
  | 2 => match ra_prefix ipp y with Ok p => [0; 1; p_len p] | Err _ => [1] | Panic _ => [2] end
  | _ => match pref64 ipp y with
         | Ok (Some p) => [0; 1; p_len p]
         | Ok None => [0; 0]
         | Err _ => [1]
         | Panic _ => [2]
         end
  end.

Definition check_fragment (ts : list N) : list N :=
  match ts with
  | f :: r =>
    match tok_full (S (List.length r)) r with
    | Some (y, r) =>
      match tok_list tok_oracle_entry r with
      | Some (tbl, impl) =>
        let model := expect_fragment f (table_ip tbl) y in
        match impl with
        | [2] => v_viol 1
        | [3] => v_ok 40
        | [1] => if toks_eqb model [1] then v_ok (44 + f) else v_diff model
        | 0 :: rest =>
          match rev rest with
          | sv :: vals_rev =>
            if 10 <=? sv then v_viol (serve_pred sv)
            else if toks_eqb model (0 :: rev vals_rev) then v_ok (40 + f) else v_diff model
          | [] => v_bad
          end
        | _ => v_bad
        end
      | None => v_bad
      end
    | None => v_bad
    end
  | [] => v_bad
  end.

(* ---- kind 8: a whole document against the model of the whole loader -------- *)
(* AST with values: 0 Real | 1 sign hi lo Integer | 2 n chars | 3 b | 4 n elem* | 5 n (key value)* | 7 Null | 8 Bad *)
(* [n] tokens off the front, in one pass (Base.tok_take measures the whole rest first) *)
Fixpoint take_cnt (ts : list N) (n : N) (acc : list N) : option (list N * list N) :=
  if n =? 0 then Some (rev_append acc [], ts)
  else match ts with [] => None | t :: r => take_cnt r (n - 1) (t :: acc) end.
Definition tok_str (ts : list N) : option (list N * list N) :=
  match ts with n :: r => take_cnt r n [] | [] => None end.

(* [bound]: the length of the case line (an element count beyond it is malformed) *)
Fixpoint tok_ast (bound : N) (fuel : nat) (ts : list N) : option (yaml * list N) :=
  match fuel with
  | O => None
  | S k =>
    match ts with
    | 0 :: r => Some (YReal [], r)
    | 1 :: sg :: hi :: lo :: r =>
      let v := Z.of_N (hi * 4294967296 + lo) in Some (YInteger (if sg =? 0 then v else (- v)%Z), r)
    | 2 :: r => match tok_str r with Some (s, r2) => Some (YString s, r2) | None => None end
    | 3 :: b :: r => Some (YBoolean (negb (b =? 0)), r)
    | 4 :: n :: r =>
      if n <=? bound then
        match tok_many (tok_ast bound k) (N.to_nat n) r with Some (xs, r2) => Some (YArray xs, r2) | None => None end
      else None
    | 5 :: n :: r =>
      if n <=? bound then
        match tok_many (fun t => match tok_ast bound k t with
                                 | Some (key, r1) => match tok_ast bound k r1 with
                                                     | Some (v, r2) => Some ((key, v), r2)
                                                     | None => None
                                                     end
                                 | None => None
                                 end) (N.to_nat n) r with
        | Some (kvs, r2) => Some (YHash kvs, r2)
        | None => None
        end
      else None
    | 7 :: r => Some (YNull, r)
    | 8 :: r => Some (YBadValue, r)
    | _ => None
    end
  end.
Definition tok_listb {A} (bound : N) (one : list N -> option (A * list N)) (ts : list N) : option (list A * list N) :=
  match ts with n :: r => if n <=? bound then tok_many one (N.to_nat n) r else None | [] => None end.

(* one row of the oracle table: string, str_ip's answer, Ipv4Addr::from_str's, str_sockaddr accepts *)
Definition tok_orow (ts : list N) : option ((list N * (option ip * (option N * bool))) * list N) :=
  match tok_str ts with
  | Some (key, r) =>
    match tok_oracle r with
    | Some (res, r2) =>
      match r2 with
      | 0 :: sk :: r3 => Some ((key, (res, (None, negb (sk =? 0)))), r3)
      | 1 :: v :: sk :: r3 => Some ((key, (res, (Some v, negb (sk =? 0)))), r3)
      | _ => None
      end
    | None => None
    end
  | None => None
  end.
Definition orow_find (tbl : list (list N * (option ip * (option N * bool)))) (q : list N) :=
  find (fun e => str_eqb (fst e) q) tbl.
Definition o_ip tbl : list N -> option ip := fun q => match orow_find tbl q with Some e => fst (snd e) | None => None end.
Definition o_ip4 tbl : list N -> option N := fun q => match orow_find tbl q with Some e => fst (snd (snd e)) | None => None end.
Definition o_sock tbl : list N -> bool := fun q => match orow_find tbl q with Some e => snd (snd (snd e)) | None => false end.

Definition prefix_eqb (a b : ipprefix) : bool :=
  (p_fam a =? p_fam b) && (p_len a =? p_len b) && (p_addr a =? p_addr b).
Fixpoint ins_sorted (x : N) (l : list N) : list N :=
  match l with [] => [x] | y :: r => if x <=? y then x :: l else y :: ins_sorted x r end.
Definition sortN (l : list N) : list N := fold_right ins_sorted [] l.
Definition pair_eqb (a b : N * N) : bool := (fst a =? fst b) && (snd a =? snd b).

(* first field in which the model's configuration differs from the implementation's (0 = none) *)
Definition cfg_diff (m i : cfg) : N :=
  if negb (list_eqb prefix_eqb (c_addresses m) (c_addresses i)) then 1
  else if negb (list_eqb prefix_eqb (c_acl m) (c_acl i)) then 2
  else if negb (list_eqb pair_eqb (c_routes m) (c_routes i)) then 3
  else if negb (toks_eqb (c_pref64 m) (c_pref64 i)) then 4
  else if negb (toks_eqb (c_raprefix m) (c_raprefix i)) then 5
  else if negb (toks_eqb (sortN (c_subnets m)) (sortN (c_subnets i))) then 6
  else 0.

Definition class_of {A} (o : outcome A) : N := match o with Ok _ => 0 | Err _ => 1 | Panic _ => 2 end.
Definition err_of {A} (o : outcome A) : N := match o with Err e => e | _ => 0 end.

(* the first top-level key on which model and implementation disagree when
   the key stands alone (1-based; 0: none -- the disagreement needs several keys) *)
Fixpoint offending_key (ld : yaml -> N) (h : list (yaml * yaml)) (impl : list N) (idx : N) : N :=
  match h, impl with
  | kv :: r, c :: ir => if ld (YHash [kv]) =? c then offending_key ld r ir (idx + 1) else idx
  | _, _ => 0
  end.

Definition tok_pool (ts : list N) : option (option N * list N) :=
  match ts with 0 :: r => Some (None, r) | 1 :: n :: r => Some (Some n, r) | _ => None end.

Definition check_doc8 (ts : list N) : list N :=
  match ts with
  | kind :: r =>
    match tok_bytes r with
    | Some (_, 0 :: impl) =>
      match impl with [2] => v_viol 1 | [1] => v_ok 50 | _ => v_diff [1] end      (* not YAML: the scanner's error *)
    | Some (_, 1 :: ndocs :: r) =>
      let fuel := S (List.length r) in
      let bound := N.of_nat fuel in
      match tok_ast bound fuel r with
      | Some (y, r) =>
        match tok_listb bound tok_orow r with
        | Some (tbl, r) =>
          match tok_listb bound tok_one r with
          | Some (keyclasses, impl) =>
            let ld := fun d => load (o_ip tbl) (o_ip4 tbl) (o_sock tbl) fuel ndocs d in
            let model := ld y in
            (* only evaluated on a disagreement *)
            let bad_key := fun _ : unit =>
              match y with YHash h => offending_key (fun d => class_of (ld d)) h keyclasses 1 | _ => 0 end in
            match impl with
            | [2] => v_viol 1
            | [1] => if kind =? 3 then v_viol 2
                     else match model with
                          | Err _ => v_ok (if kind =? 1 then 52 else 54)
                          | _ => v_diff [class_of model; 0; bad_key tt]
                          end
            | 0 :: rest =>
              match match tok_summary rest with
                    | Some (c, r2) => match tok_listb bound tok_pool r2 with Some (pools, r3) => Some (c, pools, r3) | None => None end
                    | None => None
                    end with
              | Some (c, pools, [sv]) =>
                if 10 <=? sv then v_viol (serve_pred sv)
                else if negb (cfg_safe c) then v_viol 7
                else match model with
                     | Ok t =>
                       let d := cfg_diff (cfg_of_top t) c in
                       if negb (d =? 0) then v_diff [3; d]
                       else if negb (list_eqb (opt_eqb N.eqb) (map pool_size (t_policies t)) pools) then v_diff [3; 7]
                       else if negb (serve_no_panic c clients) then v_diff [2]
                       else v_ok (if kind =? 1 then 51 else if kind =? 2 then 53 else 55)
                     | _ => v_diff [class_of model; err_of model; bad_key tt]
                     end
              | _ => v_bad
              end
            | _ => v_bad
            end
          | None => v_bad
          end
        | None => v_bad
        end
      | None => v_bad
      end
    | _ => v_bad
    end
  | [] => v_bad
  end.

(* kind 6: a document the harness did not run because the loader (apply-range,
   apply-subnet) or every DHCP request (`addresses`) would materialise more
   than 2^17 addresses one by one: known-finding class 1 (memory exhaustion,
   not a panic).  The class predicate: *)
Definition huge_expansion (what a b : N) : bool :=
  match what with
  | 1 => (a <=? b) && (131072 <? b - a + 1)
  | 2 | 3 => (1 <=? a) && (a <? 15)
  | 4 => 131072 <? a                    (* the sum over all expansions of the document *)
  | _ => false
  end.
Definition check_screened (ts : list N) : list N :=
  match ts with
  | [what; a; b] => if huge_expansion what a b then v_known 1 else v_bad
  | _ => v_bad
  end.

Definition check_C19 (ts : list N) : list N :=
  match ts with
  | 1 :: r => match tok_bytes r with Some (_, l) => check_load 1 2 false l | None => v_bad end
  | 2 :: r => match tok_bytes r with Some (_, l) => check_load 3 4 false l | None => v_bad end
  | 3 :: _ :: r => match tok_bytes r with Some (_, l) => check_load 5 5 true l | None => v_bad end
  | 4 :: r => check_scalar r
  | 5 :: r => check_name r
  | 6 :: r => match tok_bytes r with Some (_, l) => check_screened l | None => v_bad end
  | 7 :: r => check_fragment r
  | 8 :: r => check_doc8 r
  | _ => v_bad
  end.

(* Token-level entry point for property C10: the shared history fold of
   Model/PoolEntry.v evaluating the C10 predicates (see props/C10.json). *)
From Erbium Require Import Lib.Base Model.DhcpPool Model.PoolEntry.
(* kind 40 (end-to-end rig, scenario `dhcpflow`): an OFFER / ACK of the REAL binary captured on the wire and
   the row of its yiaddr in /api/v1/leases.json read right after it:
     [40; is_ack; option 51 present; its value; listed expiry - listed start (0: no such row); min; max]
   A history line can never have this shape: its first token is the number of events, and 40 events need far
   more than six further tokens. *)
Definition check_rig_lease (is_ack present secs listed mn mx : N) : list N :=
  if present =? 0 then v_viol 4
  else if negb ((mn <=? secs) && (secs <=? mx)) then v_viol 1
  else if negb (listed =? secs) then v_viol 2
  else v_ok (200 + N.min is_ack 1).

Definition check_C10 (ts : list N) : list N :=
  match ts with
  | [40; is_ack; present; secs; listed; mn; mx] => check_rig_lease is_ack present secs listed mn mx
  | _ => check_pool 10 ts
  end.

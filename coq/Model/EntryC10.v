(* Token-level entry point for property C10: the shared history fold of
   Model/PoolEntry.v evaluating the C10 predicates (see props/C10.json). *)
From Erbium Require Import Lib.Base Model.DhcpPool Model.PoolEntry.
Definition check_C10 (ts : list N) : list N := check_pool 10 ts.

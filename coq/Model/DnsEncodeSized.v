(* The size limit per transport (dns/mod.rs run_udp / run_tcp after the F9
   repair: one pure function [response_size_limit] used by both paths) and
   the octets put on the wire for a reply.  Definitions only. *)
From Erbium Require Import Lib.Base Model.DnsName Model.DnsCodec.

(* proto: false = UDP, true = TCP; [advertised] = bufsize of the decoded query
   (parse.rs:352: max(OPT class, 512), 512 without OPT) *)
Definition response_size_limit (tcp : bool) (advertised : N) : N :=
  if tcp then 65535 else N.max advertised 512.

(* prepare_to_send *)
Definition prepare_to_send (r : pkt) (size : N) : outcome (list N) :=
  encode_sized r (N.max size 512).

Definition wire_bytes (q : pkt) (tcp : bool) (r : pkt) : outcome (list N) :=
  prepare_to_send r (response_size_limit tcp (bufsize q)).

Definition udp_bytes (q r : pkt) := wire_bytes q false r.
Definition tcp_bytes (q r : pkt) := wire_bytes q true r.

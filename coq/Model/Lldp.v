(* Model of the LLDP receive path:
     crates/erbium-core/src/lldp/mod.rs      LldpService::run -> decode_frame
                                             (Ethernet-header skip, then from_wire)
     crates/erbium-core/src/lldp/lldppkt.rs  LldpPacket::from_wire, LldpTlv::from_wire and
                                             every per-type TLV decoder
     crates/erbium-core/src/pktparser/mod.rs Buffer (get_u8, get_bytes, get_buffer, get_be16,
                                             get_be32, remaining)
   The cursor only moves forward, so a Buffer is the list of octets not yet
   read; a sub-buffer (get_buffer) is a fresh list.  Every Rust operation
   that can abort (`-` on u8, slice indexing) is an explicit Panic outcome.
   This is the code AFTER the repairs of F15 (frame shorter than 14 octets)
   and F16 (management address length 0).  Definitions only. *)
From Erbium Require Import Lib.Base.

Definition L_EOF : N := 1.       (* pktparser::ParseError::UnexpectedEndOfInput *)
Definition L_INVALID : N := 2.   (* pktparser::ParseError::InvalidArgument(_) *)

(* ---- pktparser::Buffer ------------------------------------------------- *)
Definition b_u8 (l : list N) : outcome (N * list N) :=
  match l with b :: r => Ok (b, r) | [] => Err L_EOF end.
Definition b_bytes (n : N) (l : list N) : outcome (list N * list N) :=
  if n <=? lenN l then Ok (takeN n l, dropN n l) else Err L_EOF.
Definition b_be16 (l : list N) : outcome (N * list N) :=
  do (b, r) <- b_bytes 2 l ; Ok (be_decode b, r).
Definition b_be32 (l : list N) : outcome (N * list N) :=
  do (b, r) <- b_bytes 4 l ; Ok (be_decode b, r).

(* ---- String::from_utf8: well-formed UTF-8 (Unicode table 3-7) ---------- *)
Definition cont (b : N) : bool := (128 <=? b) && (b <=? 191).
Definition in_rng (lo hi b : N) : bool := (lo <=? b) && (b <=? hi).
Fixpoint utf8_ok (l : list N) : bool :=
  match l with
  | [] => true
  | b :: r =>
    if b <? 128 then utf8_ok r
    else if in_rng 194 223 b then
      match r with c1 :: r1 => cont c1 && utf8_ok r1 | _ => false end
    else if in_rng 224 239 b then
      match r with
      | c1 :: c2 :: r2 =>
        (if b =? 224 then in_rng 160 191 c1 else if b =? 237 then in_rng 128 159 c1 else cont c1)
        && cont c2 && utf8_ok r2
      | _ => false
      end
    else if in_rng 240 244 b then
      match r with
      | c1 :: c2 :: c3 :: r3 =>
        (if b =? 240 then in_rng 144 191 c1 else if b =? 244 then in_rng 128 143 c1 else cont c1)
        && cont c2 && cont c3 && utf8_ok r3
      | _ => false
      end
    else false
  end.

(* ---- decoded TLVs ------------------------------------------------------ *)
Inductive tlv :=
| TEnd
| TChassis (subtype : N) (id : list N)
| TPort (subtype : N) (id : list N)
| TTtl (v : N)
| TStr (ty : N) (s : list N)                  (* 4 PortDescription, 5 SystemName, 6 SystemDescription *)
| TCap (sys enabled : N)
| TMgmt (addr : list N) (af subtype ifnum : N) (oid : list N)
| TOrg (oui : list N) (subtype : N) (v : list N)
| TUnknown (ty : N) (payload : list N).

Definition checked_sub (a b : N) : option N := if b <=? a then Some (a - b) else None.

(* ChassisIdType / PortIdType ::from_wire: one octet, 1..7 *)
Definition id_subtype (p : list N) : outcome (N * list N) :=
  do (st, r) <- b_u8 p ;
  if (1 <=? st) && (st <=? 7) then Ok (st, r) else Err L_INVALID.

(* ManagementAddress::from_wire.  `get_u8()?.checked_sub(1)` (F16: was `- 1`). *)
Definition mgmt_from_wire (p : list N) : outcome tlv :=
  do (l, r) <- b_u8 p ;
  match checked_sub l 1 with None => Err L_INVALID | Some alen =>
  do (af, r) <- b_u8 r ;
  if negb ((1 <=? alen) && (alen <=? 32)) then Err L_INVALID else
  do (addr, r) <- b_bytes alen r ;
  do (st, r) <- b_u8 r ;
  do (ifn, r) <- b_be32 r ;
  do (olen, r) <- b_u8 r ;
  do (oid, r) <- b_bytes olen r ;
  Ok (TMgmt addr af st ifn oid)
  end.

Definition org_from_wire (p : list N) : outcome tlv :=
  do (oui, r) <- b_bytes 3 p ;
  do (st, r) <- b_u8 r ;
  do (v, r) <- b_bytes (lenN r) r ;
  Ok (TOrg oui st v).

(* LldpTlv::from_wire: type = upper 7 bits of the first octet, length = the
   second octet (the ninth length bit is ignored by the code). Returns the TLV
   and the rest of the buffer. *)
Definition tlv_from_wire (l : list N) : outcome (tlv * list N) :=
  do (b0, r) <- b_u8 l ;
  let ty := N.shiftr (N.land b0 254) 1 in
  do (len, r) <- b_u8 r ;
  do (p, rest) <- b_bytes len r ;
  do t <-
    (if ty =? 0 then Ok TEnd
     else if ty =? 1 then (do (st, id) <- id_subtype p ; Ok (TChassis st id))
     else if ty =? 2 then (do (st, id) <- id_subtype p ; Ok (TPort st id))
     else if ty =? 3 then
       (if negb (lenN p =? 2) then Err L_INVALID else do (v, _) <- b_be16 p ; Ok (TTtl v))
     else if (ty =? 4) || (ty =? 5) || (ty =? 6) then
       (do (s, _) <- b_bytes (lenN p) p ; if utf8_ok s then Ok (TStr ty s) else Err L_INVALID)
     else if ty =? 7 then
       (if negb (lenN p =? 4) then Err L_INVALID else
        do (a, r1) <- b_be16 p ; do (b, _) <- b_be16 r1 ; Ok (TCap a b))
     else if ty =? 8 then mgmt_from_wire p
     else if ty =? 127 then org_from_wire p
     else (do (v, _) <- b_bytes (lenN p) p ; Ok (TUnknown ty v))) ;
  Ok (t, rest).

Definition is_end (t : tlv) : bool := match t with TEnd => true | _ => false end.

Definition L_FUEL : N := 99.     (* not an error of the code: fuel ran out (proved unreachable) *)

(* LldpPacket::from_wire: `while buf.remaining() > 0 { push(tlv); if End return Ok }`,
   then Err(InvalidArgument "missing End of LLDP PDU TLV").  [acc] is reversed. *)
Fixpoint pkt_loop (fuel : nat) (l : list N) (acc : list tlv) : outcome (list tlv) :=
  match fuel with
  | O => Err L_FUEL
  | S f =>
    match l with
    | [] => Err L_INVALID
    | _ =>
      do (t, rest) <- tlv_from_wire l ;
      if is_end t then Ok (rev (t :: acc)) else pkt_loop f rest (t :: acc)
    end
  end.
Definition lldp_from_wire (l : list N) : outcome (list tlv) := pkt_loop (S (length l)) l [].

(* lldp/mod.rs: the octets after the 14-octet Ethernet header, `frame.get(14..)`
   (F15: was `&frame[14..]`); a short frame is reported like any undecodable one. *)
Definition frame_payload (frame : list N) : option (list N) :=
  if 14 <=? lenN frame then Some (dropN 14 frame) else None.
Definition lldp_handle_frame (frame : list N) : outcome (list tlv) :=
  match frame_payload frame with
  | None => Err L_EOF
  | Some p => lldp_from_wire p
  end.

(* ---- canonical rendering of a decoded TLV: LldpTlv::to_wire ------------- *)
(* header: ((ty << 9) | (len & 0x1ff)) as big-endian u16 *)
Definition tlv_hdr (ty len : N) : list N :=
  be16 (N.lor (N.shiftl ty 9) (N.land len 511) mod 65536).
Definition tlv_payload (t : tlv) : N * list N :=
  match t with
  | TEnd => (0, [])
  | TChassis st id => (1, st :: id)
  | TPort st id => (2, st :: id)
  | TTtl v => (3, be16 v)
  | TStr ty s => (ty, s)
  | TCap a b => (7, be16 a ++ be16 b)
  | TMgmt addr af st ifn oid =>
    (8, [lenN addr mod 256; af] ++ addr ++ [st] ++ be32 ifn ++ [lenN oid mod 256] ++ oid)
  | TOrg oui st v => (127, oui ++ [st] ++ v)
  | TUnknown ty v => (ty, v)
  end.
Definition tlv_wire (t : tlv) : list N :=
  let (ty, p) := tlv_payload t in tlv_hdr ty (lenN p) ++ p.

(* ---- the service: LldpService::run is an *inline* loop (no task is spawned
   per frame), so a panic while handling one frame ends the LLDP service.
   Result: one entry per frame handled, 1 = decoded (and logged if it differs
   from the previous one), 0 = reported as undecodable. *)
Fixpoint lldp_serve (frames : list (list N)) : outcome (list N) :=
  match frames with
  | [] => Ok []
  | f :: r =>
    match lldp_handle_frame f with
    | Panic k => Panic k
    | Err _ => do tl <- lldp_serve r ; Ok (0 :: tl)
    | Ok _ => do tl <- lldp_serve r ; Ok (1 :: tl)
    end
  end.

(* ---- well-formed TLVs: what LldpTlv::to_wire writes such that from_wire reads
   it back (spec-level predicate used by the "still decodes well-formed frames"
   theorems; the End TLV is added by the frame) --------------------------------- *)
Definition wf_tlv (t : tlv) : bool :=
  match t with
  | TEnd => false                                   (* the terminator is added by the frame *)
  | TChassis st id | TPort st id => (1 <=? st) && (st <=? 7) && (lenN id <? 255)
  | TTtl v => v <? 65536
  | TStr ty s => ((ty =? 4) || (ty =? 5) || (ty =? 6)) && utf8_ok s && (lenN s <? 256)
  | TCap a b => (a <? 65536) && (b <? 65536)
  | TMgmt _ _ _ _ _ => false                        (* ManagementAddress::to_wire writes a wrong length octet *)
  | TOrg oui st v => (lenN oui =? 3) && (lenN v <? 252)
  | TUnknown ty v => (9 <=? ty) && (ty <? 127) && (lenN v <? 256)
  end.
Definition wf_tlvs (ts : list tlv) : bool := forallb wf_tlv ts.

(* Token-level entry point for property C01: the shared history fold of
   Model/PoolEntry.v evaluating the C01 predicates (see props/C01.json). *)
From Erbium Require Import Lib.Base Model.DhcpPool Model.PoolEntry.
Definition check_C01 (ts : list N) : list N := check_pool 1 ts.

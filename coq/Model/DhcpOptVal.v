(* Model of the DHCP option *value* decoders that run for every received
   packet (log_options) and of the hardware-address slicing before a reply is
   framed:
     crates/erbium-core/src/dhcp/dhcppkt.rs  DhcpOption::get_type (OPT_INFO), DhcpOptionType::decode,
                                             every DhcpParse impl
     crates/erbium-core/src/pktparser/mod.rs Buffer::get_domains / get_domain / get_label
     crates/erbium-net/src/lib.rs            Ipv4Subnet::new, netmask
     crates/erbium-core/src/dhcp/mod.rs      log_options, to_array
   Every Rust operation that can abort is an explicit Panic outcome: `+` is
   add_chk (debug profile), `>>` with an amount >= the width panics.  `None`
   results of the Option-returning decoders are [Err E_NONE].  This is the code
   AFTER the repairs of F13 (to_array) and F14 (Ipv4Subnet::new rejects a
   prefix length > 32).  Definitions only. *)
From Erbium Require Import Lib.Base Model.DhcpCodec.

Definition E_NONE : N := 1.      (* the decoder returned None ("<decode-failed>") *)
Definition E_NOTYPE : N := 2.    (* DhcpOption::get_type returned None *)
Definition E_FUEL : N := 99.     (* not a result of the code: fuel ran out (proved unreachable) *)

(* ---- DhcpOptionType and OPT_INFO --------------------------------------- *)
Inductive otype :=
| OString | OIp | OIpList | OI32 | OU8 | OU16 | OU32 | OBool | OSeconds16 | OSeconds32
| OHwAddr | ORoutes | ODomainList | OUnknown.

(* (code, type) in the order of OPT_INFO *)
Definition OPT_INFO : list (N * otype) :=
  [(1, OIp); (2, OI32); (3, OIpList); (4, OIpList); (5, OIpList); (6, OIpList); (7, OIpList);
   (8, OIpList); (9, OIpList); (10, OIpList); (11, OIpList); (12, OString); (15, OString);
   (17, OString); (18, OString); (19, OBool); (20, OBool); (21, OSeconds16); (23, OU8);
   (24, OSeconds32); (26, OU16); (27, OBool); (28, OIp); (29, OBool); (30, OBool); (31, OBool);
   (32, OIp); (33, OUnknown); (34, OBool); (35, OSeconds32); (36, OBool); (37, OU16);
   (38, OSeconds32); (39, OBool); (40, OString); (41, OIpList); (42, OIpList); (43, OUnknown);
   (44, OIpList); (45, OIpList); (46, OU8); (47, OString); (48, OIpList); (49, OIpList);
   (50, OIp); (51, OSeconds32); (54, OIp); (56, OString); (57, OU16); (58, OSeconds16);
   (59, OSeconds16); (60, OString); (61, OHwAddr); (64, OString); (65, OIpList); (68, OIpList);
   (69, OIpList); (70, OIpList); (71, OIpList); (72, OIpList); (73, OIpList); (74, OIpList);
   (75, OIpList); (76, OIpList); (77, OString); (81, OString); (97, OUnknown); (100, OString);
   (101, OString); (103, OBool); (104, OIp); (119, ODomainList); (108, OSeconds32);
   (114, OString); (120, OUnknown); (121, ORoutes); (252, OString)].

(* `for (_, option, ty) in OPT_INFO { if option == self { return Some(ty) } } None` *)
Fixpoint get_type_in (tbl : list (N * otype)) (code : N) : option otype :=
  match tbl with
  | [] => None
  | (c, t) :: r => if c =? code then Some t else get_type_in r code
  end.
Definition get_type (code : N) : option otype := get_type_in OPT_INFO code.

(* ---- decoded values ----------------------------------------------------- *)
Inductive oval :=
| VString (raw : list N)           (* String::from_utf8_lossy of these octets; the replacement is not modelled *)
| VIp (a : N)
| VIpList (l : list N)
| VI32 (bits : N)                  (* two's complement bit pattern *)
| VU8 (v : N) | VU16 (v : N) | VU32 (v : N)
| VHwAddr (b : list N)
| VRoutes (l : list (N * N * N))   (* prefix length, prefix address, next hop *)
| VDomainList (l : list (list (list N)))   (* domains, each a list of labels *)
| VUnknown (b : list N).

Definition ip4 (a b c d : N) : N := ((a * 256 + b) * 256 + c) * 256 + d.

(* ---- erbium_net::Ipv4Subnet --------------------------------------------- *)
Definition shr_chk (w a s : N) : outcome N :=          (* `a >> s` on a w-bit integer *)
  if s <? w then Ok (N.shiftr a s) else Panic Overflow.
(* `(!(0xffff_ffff_u64 >> self.prefixlen) as u32)` *)
Definition netmask (plen : N) : outcome N :=
  do sh <- shr_chk 64 4294967295 plen ;
  Ok (cast 32 (18446744073709551615 - sh)).
(* Ipv4Subnet::new: `if prefixlen > 32 { return Err }` (F14), then
   `if u32::from(addr) & !u32::from(netmask()) != 0 { Err } else { Ok }` *)
Definition subnet_new (addr plen : N) : outcome (N * N) :=
  if 32 <? plen then Err E_NONE else
  do m <- netmask plen ;
  if N.land addr (4294967295 - m) =? 0 then Ok (addr, plen) else Err E_NONE.

(* ---- DhcpParse impls ------------------------------------------------------ *)
(* Vec<Route>: `while let Some(prefixlen) = it.next() { Ipv4Subnet::new(ip(it)?, prefixlen).ok()?; ip(it)? }` *)
Fixpoint parse_routes (v : list N) : outcome (list (N * N * N)) :=
  match v with
  | [] => Ok []
  | plen :: a :: b :: c :: d :: r =>
    do (addr, pl) <- subnet_new (ip4 a b c d) plen ;
    match r with
    | e :: f :: g :: h :: r' =>
      do tl <- parse_routes r' ; Ok ((pl, addr, ip4 e f g h) :: tl)
    | _ => Err E_NONE
    end
  | _ => Err E_NONE
  end.

Definition parse_ip (v : list N) : outcome N :=
  match v with [a; b; c; d] => Ok (ip4 a b c d) | _ => Err E_NONE end.

Fixpoint parse_iplist (v : list N) : outcome (list N) :=
  match v with
  | [] => Ok []
  | a :: b :: c :: d :: r => do tl <- parse_iplist r ; Ok (ip4 a b c d :: tl)
  | _ => Err E_NONE
  end.

(* `v.iter().fold(0_uW, |acc, &v| (acc << 8) + (v as Self))`: the shift drops
   the high octet silently, the addition is overflow-checked in debug *)
Fixpoint fold_u (w acc : N) (v : list N) : outcome N :=
  match v with
  | [] => Ok acc
  | b :: r => do s <- add_chk w (cast w (acc * 256)) b ; fold_u w s r
  end.
Definition parse_u64 (v : list N) := fold_u 64 0 v.
Definition parse_u32 (v : list N) := fold_u 32 0 v.
Definition parse_u16 (v : list N) := fold_u 16 0 v.

(* the same fold on i32 (values are bit patterns) *)
Definition to_signed32 (u : N) : Z :=
  if u <? 2147483648 then Z.of_N u else (Z.of_N u - 4294967296)%Z.
Definition add_i32_chk (u b : N) : outcome N :=
  let s := (to_signed32 u + Z.of_N b)%Z in
  if (s <=? 2147483647)%Z && (-2147483648 <=? s)%Z then Ok (Z.to_N (s mod 4294967296)) else Panic Overflow.
Fixpoint fold_i32 (acc : N) (v : list N) : outcome N :=
  match v with
  | [] => Ok acc
  | b :: r => do s <- add_i32_chk (cast 32 (acc * 256)) b ; fold_i32 s r
  end.
Definition parse_i32 (v : list N) := fold_i32 0 v.

Definition parse_u8 (v : list N) : outcome N :=       (* also MessageType *)
  match v with [b] => Ok b | _ => Err E_NONE end.

(* Buffer::get_domain: `loop { l = get_label()?; if l.is_empty() { return Some(d) } d.push(..) }` *)
Fixpoint get_domain (fuel : nat) (l : list N) (acc : list (list N)) : outcome (list (list N) * list N) :=
  match fuel with
  | O => Err E_FUEL
  | S f =>
    do (len, r) <- get_u8 l ;
    do (lab, r) <- get_bytes len r ;
    match lab with
    | [] => Ok (rev acc, r)
    | _ => get_domain f r (lab :: acc)
    end
  end.
(* Buffer::get_domains: `while !self.empty() { dl.push(self.get_domain()?) }` *)
Fixpoint get_domains (fuel : nat) (l : list N) (acc : list (list (list N))) : outcome (list (list (list N))) :=
  match fuel with
  | O => Err E_FUEL
  | S f =>
    match l with
    | [] => Ok (rev acc)
    | _ => do (d, r) <- get_domain (S (length l)) l [] ; get_domains f r (d :: acc)
    end
  end.
Definition parse_domains (v : list N) := get_domains (S (length v)) v [].

(* ---- DhcpOptionType::decode ------------------------------------------------ *)
Definition decode_value (t : otype) (v : list N) : outcome oval :=
  match t with
  | OString => Ok (VString v)
  | OIp => do a <- parse_ip v ; Ok (VIp a)
  | OIpList => do l <- parse_iplist v ; Ok (VIpList l)
  | OI32 => do x <- parse_i32 v ; Ok (VI32 x)
  | OU8 | OBool => do x <- parse_u8 v ; Ok (VU8 x)
  | OU16 | OSeconds16 => do x <- parse_u16 v ; Ok (VU16 x)
  | OU32 | OSeconds32 => do x <- parse_u32 v ; Ok (VU32 x)
  | OHwAddr => Ok (VHwAddr v)
  | ORoutes => do l <- parse_routes v ; Ok (VRoutes l)
  | ODomainList => do l <- parse_domains v ; Ok (VDomainList l)
  | OUnknown => Ok (VUnknown v)
  end.

(* `k.get_type().and_then(|x| x.decode(v))` *)
Definition dhcp_option_decode (code : N) (v : list N) : outcome oval :=
  match get_type code with
  | None => Err E_NOTYPE
  | Some t => decode_value t v
  end.

(* ---- dhcp/mod.rs ------------------------------------------------------------ *)
(* log_options: every option except MSGTYPE (53) and PARAMLIST (55) is decoded
   by its type and formatted.  Result: (options logged, of which "<decode-failed>").
   The HashMap iteration order is immaterial for this result. *)
Fixpoint log_opts (os : list (N * list N)) : outcome (N * N) :=
  match os with
  | [] => Ok (0, 0)
  | (c, v) :: r =>
    if (c =? 53) || (c =? 55) then log_opts r else
    match dhcp_option_decode c v with
    | Panic k => Panic k
    | Ok _ => do (n, f) <- log_opts r ; Ok (n + 1, f)
    | Err _ => do (n, f) <- log_opts r ; Ok (n + 1, f + 1)
    end
  end.
Definition log_options_model (m : dhcp) : outcome (N * N) := log_opts (d_options m).

(* to_array: `mac.get(0..6)?.try_into().ok()` (F13: was `mac[0..6]`) *)
Definition to_array (mac : list N) : outcome (option (list N)) :=
  if 6 <=? lenN mac then Ok (Some (takeN 6 mac)) else Ok None.

(* what happens to the octets of a received datagram before and when a reply
   is framed: parse, log_options, (handler), to_array of the echoed chaddr *)
Definition dhcp_recv_path (pkt : list N) : outcome (N * N * option (list N)) :=
  do m <- decode pkt ;
  do (n, f) <- log_options_model m ;
  do a <- to_array (d_chaddr m) ;
  Ok (n, f, a).

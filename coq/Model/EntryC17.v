(* Token-level entry point for property C17: decodes one case line written by
   harness/src/bin/c17.rs (configuration + what the implementation returned),
   evaluates the property predicates on the implementation's own octets with
   the RFC decoder, and compares the octets with the model's.  Definitions only.

   case line:
     kind                      3 = end-to-end rig: configuration, then a captured advertisement (see check_wire)
                               1 = interface configuration built directly (radv::verif hook)
                               2 = the same configuration rendered as YAML and loaded through
                                   config::verif_load_config_from_string
     top    : n {fam(4|6) octets(4|16)}   n {string}   opt(string)
     intf   : hop m o  cv(dur)lifetime  dur reachable  dur retrans
              n {addr16 len onlink auto dur dur}
              cv(dur)  cv(n {addr16})          dns-servers lifetime, addresses
              cv(dur)  cv(n {string})          dns-search lifetime, domains
              cv(string)                       captive-portal
              opt(dur addr16 len)              pref64
     env    : opt(6 octets)  opt(mtu)  addr16  dur
     impl   : 0 string (the octets) | 2 (panic) | 3 (kind 2: the loader rejected the configuration)
   dur = secs_hi secs_lo nanos (secs = hi * 2^32 + lo); string = length, octets;
   opt(x) = 0 | 1 x;  cv(x) = 0 (absent) | 1 (null) | 2 x. *)
From Erbium Require Import Lib.Base Model.Radv Model.RfcRaDecode Model.RaExpected.

Definition P (A : Type) := list N -> option (A * list N).
Definition pret {A} (a : A) : P A := fun ts => Some (a, ts).
Definition pbind {A B} (p : P A) (f : A -> P B) : P B :=
  fun ts => match p ts with Some (a, r) => f a r | None => None end.
Notation "'let*' x := p 'in' f" := (pbind p (fun x => f)) (at level 200, x name, p at level 100, f at level 200).

Definition p_n : P N := tok_one.
Definition p_bool : P bool := fun ts => match ts with t :: r => Some (negb (t =? 0), r) | [] => None end.
Definition p_take (n : N) : P (list N) := tok_take n.
Definition p_str : P (list N) := tok_bytes.
Definition p_dur : P dur :=
  let* hi := p_n in let* lo := p_n in let* ns := p_n in
  pret {| d_secs := hi * 4294967296 + lo; d_nanos := ns |}.
Definition p_opt {A} (p : P A) : P (option A) :=
  let* t := p_n in
  match t with 0 => pret None | 1 => let* a := p in pret (Some a) | _ => fun _ => None end.
Definition p_cv {A} (p : P A) : P (cv A) :=
  let* t := p_n in
  match t with 0 => pret NotSpecified | 1 => pret DontSet | 2 => let* a := p in pret (Value a) | _ => fun _ => None end.
Fixpoint p_rep {A} (p : P A) (n : nat) : P (list A) :=
  match n with
  | O => pret []
  | S k => let* a := p in let* r := p_rep p k in pret (a :: r)
  end.
Definition p_list {A} (p : P A) : P (list A) :=
  fun ts => match ts with n :: r => if n <=? lenN r then p_rep p (N.to_nat n) r else None | [] => None end.

Definition p_server : P (N * list N) :=
  let* fam := p_n in let* a := p_take (if fam =? 4 then 4 else 16) in pret (fam, a).
Definition p_top : P top :=
  let* s := p_list p_server in let* d := p_list p_str in let* c := p_opt p_str in
  pret {| t_dns_servers := s; t_dns_search := d; t_captive := c |}.
Definition p_prefix : P prefix :=
  let* a := p_take 16 in let* len := p_n in let* l := p_bool in let* au := p_bool in
  let* v := p_dur in let* pr := p_dur in
  pret {| p_addr := a; p_len := len; p_onlink := l; p_auto := au; p_valid := v; p_preferred := pr |}.
Definition p_pref64 : P pref64 :=
  let* lt := p_dur in let* a := p_take 16 in let* len := p_n in
  pret {| n_lifetime := lt; n_prefix := a; n_len := len |}.
Definition p_intf : P intf :=
  let* hop := p_n in let* m := p_bool in let* o := p_bool in
  let* lt := p_cv p_dur in let* reach := p_dur in let* retr := p_dur in
  let* ps := p_list p_prefix in
  let* rl := p_cv p_dur in let* rs := p_cv (p_list (p_take 16)) in
  let* dl := p_cv p_dur in let* ds := p_cv (p_list p_str) in
  let* cp := p_cv p_str in
  let* n64 := p_opt p_pref64 in
  pret {| i_hoplimit := hop; i_managed := m; i_other := o; i_lifetime := lt; i_reachable := reach;
          i_retrans := retr; i_prefixes := ps; i_rdnss_lifetime := rl; i_rdnss := rs;
          i_dnssl_lifetime := dl; i_dnssl := ds; i_captive := cp; i_pref64 := n64 |}.
Definition p_env : P env :=
  let* ll := p_opt (p_take 6) in let* mtu := p_opt p_n in let* s6 := p_take 16 in let* lt := p_dur in
  pret {| e_ll := ll; e_mtu := mtu; e_self6 := s6; e_lifetime := lt |}.

(* ---- equality on decoded advertisements -------------------------------- *)
Definition lb_eqb := list_eqb bytes_eqb.
Definition rfc_prefix_eqb (a b : rfc_prefix) : bool :=
  (rp_len a =? rp_len b) && Bool.eqb (rp_onlink a) (rp_onlink b) && Bool.eqb (rp_auto a) (rp_auto b)
  && (rp_valid a =? rp_valid b) && (rp_preferred a =? rp_preferred b) && bytes_eqb (rp_prefix a) (rp_prefix b).
Definition rfc_ra_eqb (a b : rfc_ra) : bool :=
  (r_hop a =? r_hop b) && Bool.eqb (r_managed a) (r_managed b) && Bool.eqb (r_other a) (r_other b)
  && (r_lifetime a =? r_lifetime b) && (r_reachable a =? r_reachable b) && (r_retrans a =? r_retrans b)
  && lb_eqb (r_sll a) (r_sll b) && list_eqb N.eqb (r_mtu a) (r_mtu b)
  && list_eqb rfc_prefix_eqb (r_prefixes a) (r_prefixes b)
  && list_eqb (fun x y => (fst x =? fst y) && lb_eqb (snd x) (snd y)) (r_rdnss a) (r_rdnss b)
  && list_eqb (fun x y => (fst x =? fst y) && list_eqb lb_eqb (snd x) (snd y)) (r_dnssl a) (r_dnssl b)
  && list_eqb (fun x y => (fst (fst x) =? fst (fst y)) && (snd (fst x) =? snd (fst y)) && bytes_eqb (snd x) (snd y))
              (r_pref64 a) (r_pref64 b)
  && lb_eqb (r_captive a) (r_captive b).

(* ---- known-finding classes: none left (class 1, search domains that are not
   RFC 1035 names, was repaired: F46) *)
Definition has_bad_domain (t : top) (i : intf) : bool :=
  negb (forallb domain_ok (match cv_unwrap_or (i_dnssl i) (t_dns_search t) with Some v => v | None => [] end)).

(* the loader refuses what cannot be advertised (kind 2) *)
(* MAX_CAPTIVE_PORTAL_OCTETS: 255 * 8 - 2 octets of URL is all the Captive-Portal option can carry *)
Definition url_fits (u : list N) : bool := lenN u <=? 2038.
Definition loader_rejects_top (t : top) : bool :=
  match t_captive t with Some u => negb (url_fits u) | None => false end.
Definition loader_rejects (i : intf) : bool :=
  existsb (fun p => 128 <? p_len p) (i_prefixes i)
  || match i_pref64 i with Some p => negb (nat64_len_ok (n_len p)) | None => false end
  || match i_captive i with Value u => negb (url_fits u) | _ => false end.

(* tags: which options the advertisement carries, as a bit set
   1 prefixes, 2 rdnss, 4 dnssl, 8 pref64, 16 captive, 32 some value was clamped, 64 loaded from YAML,
   128 a search domain that is not a domain name was left out;
   200 the loader rejected the configuration *)
Definition over (max v : N) : bool := max <? v.
Definition clamped (t : top) (i : intf) (e : env) : bool :=
  over 65535 (d_secs (tri_or (i_lifetime i) (e_lifetime e)))
  || over 4294967295 (as_millis (i_reachable i)) || over 4294967295 (as_millis (i_retrans i))
  || existsb (fun p => over 4294967295 (d_secs (p_valid p)) || over 4294967295 (d_secs (p_preferred p))) (i_prefixes i)
  || over 4294967295 (d_secs (tri_or (i_rdnss_lifetime i) (secs 1800)))
  || over 4294967295 (d_secs (tri_or (i_dnssl_lifetime i) (secs 1800)))
  || match i_pref64 i with Some p => over 65528 (d_secs (n_lifetime p)) | None => false end.
Definition tag_of (kind : N) (t : top) (i : intf) (e : env) (x : rfc_ra) : N :=
  (if is_nil (r_prefixes x) then 0 else 1) + (if is_nil (r_rdnss x) then 0 else 2)
  + (if is_nil (r_dnssl x) then 0 else 4) + (if is_nil (r_pref64 x) then 0 else 8)
  + (if is_nil (r_captive x) then 0 else 16) + (if clamped t i e then 32 else 0)
  + (if kind =? 2 then 64 else 0) + (if has_bad_domain t i then 128 else 0).

Definition model_out (a : radv) : list N :=
  match serialise a with Ok b => 0 :: put_bytes b | _ => [2] end.

Definition check_cfg (kind : N) (t : top) (i : intf) (e : env) (impl : list N) : list N :=
  let model := model_out (build t i e) in
  let viol (p : N) := v_viol p in
  match impl with
  | 0 :: r =>
    match tok_bytes r with
    | Some (b, []) =>
      if (kind =? 2) && (loader_rejects i || loader_rejects_top t) then viol 6          (* advertised what should have been refused *)
      else if negb (lengths_ok b) then viol 2
      else if negb (reserved_zero b) then viol 3
      else
        match rfc_decode b with
        | None => viol 1
        | Some x =>
          if negb (rfc_ra_eqb x (expected t i e)) then (if clamped t i e then viol 4 else viol 1)
          else if negb (list_eqb N.eqb impl model) then v_diff model
          else v_ok (tag_of kind t i e x)
        end
    | _ => v_bad
    end
  | [2] => if wf_cfg t i e then viol 5 else if list_eqb N.eqb impl model then v_ok 201 else v_diff model
  | [3] => if (kind =? 2) && (loader_rejects i || loader_rejects_top t) then v_ok 200 else v_diff model
  | _ => v_bad
  end.

(* ---- kind 3 (end-to-end rig, tools/rig.py scenario `ra`) ------------------------------
   [3; top; intf; env; got; src*16; dst*16; hop limit; interface link-local*16; solicitor*16; string]
   a router advertisement captured on a veth pair in answer to a router solicitation sent to the
   REAL erbium binary.  top/intf are the configuration the binary was started with, env is what
   the machine looks like (MAC and MTU of the interface, the address $self6 stands for, the router
   lifetime that follows from the routing table); the string is the ICMPv6 message as it was on
   the wire (checksum filled in by the kernel).  This reaches RaAdvService::build_announcement,
   handle_solicit and send_announcement, which no function-level case does. *)
Fixpoint sum16 (b : list N) : N :=
  match b with
  | h :: l :: r => h * 256 + l + sum16 r
  | [h] => h * 256
  | [] => 0
  end.
Definition fold16 (s : N) : N := let s1 := s mod 65536 + s / 65536 in s1 mod 65536 + s1 / 65536.
(* RFC 4443 2.3: ones' complement sum over the IPv6 pseudo-header and the message *)
Definition icmp6_cksum_ok (src dst b : list N) : bool :=
  fold16 (sum16 (src ++ dst ++ be32 (lenN b) ++ [0; 0; 0; 58] ++ b)) =? 65535.
Definition is_linklocal (a : list N) : bool :=
  match a with 254 :: 128 :: r => all_zero (takeN 6 r) && (lenN r =? 14) | _ => false end.
Definition all_nodes : list N := [255; 2; 0; 0; 0; 0; 0; 0; 0; 0; 0; 0; 0; 0; 0; 1].
Definition zero_cksum (b : list N) : list N :=
  match b with t :: c :: _ :: _ :: r => t :: c :: 0 :: 0 :: r | _ => b end.

Definition check_wire (t : top) (i : intf) (e : env) (r : list N) : list N :=
  match r with
  | [0] => v_diff [0]                                   (* a solicitation was not answered *)
  | 1 :: w =>
    match (let* src := p_take 16 in let* dst := p_take 16 in let* hl := p_n in
           let* ifll := p_take 16 in let* sol := p_take 16 in let* b := p_str in
           pret (src, dst, hl, ifll, sol, b)) w with
    | Some ((src, dst, hl, ifll, sol, b), []) =>
      if negb (lengths_ok b) then v_viol 2
      else if negb (reserved_zero b) then v_viol 3
      else
        match rfc_decode b with
        | None => v_viol 7
        | Some x =>
          if negb (rfc_ra_eqb x (expected t i e)) then v_viol 7
          (* RFC 4861 6.1.2: hop limit 255, link-local source, valid checksum -- or hosts discard it *)
          else if negb ((hl =? 255) && bytes_eqb src ifll && is_linklocal src && icmp6_cksum_ok src dst b) then v_viol 8
          else if negb (list_eqb N.eqb (0 :: put_bytes (zero_cksum b)) (model_out (build t i e)))
               then v_diff (model_out (build t i e))
          else if bytes_eqb dst sol then v_ok 300
          else if bytes_eqb dst all_nodes then v_ok 301
          else v_diff (1 :: sol)
        end
    | _ => v_bad
    end
  | _ => v_bad
  end.

Definition check_C17 (ts : list N) : list N :=
  match ts with
  | 3 :: r =>
    match (let* t := p_top in let* i := p_intf in let* e := p_env in pret (t, i, e)) r with
    | Some ((t, i, e), w) => check_wire t i e w
    | None => v_bad
    end
  | kind :: r =>
    if negb ((kind =? 1) || (kind =? 2)) then v_bad else
    match (let* t := p_top in let* i := p_intf in let* e := p_env in pret (t, i, e)) r with
    | Some ((t, i, e), impl) => check_cfg kind t i e impl
    | None => v_bad
    end
  | [] => v_bad
  end.

(* Token-level entry point for the DHCP option-value part of C05 (case kinds 100..199).
   kind 100: [100; code; bytes(v); impl]   DhcpOption::new(code).get_type().and_then(|t| t.decode(v))
        impl = 0 :: value (see put_val) | [1; 1] (decode None) | [1; 2] (no type) | [2] (panic)
   kind 101: [101; which; bytes(v); impl]  DhcpParse impls not reached by decode:
        which 0 = u64 (impl [0; hi32; lo32]), 1 = MessageType ([0; b] | [1; 1]), 2 = Duration (as u64)
   kind 102: [102; bytes(pkt); impl]       dhcppkt::parse, then log_options, then to_array(chaddr)
        impl = [1; e] | [0; n; f; 0] | [0; n; f; 1; b0..b5] | [2; stage]  (stage 1 parse, 2 log_options, 3 to_array)
        n = options logged, f = of which get_type/decode gave None
   kind 103: [103; bytes(mac); impl]       to_array: [0; 0] | [0; 1; b0..b5] | [2]
   kind 104: [104; addr; plen; impl]       Ipv4Subnet::new: [0; addr; plen; netmask] | [1; 1] | [2]
   Definitions only. *)
From Erbium Require Import Lib.Base Model.DhcpCodec Model.DhcpOptVal.

Definition dtoks_eqb := list_eqb N.eqb.

(* `d.join(".")` *)
Fixpoint join_dot (labels : list (list N)) : list N :=
  match labels with
  | [] => []
  | [l] => l
  | l :: r => l ++ 46 :: join_dot r
  end.

Definition put_val (v : oval) : list N :=
  match v with
  | VString raw => 1 :: put_bytes raw
  | VIp a => [2; a]
  | VIpList l => 3 :: put_bytes l
  | VI32 x => [4; x]
  | VU8 x => [5; x]
  | VU16 x => [6; x]
  | VU32 x => [7; x]
  | VHwAddr b => 8 :: put_bytes b
  | VRoutes l => 9 :: lenN l :: flat_map (fun r => [fst (fst r); snd (fst r); snd r]) l
  | VDomainList l => 10 :: lenN l :: flat_map (fun d => put_bytes (join_dot d)) l
  | VUnknown b => 11 :: put_bytes b
  end.
Definition put_oval (o : outcome oval) : list N :=
  match o with Ok v => 0 :: put_val v | Err e => [1; e] | Panic _ => [2] end.
Definition val_tag (o : outcome oval) : N :=
  match o with
  | Ok v => 100 + match put_val v with t :: _ => t | [] => 0 end
  | Err e => 119 + e
  | Panic _ => 199
  end.

(* String and DomainList values go through String::from_utf8_lossy, which is the
   identity on ASCII; with other octets only the shape is compared *)
Definition ascii (l : list N) : bool := forallb (fun b => b <? 128) l.
Definition val_ascii (v : oval) : bool :=
  match v with
  | VString raw => ascii raw
  | VDomainList l => forallb (forallb ascii) l
  | _ => true
  end.
Definition val_head (v : oval) : list N :=
  match v with
  | VString _ => [0; 1]
  | VDomainList l => [0; 10; lenN l]
  | _ => []
  end.
Definition val_agrees (impl : list N) (m : outcome oval) : bool :=
  match m with
  | Ok v => if val_ascii v then dtoks_eqb impl (put_oval m)
            else dtoks_eqb (takeN (lenN (val_head v)) impl) (val_head v)
  | _ => dtoks_eqb impl (put_oval m)
  end.

Definition put_array (a : option (list N)) : list N :=
  match a with None => [0] | Some b => 1 :: b end.

Definition put_recv (o : outcome (N * N * option (list N))) : list N :=
  match o with
  | Ok (n, f, a) => [0; n; f] ++ put_array a
  | Err e => [1; e]
  | Panic _ => [2; 0]
  end.

Definition check_C05_dhcpopt (ts : list N) : list N :=
  match ts with
  | 100 :: code :: r =>
    match tok_bytes r with
    | Some (v, impl) =>
      match impl with
      | 2 :: _ => v_viol 100
      | _ => let m := dhcp_option_decode code v in
             if val_agrees impl m then v_ok (val_tag m) else v_diff (put_oval m)
      end
    | None => v_bad
    end
  | 101 :: which :: r =>
    match tok_bytes r with
    | Some (v, impl) =>
      match impl with
      | 2 :: _ => v_viol 101
      | _ =>
        let m := if which =? 1 then
                   match parse_u8 v with Ok b => [0; b] | Err e => [1; e] | Panic _ => [2] end
                 else match parse_u64 v with
                      | Ok x => [0; x / 4294967296; x mod 4294967296] | Err e => [1; e] | Panic _ => [2] end in
        if dtoks_eqb impl m then v_ok (130 + which) else v_diff m
      end
    | None => v_bad
    end
  | 102 :: r =>
    match tok_bytes r with
    | Some (pkt, impl) =>
      match impl with
      | [2; 1] => v_viol 102
      | [2; 2] => v_viol 105
      | 2 :: _ => v_viol 103
      | _ => let m := dhcp_recv_path pkt in
             if dtoks_eqb impl (put_recv m)
             then v_ok (match m with Ok (_, _, Some _) => 141 | Ok (_, _, None) => 142 | _ => 140 end)
             else v_diff (put_recv m)
      end
    | None => v_bad
    end
  | 103 :: r =>
    match tok_bytes r with
    | Some (mac, impl) =>
      match impl with
      | 2 :: _ => v_viol 103
      | _ => let m := match to_array mac with Ok a => 0 :: put_array a | Err e => [1; e] | Panic _ => [2] end in
             if dtoks_eqb impl m then v_ok (if 6 <=? lenN mac then 150 else 151) else v_diff m
      end
    | None => v_bad
    end
  | 104 :: addr :: plen :: impl =>
    match impl with
    | 2 :: _ => v_viol 104
    | _ => let m := match subnet_new addr plen with
                    | Ok (a, p) => [0; a; p; match netmask p with Ok x => x | _ => 0 end]
                    | Err e => [1; e] | Panic _ => [2] end in
           if dtoks_eqb impl m then v_ok (match m with 0 :: _ => 160 | _ => 161 end) else v_diff m
    end
  | _ => v_bad
  end.

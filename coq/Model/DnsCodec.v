(* DNS messages: the abstract packet (dnspkt.rs DNSPkt), the encoder
   serialise_with_size (dnspkt.rs:923-1113, after the F10 repair of the count
   rewrite) and the decoder PktParser::get_dns (parse.rs:168-389).
   Definitions only. *)
From Erbium Require Import Lib.Base Model.DnsName.

Definition opts := list (N * list N).           (* EDNS options: code, data *)

Inductive rdata :=
| RCName (d : name)
| RMx (pref : N) (d : name)
| RNs (d : name)
| RPtr (d : name)
| RSoa (mname rname : name) (serial refresh retry expire minimum : N)
| ROpt (o : opts)
| RAfsDb (subtype : N) (d : name)
| RRp (mbox txt : name)
| RRt (pref : N) (d : name)
| RNaPtr (order pref : N) (flags services regexp : list N) (repl : name)
| ROther (data : list N).

Record rr := { r_name : name; r_class : N; r_type : N; r_ttl : N; r_data : rdata }.

Record pkt := {
  qid : N; rd : bool; tc : bool; aa : bool; qr : bool; opcode : N;
  cd : bool; ad : bool; ra : bool; rcode : N; bufsize : N;
  edns_ver : option N; edns_do : bool;
  qname : name; qtype : N; qclass : N;
  answer : list rr; nameserver : list rr; additional : list rr;
  edns : option opts }.

Definition T_NS : N := 2.    Definition T_CNAME : N := 5.  Definition T_SOA : N := 6.
Definition T_PTR : N := 12.  Definition T_MX : N := 15.    Definition T_RP : N := 17.
Definition T_AFSDB : N := 18. Definition T_RT : N := 21.   Definition T_NAPTR : N := 35.
Definition T_OPT : N := 41.

(* ---- encoder ------------------------------------------------------------ *)
Definition push_str (s : list N) : outcome (list N) :=
  if lenN s <? 256 then Ok (lenN s :: s) else Panic Assert.

Definition enc_opts (o : opts) : list N :=
  flat_map (fun c => be16 (fst c) ++ be16 (lenN (snd c)) ++ snd c) o.

(* the rdata part of push_rr: [base] = absolute offset of the first rdata
   octet (after the two rdlength octets).  Returns the rdata octets (without
   rdlength) and the dictionary. *)
Definition push_rdata (base : N) (kids : list tree) (ty : N) (d : rdata) : outcome (list N * list tree) :=
  match d with
  | RCName n | RPtr n | RNs n => push_name base kids n
  | RMx p n | RRt p n | RAfsDb p n =>
    do (b, k) <- push_name (base + 2) kids n; Ok (be16 p ++ b, k)
  | RNaPtr o p f s r n =>
    do fb <- push_str f; do sb <- push_str s; do rb <- push_str r;
    let pre := be16 o ++ be16 p ++ fb ++ sb ++ rb in
    do (b, k) <- push_name (base + lenN pre) kids n; Ok (pre ++ b, k)
  | RRp m t =>
    do (b1, k1) <- push_name base kids m;
    do (b2, k2) <- push_name (base + lenN b1) k1 t;
    Ok (b1 ++ b2, k2)
  | RSoa m r s rf rt e mi =>
    if negb (ty =? T_SOA) then Panic Assert else
    do (b1, k1) <- push_name base kids m;
    do (b2, k2) <- push_name (base + lenN b1) k1 r;
    Ok (b1 ++ b2 ++ be32 s ++ be32 rf ++ be32 rt ++ be32 e ++ be32 mi, k2)
  | ROpt o => if negb (ty =? T_OPT) then Panic Assert else Ok (enc_opts o, kids)
  | ROther x =>
    if (ty =? T_OPT) || (ty =? T_SOA) then Panic Assert
    else if 65535 <? lenN x then Panic UnwrapNone
    else Ok (x, kids)
  end.

Definition push_rr (pos : N) (kids : list tree) (r : rr) : outcome (list N * list tree) :=
  do (nb, k1) <- push_name pos kids (r_name r);
  let fixed := be16 (r_type r) ++ be16 (r_class r) ++ be32 (r_ttl r) in
  do (db, k2) <- push_rdata (pos + lenN nb + 10) k1 (r_type r) (r_data r);
  Ok (nb ++ fixed ++ be16 (lenN db) ++ db, k2).

(* one section: records are written until one would end beyond [size]; that
   record is dropped and the section (and the message) ends *)
Fixpoint push_rrs (size pos : N) (kids : list tree) (rs : list rr)
  : outcome (list N * list tree * N * bool) :=
  match rs with
  | [] => Ok ([], kids, 0, false)
  | r :: rest =>
    do (b, k) <- push_rr pos kids r;
    if size <? pos + lenN b then Ok ([], k, 0, true)
    else
      match push_rrs size (pos + lenN b) k rest with
      | Ok (bs, k2, c, t) => Ok (b ++ bs, k2, c + 1, t)
      | Err e => Err e
      | Panic p => Panic p
      end
  end.

Definition bit (b : bool) (v : N) : N := if b then v else 0.

Definition opt_rr (m : pkt) : list rr :=
  match edns m with
  | None => []
  | Some o =>
    [ {| r_name := []; r_class := bufsize m; r_type := T_OPT;
         r_ttl := N.lor (N.lor (N.shiftl (N.shiftr (rcode m) 4) 24)
                               (N.shiftl (match edns_ver m with Some v => v | None => 0 end) 16))
                        (bit (edns_do m) 32768);
         r_data := ROpt o |} ]
  end.

Definition flag1 (m : pkt) (trunc : bool) : N :=
  N.lor (N.lor (N.lor (N.lor (bit (rd m) 1) (bit (tc m || trunc) 2)) (bit (aa m) 4)) (bit (qr m) 128))
        ((opcode m * 8) mod 256).
Definition flag2 (m : pkt) : N :=
  N.lor (N.lor (N.lor (bit (cd m) 32) (bit (ad m) 64)) (bit (ra m) 128)) (rcode m mod 16).

(* the octets, and whether a record was dropped *)
Definition encode_sized_t (m : pkt) (size : N) : outcome (list N * bool) :=
  if size <? 512 then Panic Assert else
  if 4095 <? rcode m then Panic Assert else
  let adds := additional m ++ opt_rr m in
  do (qb, k0) <- push_name 12 [] (qname m);
  let qbytes := qb ++ be16 (qtype m) ++ be16 (qclass m) in
  let p0 := 12 + lenN qbytes in
  match push_rrs size p0 k0 (answer m) with
  | Ok (ab, k1, ac, t1) =>
    match (if t1 then Ok ([], k1, 0, true) else push_rrs size (p0 + lenN ab) k1 (nameserver m)) with
    | Ok (nb, k2, nc, t2) =>
      match (if t2 then Ok ([], k2, 0, true) else push_rrs size (p0 + lenN ab + lenN nb) k2 adds) with
      | Ok (db, _, dc, t3) =>
        Ok (be16 (qid m) ++ [flag1 m t3; flag2 m] ++ be16 1 ++ be16 ac ++ be16 nc ++ be16 dc
            ++ qbytes ++ ab ++ nb ++ db, t3)
      | Err e => Err e | Panic p => Panic p
      end
    | Err e => Err e | Panic p => Panic p
    end
  | Err e => Err e | Panic p => Panic p
  end.

Definition encode_sized (m : pkt) (size : N) : outcome (list N) :=
  match encode_sized_t m size with Ok (b, _) => Ok b | Err e => Err e | Panic p => Panic p end.

Definition encode (m : pkt) : outcome (list N) := encode_sized m 65536.      (* serialise() *)

(* ---- decoder (parse.rs) -------------------------------------------------- *)
(* cursor = (rest, off): the buffer from [off] on *)
Definition cur := (list N * N)%type.

Definition get_u8 (c : cur) : outcome (N * cur) :=
  match fst c with [] => Err E_TRUNC | x :: r => Ok (x, (r, snd c + 1)) end.
Definition get_u16 (c : cur) : outcome (N * cur) :=
  match fst c with a :: b :: r => Ok (a * 256 + b, (r, snd c + 2)) | _ => Err E_TRUNC end.
Definition get_u32 (c : cur) : outcome (N * cur) :=
  match fst c with
  | a :: b :: x :: d :: r => Ok (a * 16777216 + b * 65536 + x * 256 + d, (r, snd c + 4))
  | _ => Err E_TRUNC
  end.
Definition get_bytes (n : N) (c : cur) : outcome (list N * cur) :=
  match take_exact (N.to_nat n) (fst c) with
  | Some (a, r) => Ok (a, (r, snd c + n))
  | None => Err E_TRUNC
  end.
Definition get_string (c : cur) : outcome (list N * cur) :=
  do (n, c1) <- get_u8 c; get_bytes n c1.
Definition get_name (buf : list N) (c : cur) : outcome (name * cur) :=
  do (n, nxt) <- get_domain_into NAME_FUEL buf (fst c) (snd c) 1 0;
  Ok (n, (dropN (nxt - snd c) (fst c), nxt)).

(* EdnsParser::get_options on the rdata octets *)
Fixpoint get_options (fuel : nat) (b : list N) : outcome opts :=
  match fuel with
  | O => Err E_FUEL
  | S f =>
    match b with
    | [] => Ok []
    | c1 :: c2 :: l1 :: l2 :: r =>
      match take_exact (N.to_nat (l1 * 256 + l2)) r with
      | Some (d, r') => do os <- get_options f r'; Ok ((c1 * 256 + c2, d) :: os)
      | None => Err E_TRUNC
      end
    | _ => Err E_TRUNC
    end
  end.

Definition get_rdata (buf : list N) (ty : N) (c : cur) : outcome (rdata * cur) :=
  do (rdlen, c) <- get_u16 c;
  if ty =? T_CNAME then do (n, c) <- get_name buf c; Ok (RCName n, c)
  else if ty =? T_NS then do (n, c) <- get_name buf c; Ok (RNs n, c)
  else if ty =? T_PTR then do (n, c) <- get_name buf c; Ok (RPtr n, c)
  else if ty =? T_AFSDB then do (p, c) <- get_u16 c; do (n, c) <- get_name buf c; Ok (RAfsDb p n, c)
  else if ty =? T_RP then do (m, c) <- get_name buf c; do (t, c) <- get_name buf c; Ok (RRp m t, c)
  else if ty =? T_RT then do (p, c) <- get_u16 c; do (n, c) <- get_name buf c; Ok (RRt p n, c)
  else if ty =? T_MX then do (p, c) <- get_u16 c; do (n, c) <- get_name buf c; Ok (RMx p n, c)
  else if ty =? T_NAPTR then
    do (o, c) <- get_u16 c; do (p, c) <- get_u16 c;
    do (f, c) <- get_string c; do (s, c) <- get_string c; do (r, c) <- get_string c;
    do (n, c) <- get_name buf c; Ok (RNaPtr o p f s r n, c)
  else if ty =? T_OPT then
    do (b, c) <- get_bytes rdlen c; do os <- get_options (S (length b)) b; Ok (ROpt os, c)
  else if ty =? T_SOA then
    do (m, c) <- get_name buf c; do (r, c) <- get_name buf c;
    do (s, c) <- get_u32 c; do (rf, c) <- get_u32 c; do (rt, c) <- get_u32 c;
    do (e, c) <- get_u32 c; do (mi, c) <- get_u32 c; Ok (RSoa m r s rf rt e mi, c)
  else do (b, c) <- get_bytes rdlen c; Ok (ROther b, c).

Definition get_rr (buf : list N) (c : cur) : outcome (rr * cur) :=
  do (n, c) <- get_name buf c;
  do (ty, c) <- get_u16 c;
  do (cl, c) <- get_u16 c;
  do (ttl, c) <- get_u32 c;
  do (d, c) <- get_rdata buf ty c;
  Ok ({| r_name := n; r_class := cl; r_type := ty; r_ttl := ttl; r_data := d |}, c).

(* `for _ in 0..count { if offset >= len && trunc { break }; push(get_rr()?) }` *)
Fixpoint get_rrs (buf : list N) (trunc : bool) (cnt : nat) (c : cur) : outcome (list rr * cur) :=
  match cnt with
  | O => Ok ([], c)
  | S k =>
    match fst c with
    | [] => if trunc then Ok ([], c) else Err E_TRUNC
    | _ :: _ =>
      do (r, c1) <- get_rr buf c;
      do (rs, c2) <- get_rrs buf trunc k c1;
      Ok (r :: rs, c2)
    end
  end.

Definition is_opt0 (r : rr) : bool := (r_type r =? T_OPT) && ((r_ttl r / 65536) mod 256 =? 0).

Definition decode (b : list N) : outcome pkt :=
  let c : cur := (b, 0) in
  do (id, c) <- get_u16 c;
  do (f1, c) <- get_u8 c;
  do (f2, c) <- get_u8 c;
  do (qc, c) <- get_u16 c;
  if negb (qc =? 1) then Err E_QCOUNT else
  do (anc, c) <- get_u16 c;
  do (nsc, c) <- get_u16 c;
  do (adc, c) <- get_u16 c;
  do (qn, c) <- get_name b c;
  do (qt, c) <- get_u16 c;
  do (qcl, c) <- get_u16 c;
  let trunc := N.testbit f1 1 in
  do (an, c) <- get_rrs b trunc (N.to_nat anc) c;
  do (ns, c) <- get_rrs b trunc (N.to_nat nsc) c;
  do (ad_, c) <- get_rrs b trunc (N.to_nat adc) c;
  let o := find is_opt0 ad_ in
  let ercode := match o with Some r => r_ttl r / 16777216 | None => 0 end in
  Ok {| qid := id;
        rd := N.testbit f1 0; tc := N.testbit f1 1; aa := N.testbit f1 2; qr := N.testbit f1 7;
        opcode := (f1 / 8) mod 16;
        cd := N.testbit f2 5; ad := N.testbit f2 6; ra := N.testbit f2 7;
        rcode := N.lor (f2 mod 16) (ercode * 16);
        bufsize := N.max (match o with Some r => r_class r | None => 512 end) 512;
        edns_ver := match o with Some r => Some ((r_ttl r / 65536) mod 256) | None => None end;
        edns_do := match o with Some r => N.testbit (r_ttl r) 15 | None => false end;
        qname := qn; qtype := qt; qclass := qcl;
        answer := an; nameserver := ns;
        additional := filter (fun r => negb (r_type r =? T_OPT)) ad_;
        edns := match o with
                | Some r => match r_data r with ROpt os => Some os | _ => Some [] end
                | None => None
                end |}.

(* ---- equality on packets (boolean, for the entry points) ----------------- *)
Definition opts_eqb : opts -> opts -> bool :=
  list_eqb (fun a b => (fst a =? fst b) && bytes_eqb (snd a) (snd b)).

Definition rdata_eqb (a b : rdata) : bool :=
  match a, b with
  | RCName x, RCName y | RNs x, RNs y | RPtr x, RPtr y => name_eqb x y
  | RMx p x, RMx q y | RRt p x, RRt q y | RAfsDb p x, RAfsDb q y => (p =? q) && name_eqb x y
  | RRp x1 x2, RRp y1 y2 => name_eqb x1 y1 && name_eqb x2 y2
  | RSoa m r s rf rt e mi, RSoa m' r' s' rf' rt' e' mi' =>
    name_eqb m m' && name_eqb r r' && (s =? s') && (rf =? rf') && (rt =? rt') && (e =? e') && (mi =? mi')
  | ROpt x, ROpt y => opts_eqb x y
  | RNaPtr o p f s r n, RNaPtr o' p' f' s' r' n' =>
    (o =? o') && (p =? p') && bytes_eqb f f' && bytes_eqb s s' && bytes_eqb r r' && name_eqb n n'
  | ROther x, ROther y => bytes_eqb x y
  | _, _ => false
  end.

Definition rr_eqb (a b : rr) : bool :=
  name_eqb (r_name a) (r_name b) && (r_class a =? r_class b) && (r_type a =? r_type b)
  && (r_ttl a =? r_ttl b) && rdata_eqb (r_data a) (r_data b).
Definition rrs_eqb := list_eqb rr_eqb.

Definition pkt_eqb (a b : pkt) : bool :=
  (qid a =? qid b) && Bool.eqb (rd a) (rd b) && Bool.eqb (tc a) (tc b) && Bool.eqb (aa a) (aa b)
  && Bool.eqb (qr a) (qr b) && (opcode a =? opcode b) && Bool.eqb (cd a) (cd b) && Bool.eqb (ad a) (ad b)
  && Bool.eqb (ra a) (ra b) && (rcode a =? rcode b) && (bufsize a =? bufsize b)
  && opt_eqb N.eqb (edns_ver a) (edns_ver b) && Bool.eqb (edns_do a) (edns_do b)
  && name_eqb (qname a) (qname b) && (qtype a =? qtype b) && (qclass a =? qclass b)
  && rrs_eqb (answer a) (answer b) && rrs_eqb (nameserver a) (nameserver b)
  && rrs_eqb (additional a) (additional b) && opt_eqb opts_eqb (edns a) (edns b).

(* ---- well-formed packets: the domain of the encoder ----------------------- *)
Definition wf_str (s : list N) : bool := (lenN s <? 256) && bytes_ok s.
Definition wf_opts (o : opts) : bool :=
  forallb (fun c => (fst c <? 65536) && (lenN (snd c) <? 65536) && bytes_ok (snd c)) o
  && (lenN (enc_opts o) <? 65536).

Definition kind_type_ok (ty : N) (d : rdata) : bool :=
  match d with
  | RCName _ => ty =? T_CNAME | RMx _ _ => ty =? T_MX | RNs _ => ty =? T_NS | RPtr _ => ty =? T_PTR
  | RSoa _ _ _ _ _ _ _ => ty =? T_SOA | ROpt _ => ty =? T_OPT | RAfsDb _ _ => ty =? T_AFSDB
  | RRp _ _ => ty =? T_RP | RRt _ _ => ty =? T_RT | RNaPtr _ _ _ _ _ _ => ty =? T_NAPTR
  | ROther _ =>
    negb (existsb (N.eqb ty) [T_CNAME; T_MX; T_NS; T_PTR; T_SOA; T_OPT; T_AFSDB; T_RP; T_RT; T_NAPTR])
  end.

Definition w16 (v : N) : bool := v <? 65536.
Definition w32 (v : N) : bool := v <? 4294967296.

Definition wf_rdata (d : rdata) : bool :=
  match d with
  | RCName n | RNs n | RPtr n => wf_name n
  | RMx p n | RRt p n | RAfsDb p n => w16 p && wf_name n
  | RRp m t => wf_name m && wf_name t
  | RSoa m r s rf rt e mi => wf_name m && wf_name r && w32 s && w32 rf && w32 rt && w32 e && w32 mi
  | ROpt o => wf_opts o
  | RNaPtr o p f s r n => w16 o && w16 p && wf_str f && wf_str s && wf_str r && wf_name n
  | ROther x => (lenN x <? 65536) && bytes_ok x
  end.

Definition wf_rr (r : rr) : bool :=
  wf_name (r_name r) && w16 (r_class r) && w16 (r_type r) && w32 (r_ttl r)
  && kind_type_ok (r_type r) (r_data r) && wf_rdata (r_data r).

Definition wf_pkt (m : pkt) : bool :=
  w16 (qid m) && (opcode m <? 16) && (rcode m <? 4096) && w16 (bufsize m) && (512 <=? bufsize m)
  && wf_name (qname m) && w16 (qtype m) && w16 (qclass m)
  && forallb wf_rr (answer m) && forallb wf_rr (nameserver m) && forallb wf_rr (additional m)
  && negb (existsb (fun r => r_type r =? T_OPT) (additional m))
  && (lenN (answer m) <? 65536) && (lenN (nameserver m) <? 65536) && (lenN (additional m ++ opt_rr m) <? 65536)
  && match edns m with
     | Some o => wf_opts o && opt_eqb N.eqb (edns_ver m) (Some 0)
     | None => (rcode m <? 16) && (bufsize m =? 512) && negb (edns_do m)
               && match edns_ver m with None => true | Some _ => false end
     end.

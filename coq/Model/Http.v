(* Model of the lease listing renderer (http.rs `leases_to_json`, after the
   repair of F5: an explicit JSON string escaper instead of Rust's `{:?}`)
   and of the lease gauges (pool.rs `get_pool_metrics`, after the repair of F3
   and F4).  Definitions only. *)
From Coq Require Import String Ascii.
From Erbium Require Import Lib.Base.
Open Scope N_scope.

(* ASCII literals as code points *)
Definition str (s : string) : list N := map N_of_ascii (list_ascii_of_string s).

(* a row of the lease table as the listing sees it; [l_host] is what
   `parse_options(options).get_hostname()` returned: Rust `String` = a list of
   Unicode scalar values (the lossy UTF-8 decoding is not modelled) *)
Record lease := { l_ip : N; l_cid : list N; l_start : N; l_expire : N; l_host : option (list N) }.

(* ---- `{}` of an unsigned integer ---------------------------------------- *)
Fixpoint digits_rev (fuel : nat) (n : N) : list N :=        (* least significant first *)
  match fuel with
  | O => []
  | S f => if n <? 10 then [n] else (n mod 10) :: digits_rev f (n / 10)
  end.
Definition dec (n : N) : list N := map (fun d => 48 + d) (rev (digits_rev (S (N.to_nat (N.log2 n))) n)).

(* `{}` of an Ipv4Addr *)
Definition ip_text (ip : N) : list N :=
  dec ((ip / 16777216) mod 256) ++ [46] ++ dec ((ip / 65536) mod 256) ++ [46]
  ++ dec ((ip / 256) mod 256) ++ [46] ++ dec (ip mod 256).

(* `format!("{:0>2x}", b)` joined by ":" *)
Definition hexdigit (d : N) : N := if d <? 10 then 48 + d else 87 + d.
Definition hex2 (b : N) : list N := [hexdigit (b / 16); hexdigit (b mod 16)].
Fixpoint join (sep : list N) (l : list (list N)) : list N :=
  match l with
  | [] => []
  | [x] => x
  | x :: r => x ++ sep ++ join sep r
  end.
Definition cid_text (cid : list N) : list N := join [58] (map hex2 cid).

(* ---- the JSON string escaper (json_escape in http.rs) ------------------- *)
Definition esc_char (c : N) : list N :=
  if c =? 34 then [92; 34]
  else if c =? 92 then [92; 92]
  else if c =? 8 then [92; 98]
  else if c =? 12 then [92; 102]
  else if c =? 10 then [92; 110]
  else if c =? 13 then [92; 114]
  else if c =? 9 then [92; 116]
  else if c <? 32 then [92; 117; 48; 48; hexdigit (c / 16); hexdigit (c mod 16)]
  else [c].
Definition escape (s : list N) : list N := flat_map esc_char s.
Definition json_string (s : list N) : list N := [34] ++ escape s ++ [34].

(* ---- leases_to_json ------------------------------------------------------ *)
Definition render_row (l : lease) : list N :=
  str " { ""ip"": """ ++ ip_text (l_ip l) ++ str """, ""client_id"": """ ++ cid_text (l_cid l)
  ++ str """, ""start"": " ++ dec (l_start l) ++ str ", ""expire"": " ++ dec (l_expire l)
  ++ match l_host l with
     | Some h => str ", ""host-name"": " ++ json_string h
     | None => []
     end
  ++ str " }".

Definition NL : list N := [10].
Definition render (rows : list lease) : list N :=
  str "{ ""leases"" : [" ++ NL ++ join ([44] ++ NL) (map render_row rows) ++ NL ++ str "]}" ++ NL.

(* ---- serve_leases: `leases.sort(); leases_to_json(&leases)` ---------------
   LeaseInfo derives Ord with the address first, and the address is the store's primary key: the
   order is the order of the addresses (stated for rows with distinct addresses). *)
Fixpoint insert_by_ip (x : lease) (l : list lease) : list lease :=
  match l with
  | [] => [x]
  | y :: r => if l_ip x <=? l_ip y then x :: y :: r else y :: insert_by_ip x r
  end.
Definition sort_by_ip (l : list lease) : list lease := fold_right insert_by_ip [] l.
Definition serve_listing (rows : list lease) : list N := render (sort_by_ip rows).

(* ---- get_pool_metrics ----------------------------------------------------
   SELECT COALESCE(SUM(CASE WHEN expiry > now THEN 1 ELSE 0 END), 0),
          COALESCE(SUM(CASE WHEN expiry <= now THEN 1 ELSE 0 END), 0) FROM leases
   SQL's SUM over zero rows is NULL; that is explicit here. *)
Definition sql_sum (l : list N) : option N :=
  match l with [] => None | _ => Some (fold_right N.add 0 l) end.
Definition coalesce (o : option N) (d : N) : N := match o with Some v => v | None => d end.
Definition metrics (expiries : list N) (now : N) : outcome (N * N) :=
  Ok (coalesce (sql_sum (map (fun e => if now <? e then 1 else 0) expiries)) 0,
      coalesce (sql_sum (map (fun e => if e <=? now then 1 else 0) expiries)) 0).

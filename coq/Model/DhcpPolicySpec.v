(* Specification of DHCP policy selection and option override, written from
   erbium.conf(5) only ("DHCP Configuration", "DHCP Matches", "Applying DHCP
   Options", "Subpolicies").  It shares the data types of Model/DhcpPolicy.v
   (policy, request, table and its accessors) but none of the walk functions
   (check_policy, check_policies, apply_policy, apply_policies).
   Definitions only.

   erbium.conf(5):
   - "Each policy is considered in turn, with the first policy that
      successfully matches being the policy that is applied."
   - "All match conditions in a policy must match (the conditions are AND'd
      together).  A policy section that contains no matches only matches if
      one of it's subpolicies matches."
   - "If you specify null as the value to match on, then it will only match if
      the client does not provide that option."
   - "Each policy contains a list of option values to apply to a client
      (assuming the client requested the option).  For nested subpolicies,
      options are applied for the outer policies first, then the subpolicies
      can choose to override those values."
   - "You can also set an option to null to unset it (if, for example, the
      value was inherited in a sub policy, or to override erbium's internal
      defaults for a value)."
   - "A subpolicy is only attempted to be matched if all the enclosing
      policies matched."  "A policy that does not specify an new addresses
      will continue to use the addresses for it's parent pool."
   Silent in the manual and therefore taken from the code: the netmask and
   broadcast options default to those of the match-subnet of the applied
   policies, innermost first, when the client asked for them and nothing (not
   even null) was configured. *)
From Erbium Require Import Lib.Base Model.DhcpPolicy.

(* ---- conditions -------------------------------------------------------- *)
Inductive cond :=
| CAll                                   (* the built-in base policy: always *)
| CSubnet (s : subnet)                   (* match-subnet *)
| CChaddr (m : list N)                   (* match-hardware-address *)
| COption (k : N) (v : list N)           (* match-<option>: value *)
| CAbsent (k : N).                       (* match-<option>: null *)

Definition conds (p : policy) : list cond :=
  (if p_all p then [CAll] else [])
  ++ (match p_chaddr p with Some m => [CChaddr m] | None => [] end)
  ++ (match p_subnet p with Some s => [CSubnet s] | None => [] end)
  ++ map (fun e => match snd e with Some v => COption (fst e) v | None => CAbsent (fst e) end) (p_match p).

Definition holds (req : request) (c : cond) : bool :=
  match c with
  | CAll => true
  | CSubnet s => N.land (r_serverip req) (netmask (snd s)) =? fst s
  | CChaddr m => bytes_eqb (r_chaddr req) m
  | COption k v => match ropt k req with Some o => bytes_eqb v o | None => false end
  | CAbsent k => match ropt k req with Some _ => false | None => true end
  end.

(* "All match conditions must match; a policy that contains no matches only
   matches if one of its subpolicies matches" *)
Fixpoint matches (req : request) (p : policy) : bool :=
  match conds p with
  | [] => (fix any (ps : list policy) : bool :=
             match ps with [] => false | q :: r => matches req q || any r end) (p_kids p)
  | cs => forallb (holds req) cs
  end.

(* "Each policy is considered in turn, with the first policy that successfully
   matches being the policy that is applied"; sub-policies likewise, inside
   the applied policy.  The result is the chain outermost -> innermost. *)
Fixpoint selected_in (req : request) (p : policy) : list policy :=
  p :: (fix first (ps : list policy) : list policy :=
          match ps with
          | [] => []
          | q :: r => if matches req q then selected_in req q else first r
          end) (p_kids p).
Fixpoint selected (req : request) (ps : list policy) : option (list policy) :=
  match ps with
  | [] => None
  | q :: r => if matches req q then Some (selected_in req q) else selected req r
  end.

(* ---- applying a chain -------------------------------------------------- *)
(* options of one policy: only those the client asked for; a value replaces
   whatever was there, null marks the option as not to be sent *)
Definition apply_own (req : request) (p : policy) (t : table) : table :=
  fold_left (fun t e => if requested req (fst e) then tset (fst e) (snd e) t else t) (p_apply p) t.

(* addresses of the policy replace the parent's pool (which addresses these
   are is the subject of property C02, Model/DhcpAddrsSpec.v) *)
Definition own_addr (req : request) (p : policy) (a : option (N -> bool)) : option (N -> bool) :=
  match p_addr p with
  | Some f => Some f
  | None => a
  end.

Definition subnet_opts (req : request) (p : policy) (t : table) : table :=
  match p_subnet p with
  | Some s =>
    let t := if requested req 1 && negb (thas 1 t) then tset 1 (Some (be32 (netmask (snd s)))) t else t in
    if requested req 28 && negb (thas 28 t) then tset 28 (Some (be32 (subnet_broadcast s))) t else t
  | None => t
  end.

(* outer first, inner overrides; subnet-derived defaults innermost first *)
Fixpoint apply_chain (req : request) (ch : list policy) (resp : response) : response :=
  match ch with
  | [] => resp
  | p :: rest =>
    let r1 := {| rs_opts := apply_own req p (rs_opts resp); rs_addr := own_addr req p (rs_addr resp) |} in
    let r2 := apply_chain req rest r1 in
    {| rs_opts := subnet_opts req p (rs_opts r2); rs_addr := rs_addr r2 |}
  end.

(* the last entry a policy's option list has for option k, if any *)
Definition last_for (k : N) (ao : list (N * option (list N))) : option (option (list N)) :=
  match find (fun e => fst e =? k) (rev ao) with Some e => Some (snd e) | None => None end.

(* the value (three-state) the chain leaves for option k when the client asked
   for it and k is not one of the subnet-derived options: that of the innermost
   policy in the chain that mentions k, else what was there before *)
Fixpoint chain_value (k : N) (ch : list policy) (before : option (option (list N))) : option (option (list N)) :=
  match ch with
  | [] => before
  | p :: rest =>
    chain_value k rest (match last_for k (p_apply p) with Some v => Some v | None => before end)
  end.

Definition tkeys (t : table) : list N := map fst t.

(* Model of the DHCP policy walk of crates/erbium-core/src/dhcp/mod.rs:
   check_policy, check_policies, apply_policy, apply_policies, the three-state
   option table (ResponseOptions) and erbium_net::Ipv4Subnet -- as coded.
   Policies here are the *loaded* policies (dhcp::config::Policy): option
   values are octet strings (what DhcpOptionTypeValue::as_bytes yields), the
   address set of a policy is a membership predicate (never enumerated).
   Definitions only. *)
From Erbium Require Import Lib.Base.

(* ---- erbium_net::Ipv4Subnet ------------------------------------------- *)
Definition U32MAX : N := 4294967295.
(* (!(0xffff_ffff_u64 >> prefixlen)) as u32 *)
Definition netmask (len : N) : N := U32MAX - U32MAX / 2 ^ len.
Definition subnet := (N * N)%type.                         (* addr, prefixlen *)
Definition subnet_contains (s : subnet) (ip : N) : bool := N.land ip (netmask (snd s)) =? fst s.
Definition subnet_network (s : subnet) : N := N.land (fst s) (netmask (snd s)).
Definition subnet_broadcast (s : subnet) : N := N.lor (subnet_network s) (U32MAX - netmask (snd s)).
(* Ipv4Subnet::new: Err(InvalidSubnet) when host bits are set *)
Definition subnet_valid (s : subnet) : bool := N.land (fst s) (U32MAX - netmask (snd s)) =? 0.

(* ---- ResponseOptions: HashMap<DhcpOption, Option<Vec<u8>>> -------------
   absent / Some None (explicitly unset) / Some (Some v) *)
Definition table := list (N * option (list N)).
Definition tget (k : N) (t : table) : option (option (list N)) :=
  match find (fun e => fst e =? k) t with Some e => Some (snd e) | None => None end.
Definition thas (k : N) (t : table) : bool :=
  match tget k t with Some _ => true | None => false end.
Definition tset (k : N) (v : option (list N)) (t : table) : table :=      (* mutate_option / insert *)
  (k, v) :: filter (fun e => negb (fst e =? k)) t.
Definition tdefault (k : N) (v : list N) (t : table) : table :=           (* mutate_option_default *)
  if thas k t then t else tset k (Some v) t.
Definition to_options (t : table) : list (N * list N) :=                  (* to_options *)
  flat_map (fun e => match snd e with Some v => [(fst e, v)] | None => [] end) t.

(* ---- DHCPRequest ------------------------------------------------------ *)
Record request := {
  r_serverip : N;               (* address the request was received on *)
  r_mtu : option N;             (* if_mtu *)
  r_router : option N;          (* if_router *)
  r_chaddr : list N;
  r_opts : list (N * list N)    (* pkt.options.other: keys distinct *)
}.
Definition ropt (k : N) (req : request) : option (list N) :=
  match find (fun e => fst e =? k) (r_opts req) with Some e => Some (snd e) | None => None end.
Definition OPTION_NETMASK : N := 1.
Definition OPTION_BROADCAST : N := 28.
Definition OPTION_PARAMLIST : N := 55.
(* get_option::<Vec<u8>>(OPTION_PARAMLIST).unwrap_or_default() as a set of option codes *)
Definition paramlist (req : request) : list N :=
  match ropt OPTION_PARAMLIST req with Some l => l | None => [] end.
Definition requested (req : request) (k : N) : bool := existsb (N.eqb k) (paramlist req).

(* ---- dhcp::config::Policy --------------------------------------------- *)
Inductive policy :=
| Policy (all : bool)                                 (* match_all: only the built-in base policy *)
         (sn : option subnet)                         (* match_subnet *)
         (ch : option (list N))                       (* match_chaddr *)
         (mo : list (N * option (list N)))            (* match_other *)
         (ao : list (N * option (list N)))            (* apply_other *)
         (ad : option (N -> bool))                    (* apply_address, as membership *)
         (kids : list policy).                        (* policies *)

Definition p_all (p : policy) := match p with Policy a _ _ _ _ _ _ => a end.
Definition p_subnet (p : policy) := match p with Policy _ s _ _ _ _ _ => s end.
Definition p_chaddr (p : policy) := match p with Policy _ _ c _ _ _ _ => c end.
Definition p_match (p : policy) := match p with Policy _ _ _ m _ _ _ => m end.
Definition p_apply (p : policy) := match p with Policy _ _ _ _ a _ _ => a end.
Definition p_addr (p : policy) := match p with Policy _ _ _ _ _ a _ => a end.
Definition p_kids (p : policy) := match p with Policy _ _ _ _ _ _ k => k end.

(* ---- check_policy ----------------------------------------------------- *)
Inductive pmatch := NoMatch | MatchFailed | MatchSucceeded.

Definition other_ok (req : request) (k : N) (m : option (list N)) : bool :=
  match m, ropt k req with
  | None, None => true
  | None, Some _ => false
  | Some mat, Some opt => bytes_eqb mat opt
  | Some _, None => false
  end.

(* the loop over match_other: [None] is the early `return MatchFailed` *)
Fixpoint check_others (req : request) (ms : list (N * option (list N))) (o : pmatch) : option pmatch :=
  match ms with
  | [] => Some o
  | (k, m) :: r => if other_ok req k m then check_others req r MatchSucceeded else None
  end.

Definition check_policy (req : request) (p : policy) : pmatch :=
  let o := if p_all p then MatchSucceeded else NoMatch in
  match (match p_chaddr p with
         | Some m => if bytes_eqb (r_chaddr req) m then Some MatchSucceeded else None
         | None => Some o end) with
  | None => MatchFailed
  | Some o =>
    match (match p_subnet p with
           | Some s => if subnet_contains s (r_serverip req) then Some MatchSucceeded else None
           | None => Some o end) with
    | None => MatchFailed
    | Some o =>
      match check_others req (p_match p) o with
      | None => MatchFailed
      | Some o => o
      end
    end
  end.

(* check_policies *)
Fixpoint check_tree (req : request) (p : policy) : bool :=
  match check_policy req p with
  | MatchSucceeded => true
  | MatchFailed => false
  | NoMatch =>
    (fix any (ps : list policy) : bool :=
       match ps with [] => false | q :: r => if check_tree req q then true else any r end) (p_kids p)
  end.
Fixpoint check_policies (req : request) (ps : list policy) : bool :=
  match ps with [] => false | q :: r => if check_tree req q then true else check_policies req r end.

(* ---- Response --------------------------------------------------------- *)
Record response := { rs_opts : table; rs_addr : option (N -> bool) }.

(* "If there are addresses provided here, override any from the parent" -- the
   set is used as configured: the receiving address is NOT removed from it
   (finding F20, recorded as known: the repair conflicts with the test suite) *)
Definition set_addr (req : request) (p : policy) (resp : response) : response :=
  match p_addr p with
  | Some f => {| rs_opts := rs_opts resp; rs_addr := Some f |}
  | None => resp
  end.

Definition apply_other (req : request) (ao : list (N * option (list N))) (t : table) : table :=
  fold_left (fun t e => if requested req (fst e) then tset (fst e) (snd e) t else t) ao t.

Definition subnet_defaults (req : request) (p : policy) (t : table) : table :=
  match p_subnet p with
  | Some s =>
    let t := if requested req OPTION_NETMASK then tdefault OPTION_NETMASK (be32 (netmask (snd s))) t else t in
    if requested req OPTION_BROADCAST then tdefault OPTION_BROADCAST (be32 (subnet_broadcast s)) t else t
  | None => t
  end.

(* apply_policy; the inner fix is apply_policies *)
Fixpoint apply_policy (req : request) (p : policy) (resp : response) : bool * response :=
  let go :=
    match check_policy req p with
    | MatchFailed => false
    | NoMatch => check_policies req (p_kids p)
    | MatchSucceeded => true
    end in
  if negb go then (false, resp) else
  let resp := set_addr req p resp in
  let resp := {| rs_opts := apply_other req (p_apply p) (rs_opts resp); rs_addr := rs_addr resp |} in
  let resp :=
    snd ((fix apply_list (ps : list policy) (resp : response) : bool * response :=
            match ps with
            | [] => (false, resp)
            | q :: r => match apply_policy req q resp with
                        | (b, resp') => if b then (true, resp') else apply_list r resp'
                        end
            end) (p_kids p) resp) in
  (true, {| rs_opts := subnet_defaults req p (rs_opts resp); rs_addr := rs_addr resp |}).

Fixpoint apply_policies (req : request) (ps : list policy) (resp : response) : bool * response :=
  match ps with
  | [] => (false, resp)
  | q :: r => match apply_policy req q resp with
              | (b, resp') => if b then (true, resp') else apply_policies req r resp'
              end
  end.

(* Token-level entry point for property C02.
   Case lines (grammar of <config>, <request> in Model/ConfTokens.v):
     1 <config> <request> <set>            the address set the policy walk ends with
        <set> := 7                          loader rejected the configuration
               | 2                          panic
               | 0                          no pool (the walk ended without addresses)
               | 1 card n x1 .. xn          the whole set, ascending (card = n)
               | 3 card n (x in)*           large set: cardinality and membership at probe points
     2 <config> <request> n y1 .. yn e     pool drained through handle_pkt: the yiaddrs in the
                                            order granted, then the error that ended it
   Definitions only. *)
From Erbium Require Import Lib.Base Model.DhcpPolicy Model.DhcpPolicySpec Model.DhcpAddrs
  Model.DhcpAddrsSpec Model.ConfTokens.

(* ---- cardinality of a set given by a membership predicate ----------------
   every set involved is a boolean combination of intervals whose end points
   are among the cut points below, so membership is constant between two
   consecutive cut points *)
Definition item_cuts (i : aitem) : list N :=
  match i with
  | AAddr a => [a; a + 1]
  | ARange s e => [s; e + 1]
  | ASubnet n l => [n; n + 1; n + 2 ^ (32 - l) - 1; n + 2 ^ (32 - l)]
  end.
Fixpoint policy_cuts (c : cpolicy) : list N :=
  flat_map item_cuts (c_addrs c)
  ++ (fix go (cs : list cpolicy) : list N :=
        match cs with [] => [] | d :: r => policy_cuts d ++ go r end) (c_kids c).
Definition config_cuts (g : config) (req : request) : list N :=
  [r_serverip req; r_serverip req + 1]
  ++ flat_map (fun p => match p with P4 n l => item_cuts (ASubnet (N.land n (netmask l)) l) | P6 => [] end) (g_addresses g)
  ++ flat_map policy_cuts (g_policies g).

Fixpoint ins_n (x : N) (l : list N) : list N :=
  match l with
  | [] => [x]
  | y :: r => if x <? y then x :: l else if x =? y then l else y :: ins_n x r
  end.
Definition sort_n (l : list N) : list N := fold_right ins_n [] l.

Fixpoint card_segs (f : N -> bool) (l : list N) : N :=
  match l with
  | a :: r => (match r with b :: _ => if f a then b - a else 0 | [] => 0 end) + card_segs f r
  | [] => 0
  end.
Definition card_of (g : config) (req : request) (f : N -> bool) : N :=
  card_segs f (sort_n (config_cuts g req)).

Fixpoint ascending (l : list N) : bool :=
  match l with
  | a :: r => (match r with b :: _ => a <? b | [] => true end) && ascending r
  | [] => true
  end.

(* ---- which clause of the property an undocumented address breaks -------- *)
Definition classify (g : config) (req : request) (x : N) : N :=
  if x =? r_serverip req then 2
  else if match receiving_prefix (r_serverip req) (g_addresses g) with
          | Some (net, len) => (x =? net) || (x =? net + 2 ^ (32 - len) - 1)
          | None => false end then 3
  else if existsb (fun p => names_deep p x) (g_policies g) then 4
  else 1.

(* first listed address that is not documented *)
Fixpoint first_undocumented (g : config) (req : request) (xs : list N) : option N :=
  match xs with
  | [] => None
  | x :: r => if documented g req x then first_undocumented g req r else Some x
  end.

Fixpoint tok_probes (n : nat) (ts : list N) : option (list (N * N)) :=
  match n, ts with
  | O, [] => Some []
  | S k, x :: b :: r => match tok_probes k r with Some l => Some ((x, b) :: l) | None => None end
  | _, _ => None
  end.

Definition pool_tag (g : config) (req : request) : N :=
  match deciding req (g_policies g) with
  | None => 0
  | Some c => if existsb (fun d => negb (card_segs (names_deep d) (sort_n (policy_cuts d)) =? 0)) (c_kids c) then 2 else 1
  end.

(* [ins]: addresses the implementation has in the set (all of them, or the
   probed ones); [outs]: probed addresses it does not have.  The receiving
   address inside a configured pool is known finding F20 (class 1): it is
   taken out before the other clauses are evaluated, and reported as known
   only if nothing else is wrong. *)
Definition check_members (g : config) (req : request) (base : N) (card : N) (ins outs : list N) : list N :=
  let fa := allowed g req in
  let sip := r_serverip req in
  let f20 := existsb (N.eqb sip) ins && known_F20 g req in
  let ins' := if f20 then filter (fun x => negb (x =? sip)) ins else ins in
  let card' := if f20 then card - 1 else card in
  match first_undocumented g req ins' with
  | Some x => v_viol (classify g req x)
  | None =>
    if existsb (documented g req) outs then v_viol 5
    else if negb (card' =? card_of g req (documented g req)) then
      (if card' <? card_of g req (documented g req) then v_viol 5 else v_viol 1)
    else if negb (has_pool g req) then v_viol 1
    else if forallb fa ins && negb (existsb fa outs) && (card =? card_of g req fa)
    then (if f20 then v_known 1 else v_ok (base + pool_tag g req))
    else v_diff [card_of g req fa]
  end.

Definition check_set_on (g : config) (req : request) (impl : list N) : list N :=
      if negb (forallb loads (g_policies g)) then
        match impl with [7] => v_ok 0 | _ => v_diff [7] end
      else
      match impl with
      | [2] => v_viol 6
      | [7] => v_viol 7
      | [0] => if has_pool g req then v_viol 5
               else match allowed_set g req with None => v_ok 1 | Some _ => v_diff [1] end
      | 1 :: card :: n :: xs =>
        if negb ((lenN xs =? n) && (n =? card) && ascending xs) then v_bad
        else match allowed_set g req with
             | None => if has_pool g req then v_diff [0] else v_viol 1
             | Some _ => check_members g req 10 card xs []
             end
      | 3 :: card :: n :: r =>
        match tok_probes (N.to_nat n) r with
        | Some ps =>
          let ins := map fst (filter (fun p => negb (snd p =? 0)) ps) in
          let outs := map fst (filter (fun p => snd p =? 0) ps) in
          match allowed_set g req with
          | None => if has_pool g req then v_diff [0] else v_viol 1
          | Some _ => check_members g req 20 card ins outs
          end
        | None => v_bad
        end
      | _ => v_bad
      end.

(* drained pool: every yiaddr distinct and in the set, and the whole set was handed out *)
Definition check_drain_on (g : config) (req : request) (impl : list N) : list N :=
    match impl with
    | n :: r2 =>
      match tok_take n r2 with
      | Some (ys, [e]) =>
        let sorted := sort_n ys in
        if negb (lenN sorted =? n) then v_viol 8                 (* one address granted to two clients *)
        else if negb (e =? 3) then v_diff [3]
        else match allowed_set g req with
             | None => if has_pool g req then v_diff [0] else v_viol 1
             | Some _ => check_members g req 30 n ys []
             end
      | _ => v_bad
      end
    | _ => v_bad
    end.

(* ---- known finding, class 2: the same apply-* key more than once --------
   erbium.conf(5) says apply-address / apply-subnet "can be provided multiple
   times"; in a YAML mapping a repeated key keeps only its last value
   (yaml-rust), so all but the last item of each kind are silently dropped.
   When the implementation does not do what the manual says for such a
   configuration, it is compared with the configuration as YAML delivers it;
   if that agrees the case is reported as known finding 2, otherwise with the
   verdict against the manual. *)
Definition kind_of (i : aitem) : N :=
  match i with AAddr _ => 0 | ARange _ _ => 1 | ASubnet _ _ => 2 end.
Fixpoint last_of_kind (l : list aitem) : list aitem :=
  match l with
  | [] => []
  | i :: r => if existsb (fun j => kind_of j =? kind_of i) r then last_of_kind r else i :: last_of_kind r
  end.
Fixpoint yaml_view (c : cpolicy) : cpolicy :=
  match c with
  | CPolicy sn ch mo ao ad kids =>
    CPolicy sn ch mo ao (last_of_kind ad)
      ((fix go (cs : list cpolicy) : list cpolicy :=
          match cs with [] => [] | d :: r => yaml_view d :: go r end) kids)
  end.
Fixpoint has_dup (c : cpolicy) : bool :=
  match c with
  | CPolicy _ _ _ _ ad kids =>
    negb (lenN (last_of_kind ad) =? lenN ad)
    || (fix any (cs : list cpolicy) : bool :=
          match cs with [] => false | d :: r => has_dup d || any r end) kids
  end.

(* re-run a check on the configuration as YAML delivers it *)
Definition with_yaml_view (check : config -> request -> list N -> list N) (ts : list N) : list N :=
  match tok_config ts with
  | Some (g, r) =>
    match tok_request r with
    | Some (req, impl) =>
      match check g req impl with
      | [0; t] => [0; t]                 (* does what the manual says *)
      | v =>
        if existsb has_dup (g_policies g) then
          let g' := {| g_dns := g_dns g; g_search := g_search g; g_portal := g_portal g;
                       g_addresses := g_addresses g; g_policies := map yaml_view (g_policies g) |} in
          match check g' req impl with
          | [0; _] => v_known 2
          | [3; _] => v_known 2          (* the YAML view is itself in a known class (F20): still only known findings *)
          | _ => v
          end
        else v
      end
    | None => v_bad
    end
  | None => v_bad
  end.

Definition check_C02 (ts : list N) : list N :=
  match ts with
  | 1 :: r => with_yaml_view check_set_on r
  | 2 :: r => with_yaml_view check_drain_on r
  | _ => v_bad
  end.

(* Model of erbium's ACL decision (crates/erbium-core/src/acl.rs), of prefix
   containment (config.rs, Prefix4/Prefix6/Prefix `contains`), of the HTTP
   path -> permission gate (http.rs `serve_request`) and of the DNS gate
   (dns/acl.rs), plus -- separately, written from erbium.conf(5) and the
   property text, sharing no code with the model -- the specification
   [in_prefix] / [first_match].  Definitions only. *)
From Erbium Require Import Lib.Base.

(* ---- data -------------------------------------------------------------- *)
Inductive addr :=
| A4 (a : N)          (* IPv4 client, 32 bits *)
| A6 (a : N)          (* IPv6 client (incl. ::ffff:a.b.c.d), 128 bits *)
| AUnix.              (* client of the unix control socket *)

Inductive prefix :=
| P4 (a len : N)      (* written address (host bits allowed) / length *)
| P6 (a len : N).

Record perm := { p_dns : bool; p_http : bool; p_metrics : bool; p_leases : bool }.

Record rule := { r_subnet : option (list prefix); r_unix : option bool; r_perm : perm }.

Inductive op := OpDns | OpHttp | OpLeases | OpMetrics.

Inductive decision := Granted | NotAuthenticated | NotAuthorised.

Definition wf_addr (a : addr) : bool :=
  match a with A4 x => x <? 2 ^ 32 | A6 x => x <? 2 ^ 128 | AUnix => true end.
Definition wf_prefix (p : prefix) : bool :=
  match p with
  | P4 a l => (a <? 2 ^ 32) && (l <=? 32)
  | P6 a l => (a <? 2 ^ 128) && (l <=? 128)
  end.
Definition wf_rule (r : rule) : bool :=
  match r_subnet r with Some ps => forallb wf_prefix ps | None => true end.
Definition wf_rules (rs : list rule) : bool := forallb wf_rule rs.

(* ======================================================================
   MODEL of the code
   ====================================================================== *)

(* `!(0xff..ff.checked_shr(len).unwrap_or(0))` on a w-bit word *)
Definition netmask (w len : N) : N :=
  if len <? w then N.lxor (N.ones w) (N.shiftr (N.ones w) len) else N.ones w.

(* Prefix4::contains(Ipv4Addr) / Prefix6::contains(Ipv6Addr), after the
   repair of F7: both sides are masked (`== self.network()`) *)
Definition contains_w (w a len x : N) : bool :=
  N.land x (netmask w len) =? N.land a (netmask w len).

Definition MAPPED : N := N.shiftl 65535 32.          (* ::ffff:0:0 *)
Definition to_mapped (x : N) : N := N.lor MAPPED x.  (* Ipv4Addr::to_ipv6_mapped *)

(* `match ip.octets() { [0,0,0,0,0,0,0,0,0,0,0xff,0xff,a,b,c,d] => Some(a.b.c.d) }` *)
Definition from_mapped (x : N) : option N :=
  if N.shiftr x 32 =? 65535 then Some (N.land x (N.ones 32)) else None.

(* impl Match<IpAddr> for Prefix *)
Definition contains (p : prefix) (ip : addr) : bool :=
  match p, ip with
  | P4 a l, A4 x => contains_w 32 a l x
  | P6 a l, A6 x => contains_w 128 a l x
  | P4 a l, A6 x => match from_mapped x with Some y => contains_w 32 a l y | None => false end
  | P6 a l, A4 x => contains_w 128 a l (to_mapped x)     (* after the repair: the mapped form decides *)
  | _, AUnix => false                                      (* check_subnet: addr.ip() is None *)
  end.

(* Acl::check *)
Definition is_unix (a : addr) : bool := match a with AUnix => true | _ => false end.
Definition rule_check (r : rule) (cl : addr) : bool :=
  (match r_subnet r with Some ps => existsb (fun p => contains p cl) ps | None => true end)
  && (match r_unix r with Some u => Bool.eqb (is_unix cl) u | None => true end).

(* check_authenticated: `iter().find_map(|a| a.check(attr))` *)
Fixpoint check_authenticated (rs : list rule) (cl : addr) : option perm :=
  match rs with
  | [] => None
  | r :: rest => if rule_check r cl then Some (r_perm r) else check_authenticated rest cl
  end.

Definition perm_has (p : perm) (o : op) : bool :=
  match o with OpDns => p_dns p | OpHttp => p_http p | OpLeases => p_leases p | OpMetrics => p_metrics p end.

(* require_permission *)
Definition require (rs : list rule) (cl : addr) (o : op) : decision :=
  match check_authenticated rs cl with
  | Some p => if perm_has p o then Granted else NotAuthorised
  | None => NotAuthenticated
  end.

(* parse_acl: the access strings and their aliases
   0 dhcp-client  1 dns-recursion  2 http  3 http-metrics  4 http-leases  5 http-ro *)
Definition no_perm : perm := {| p_dns := false; p_http := false; p_metrics := false; p_leases := false |}.
Definition add_access (p : perm) (a : N) : perm :=
  match a with
  | 0 | 1 => {| p_dns := true; p_http := p_http p; p_metrics := p_metrics p; p_leases := p_leases p |}
  | 2 => {| p_dns := p_dns p; p_http := true; p_metrics := p_metrics p; p_leases := p_leases p |}
  | 3 => {| p_dns := p_dns p; p_http := p_http p; p_metrics := true; p_leases := p_leases p |}
  | 4 => {| p_dns := p_dns p; p_http := p_http p; p_metrics := p_metrics p; p_leases := true |}
  | _ => {| p_dns := p_dns p; p_http := true; p_metrics := true; p_leases := true |}
  end.
Definition perm_of_accesses (l : list N) : perm := fold_left add_access l no_perm.

(* default_acls(addresses) *)
Definition all_perm : perm := {| p_dns := true; p_http := true; p_metrics := true; p_leases := true |}.
Definition LOCALHOST4 : prefix := P4 2130706432 8.     (* 127.0.0.0/8 *)
Definition LOCALHOST6 : prefix := P6 1 128.            (* ::1/128 *)
Definition default_acls (addresses : list prefix) : list rule :=
  [ {| r_subnet := Some addresses; r_unix := None; r_perm := all_perm |};
    {| r_subnet := Some [LOCALHOST4; LOCALHOST6]; r_unix := None; r_perm := all_perm |};
    {| r_subnet := None; r_unix := Some true;
       r_perm := {| p_dns := false; p_http := true; p_metrics := true; p_leases := true |} |} ].

(* ---- HTTP gate: serve_request ------------------------------------------
   paths: 0 "/"  1 "/metrics"  2 "/api/v1/leases.json"  3 anything else;
   get = the method is GET.  Every arm consults the ACL (after the repair
   of F6) and answers 403 without doing anything else when refused. *)
Definition http_perm (get : bool) (path : N) : op :=
  if get then match path with 0 => OpHttp | 1 => OpMetrics | _ => OpLeases end
  else OpLeases.
Definition http_ok_status (get : bool) (path : N) : N :=
  if get && (path <? 3) then 200 else 404.
Definition http_status (rs : list rule) (cl : addr) (get : bool) (path : N) : N :=
  match require rs cl (http_perm get path) with
  | Granted => http_ok_status get path
  | _ => 403
  end.

(* ---- DNS gate: DnsAclHandler::handle_query ------------------------------
   what happens to a query: refused by the ACL before anything else, or
   handed on (to the ANY/source-port screens, then routing, cache, upstream) *)
Inductive dns_outcome := DnsRefusedByAcl | DnsPassedOn.
Definition dns_gate (rs : list rule) (cl : addr) : dns_outcome :=
  match require rs cl OpDns with Granted => DnsPassedOn | _ => DnsRefusedByAcl end.

(* ======================================================================
   SPECIFICATION (erbium.conf(5), "ACLs"; property C08)
   ====================================================================== *)

(* Every client address and every prefix is read as a 128-bit object, an IPv4
   address a.b.c.d being the same as ::ffff:a.b.c.d ("IPv4 clients seen as
   IPv4-mapped IPv6 addresses").  An address is inside a prefix when the top
   [len] bits agree with the written address. *)
Definition addr128 (a : addr) : option N :=
  match a with A4 x => Some (N.lor (N.shiftl 65535 32) x) | A6 x => Some x | AUnix => None end.
Definition prefix128 (p : prefix) : N * N :=
  match p with P4 a l => (N.lor (N.shiftl 65535 32) a, 96 + l) | P6 a l => (a, l) end.

Definition in_prefix (p : prefix) (cl : addr) : Prop :=
  exists x, addr128 cl = Some x /\
            forall i, i < snd (prefix128 p) -> N.testbit (fst (prefix128 p)) (127 - i) = N.testbit x (127 - i).

(* "match-subnets: the client's source address matches one of the subnets;
    match-unix: true = must be a unix socket client, false = must not be;
    conditions not specified are not matched on" *)
Definition rule_matches (r : rule) (cl : addr) : Prop :=
  (forall ps, r_subnet r = Some ps -> exists p, In p ps /\ in_prefix p cl) /\
  (forall u, r_unix r = Some u -> (cl = AUnix <-> u = true)).

(* "ACLs are applied in a strict first-match basis" *)
Definition first_match (rs : list rule) (cl : addr) (r : rule) : Prop :=
  exists pre post, rs = pre ++ r :: post /\ rule_matches r cl /\ Forall (fun r' => ~ rule_matches r' cl) pre.
Definition no_match (rs : list rule) (cl : addr) : Prop := Forall (fun r => ~ rule_matches r cl) rs.

Definition permits (r : rule) (o : op) : bool := perm_has (r_perm r) o.

(* executable form of the specification, used by the monitor on the
   implementation's answers (proved equivalent to the above in Proofs/Acl.v) *)
Definition in_prefix_b (p : prefix) (cl : addr) : bool :=
  match addr128 cl with
  | Some x => N.shiftr (fst (prefix128 p)) (128 - snd (prefix128 p)) =? N.shiftr x (128 - snd (prefix128 p))
  | None => false
  end.
Definition rule_matches_b (r : rule) (cl : addr) : bool :=
  (match r_subnet r with Some ps => existsb (fun p => in_prefix_b p cl) ps | None => true end)
  && (match r_unix r with Some u => Bool.eqb (is_unix cl) u | None => true end).
Fixpoint first_match_b (rs : list rule) (cl : addr) : option rule :=
  match rs with
  | [] => None
  | r :: rest => if rule_matches_b r cl then Some r else first_match_b rest cl
  end.
Definition spec_granted (rs : list rule) (cl : addr) (o : op) : bool :=
  match first_match_b rs cl with Some r => permits r o | None => false end.

(* C07 (iv): the source address of a reply, as handed to the kernel in an
   IP_PKTINFO control message (erbium-net/src/socket.rs).

   An IPv4 address is its four octets in network order.  [libc::in_addr.s_addr]
   is a u32 whose BYTES IN MEMORY are the octets in network order; the kernel
   (and [RecvMsg::local_ip], socket.rs:165, via [to_ne_bytes]) read those
   bytes.  On the little-endian machines erbium runs on, the memory image of a
   u32 [v] is [v mod 256; v/256 mod 256; ...].

   [s_addr_orig] is the unrepaired [std_to_libc_in_addr] (socket.rs:23-30 and
   its copy udp.rs:42): a big-endian fold, i.e. the value in HOST order (F38).
   [s_addr_of] is the repaired one: [u32::from_ne_bytes(addr.octets())].
   Definitions only. *)
From Erbium Require Import Lib.Base.

(* memory image of a u32 on a little-endian machine = [u32::to_ne_bytes] *)
Definition mem_bytes_le (v : N) : list N :=
  [ v mod 256 ; (v / 256) mod 256 ; (v / 65536) mod 256 ; (v / 16777216) mod 256 ].

(* [u32::from_ne_bytes] on a little-endian machine *)
Definition from_ne_bytes_le (o : list N) : N :=
  match o with
  | [a; b; c; d] => a + 256 * b + 65536 * c + 16777216 * d
  | _ => 0
  end.

(* socket.rs:23-30 before the repair:
     addr.octets().iter().fold(0, |acc, x| (acc << 8) | x as u32)
   ([<<] on u32 discards the bits shifted out) *)
Definition s_addr_orig (o : list N) : N :=
  fold_left (fun acc x => N.lor ((acc * 256) mod 4294967296) x) o 0.

(* after the repair *)
Definition s_addr_of (o : list N) : N := from_ne_bytes_le o.

Definition ip4_ok (o : list N) : bool := (lenN o =? 4) && bytes_ok o.

(* the in_pktinfo.ipi_spec_dst built for a reply that must leave from [ip] *)
Definition pktinfo_for (ip : list N) : N := s_addr_of ip.
Definition pktinfo_orig (ip : list N) : N := s_addr_orig ip.

(* the address the kernel puts on the wire for that control message, and
   equally what [RecvMsg::local_ip] reports for a received in_pktinfo *)
Definition local_ip_of (s_addr : N) : list N := mem_bytes_le s_addr.

(* IPv6 (and IPv4-mapped on a dual-stack socket): [std_to_libc_in6_addr] copies
   the 16 octets; [local_ip] reassembles them pairwise. *)
Definition pktinfo6_for (ip : list N) : list N := ip.
Definition local_ip6_of (s6 : list N) : list N := s6.

(* C07 (v): a received datagram and the reply the listener task addresses
   (dns/mod.rs:699-769): payload aside, the reply goes to the query's source
   and asks the kernel to send it from the query's destination address; the
   source port is the listening socket's, i.e. the query's destination port. *)
Record dgram := { g_src_ip : list N; g_src_port : N; g_dst_ip : list N; g_dst_port : N; g_v6 : bool }.

Definition reply_dgram (q : dgram) : dgram :=
  {| g_src_ip := if g_v6 q then local_ip6_of (pktinfo6_for (g_dst_ip q))
                 else local_ip_of (pktinfo_for (g_dst_ip q));
     g_src_port := g_dst_port q;
     g_dst_ip := g_src_ip q;
     g_dst_port := g_src_port q;
     g_v6 := g_v6 q |}.

Definition reply_dgram_orig (q : dgram) : dgram :=
  {| g_src_ip := if g_v6 q then local_ip6_of (pktinfo6_for (g_dst_ip q))
                 else local_ip_of (pktinfo_orig (g_dst_ip q));
     g_src_port := g_dst_port q;
     g_dst_ip := g_src_ip q;
     g_dst_port := g_src_port q;
     g_v6 := g_v6 q |}.

(* Specification side: a strict DNS message decoder written from RFC 1035
   4.1 / RFC 6891 6.1.2, used as the monitor on the implementation's bytes
   and as the notion of "well-formed response" in C04/C14.  It shares only
   the cursor primitives with the model of the implementation's decoder.
   Strict means: QDCOUNT = 1; exactly ANCOUNT/NSCOUNT/ARCOUNT records are
   present; no trailing octets; RDLENGTH equals the octets the record data
   occupy, also for data containing names; every compression pointer targets
   an offset strictly below its own and below 0x4000; names expand to at most
   255 octets; at most one OPT record, in the additional section, owned by the
   root.  Definitions only. *)
From Erbium Require Import Lib.Base Model.DnsName Model.DnsCodec.

Definition s_name (buf : list N) (c : cur) : option (name * cur) :=
  match strict_name NAME_FUEL buf (fst c) (snd c) 0 with
  | Some (n, nxt) => Some (n, (dropN (nxt - snd c) (fst c), nxt))
  | None => None
  end.

Definition o2 {A} (o : outcome A) : option A := match o with Ok a => Some a | _ => None end.

Notation "'let?' x := o 'in' f" := (match o with Some x => f | None => None end)
  (at level 200, x pattern, o at level 100, f at level 200, right associativity).

Fixpoint s_options (fuel : nat) (b : list N) : option opts :=
  match fuel with
  | O => None
  | S f =>
    match b with
    | [] => Some []
    | c1 :: c2 :: l1 :: l2 :: r =>
      let? (d, r') := take_exact (N.to_nat (l1 * 256 + l2)) r in
      let? os := s_options f r' in Some ((c1 * 256 + c2, d) :: os)
    | _ => None
    end
  end.

(* record data of [rdlen] octets starting at cursor [c]; the cursor after it
   must be exactly [snd c + rdlen] *)
Definition s_rdata (buf : list N) (ty rdlen : N) (c : cur) : option (rdata * cur) :=
  let fin := snd c + rdlen in
  let? (d, c') :=
    if (ty =? T_CNAME) then let? (n, c) := s_name buf c in Some (RCName n, c)
    else if (ty =? T_NS) then let? (n, c) := s_name buf c in Some (RNs n, c)
    else if (ty =? T_PTR) then let? (n, c) := s_name buf c in Some (RPtr n, c)
    else if (ty =? T_MX) then let? (p, c) := o2 (get_u16 c) in let? (n, c) := s_name buf c in Some (RMx p n, c)
    else if (ty =? T_RT) then let? (p, c) := o2 (get_u16 c) in let? (n, c) := s_name buf c in Some (RRt p n, c)
    else if (ty =? T_AFSDB) then let? (p, c) := o2 (get_u16 c) in let? (n, c) := s_name buf c in Some (RAfsDb p n, c)
    else if (ty =? T_RP) then let? (m, c) := s_name buf c in let? (t, c) := s_name buf c in Some (RRp m t, c)
    else if (ty =? T_SOA) then
      let? (m, c) := s_name buf c in let? (r, c) := s_name buf c in
      let? (s, c) := o2 (get_u32 c) in let? (rf, c) := o2 (get_u32 c) in let? (rt, c) := o2 (get_u32 c) in
      let? (e, c) := o2 (get_u32 c) in let? (mi, c) := o2 (get_u32 c) in Some (RSoa m r s rf rt e mi, c)
    else if (ty =? T_NAPTR) then
      let? (o, c) := o2 (get_u16 c) in let? (p, c) := o2 (get_u16 c) in
      let? (f, c) := o2 (get_string c) in let? (s, c) := o2 (get_string c) in let? (r, c) := o2 (get_string c) in
      let? (n, c) := s_name buf c in Some (RNaPtr o p f s r n, c)
    else if (ty =? T_OPT) then
      let? (b, c) := o2 (get_bytes rdlen c) in let? os := s_options (S (length b)) b in Some (ROpt os, c)
    else let? (b, c) := o2 (get_bytes rdlen c) in Some (ROther b, c)
  in if snd c' =? fin then Some (d, c') else None.

Definition s_rr (buf : list N) (c : cur) : option (rr * cur) :=
  let? (n, c) := s_name buf c in
  let? (ty, c) := o2 (get_u16 c) in
  let? (cl, c) := o2 (get_u16 c) in
  let? (ttl, c) := o2 (get_u32 c) in
  let? (rdlen, c) := o2 (get_u16 c) in
  let? (d, c) := s_rdata buf ty rdlen c in
  Some ({| r_name := n; r_class := cl; r_type := ty; r_ttl := ttl; r_data := d |}, c).

Fixpoint s_rrs (buf : list N) (cnt : nat) (c : cur) : option (list rr * cur) :=
  match cnt with
  | O => Some ([], c)
  | S k => let? (r, c) := s_rr buf c in let? (rs, c) := s_rrs buf k c in Some (r :: rs, c)
  end.

Definition is_opt (r : rr) : bool := r_type r =? T_OPT.

Definition strict_decode (b : list N) : option pkt :=
  let c : cur := (b, 0) in
  let? (id, c) := o2 (get_u16 c) in
  let? (f1, c) := o2 (get_u8 c) in
  let? (f2, c) := o2 (get_u8 c) in
  let? (qc, c) := o2 (get_u16 c) in
  let? (anc, c) := o2 (get_u16 c) in
  let? (nsc, c) := o2 (get_u16 c) in
  let? (adc, c) := o2 (get_u16 c) in
  if negb (qc =? 1) then None else
  let? (qn, c) := s_name b c in
  let? (qt, c) := o2 (get_u16 c) in
  let? (qcl, c) := o2 (get_u16 c) in
  let? (an, c) := s_rrs b (N.to_nat anc) c in
  let? (ns, c) := s_rrs b (N.to_nat nsc) c in
  let? (ad_, c) := s_rrs b (N.to_nat adc) c in
  match fst c with
  | _ :: _ => None                                   (* trailing octets *)
  | [] =>
    let os := filter is_opt ad_ in
    let rest := filter (fun r => negb (is_opt r)) ad_ in
    let mk (o : option rr) :=
      Some {| qid := id;
              rd := N.odd f1; tc := N.odd (f1 / 2); aa := N.odd (f1 / 4); qr := N.odd (f1 / 128);
              opcode := (f1 / 8) mod 16;
              cd := N.odd (f2 / 32); ad := N.odd (f2 / 64); ra := N.odd (f2 / 128);
              rcode := f2 mod 16 + 16 * match o with Some r => r_ttl r / 16777216 | None => 0 end;
              bufsize := match o with Some r => r_class r | None => 512 end;
              edns_ver := match o with Some r => Some ((r_ttl r / 65536) mod 256) | None => None end;
              edns_do := match o with Some r => N.odd (r_ttl r / 32768) | None => false end;
              qname := qn; qtype := qt; qclass := qcl;
              answer := an; nameserver := ns; additional := rest;
              edns := match o with
                      | Some r => match r_data r with ROpt x => Some x | _ => None end
                      | None => None
                      end |} in
    match os with
    | [] => mk None
    | [o] => match r_name o with [] => mk (Some o) | _ => None end
    | _ => None
    end
  end.

(* ---- pointer discipline of a single name (used by the names-only case) -- *)
Fixpoint s_names (buf : list N) (cnt : nat) (c : cur) : option (list name * cur) :=
  match cnt with
  | O => Some ([], c)
  | S k => let? (n, c) := s_name buf c in let? (ns, c) := s_names buf k c in Some (n :: ns, c)
  end.

(* m' is m with trailing records dropped (sections cut at one point) *)
Fixpoint is_prefix {A} (eqb : A -> A -> bool) (p l : list A) : bool :=
  match p, l with
  | [], _ => true
  | x :: p', y :: l' => eqb x y && is_prefix eqb p' l'
  | _, _ => false
  end.

Definition header_eqb (a b : pkt) : bool :=
  (qid a =? qid b) && Bool.eqb (rd a) (rd b) && Bool.eqb (aa a) (aa b)
  && Bool.eqb (qr a) (qr b) && (opcode a =? opcode b) && Bool.eqb (cd a) (cd b) && Bool.eqb (ad a) (ad b)
  && Bool.eqb (ra a) (ra b) && (rcode a mod 16 =? rcode b mod 16)
  && name_eqb (qname a) (qname b) && (qtype a =? qtype b) && (qclass a =? qclass b).

(* the records of a message in wire order, the OPT pseudo-record last *)
Definition rrs_on_wire (m : pkt) : list rr := answer m ++ nameserver m ++ additional m ++ opt_rr m.

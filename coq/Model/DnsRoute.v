(* Model of DNS route selection: crates/erbium-core/src/dns/router.rs
   (DnsRouteHandler::handle_query), dnspkt.rs (Domain::ends_with,
   compare_longest_suffix), dns/config.rs (Route, Handler).  Definitions only.

   A name is the list of its labels, leftmost first (Domain(Vec<Label>)); a
   label is its octets.  The model is of the code after F23 is repaired:
   ends_with compares labels with eq_ignore_ascii_case.  The case-sensitive
   variant (the unchanged tree) is kept as [ends_with_cs]/[select_cs] so that
   the check can say when case was what mattered. *)
From Erbium Require Import Lib.Base.

Definition label := list N.
Definition name := list label.

(* u8::to_ascii_lowercase *)
Definition lower (b : N) : N := if (65 <=? b) && (b <=? 90) then b + 32 else b.
Definition label_eqb_ci (a b : label) : bool := list_eqb N.eqb (map lower a) (map lower b).
Definition label_eqb_cs (a b : label) : bool := list_eqb N.eqb a b.
Definition name_eqb_ci (a b : name) : bool := list_eqb label_eqb_ci a b.

(* slice::ends_with, with the label comparison as a parameter *)
Definition ends_with_by (eqb : label -> label -> bool) (q s : name) : bool :=
  if (length s <=? length q)%nat then list_eqb eqb (skipn (length q - length s) q) s else false.
Definition ends_with := ends_with_by label_eqb_ci.
Definition ends_with_cs := ends_with_by label_eqb_cs.

(* Ord for Vec<u8> and Vec<Label>: lexicographic *)
Fixpoint cmp_bytes (a b : list N) : comparison :=
  match a, b with
  | [], [] => Eq
  | [], _ :: _ => Lt
  | _ :: _, [] => Gt
  | x :: a', y :: b' => match N.compare x y with Eq => cmp_bytes a' b' | c => c end
  end.
Fixpoint cmp_labels (a b : name) : comparison :=
  match a, b with
  | [], [] => Eq
  | [], _ :: _ => Lt
  | _ :: _, [] => Gt
  | x :: a', y :: b' => match cmp_bytes x y with Eq => cmp_labels a' b' | c => c end
  end.

(* compare_longest_suffix: "Greater" when lhs has fewer labels *)
Definition compare_longest_suffix (l r : name) : comparison :=
  if negb (length l =? length r)%nat then
    (if (length l <? length r)%nat then Gt else Lt)
  else cmp_labels l r.

(* dns::config::Handler / Route; a server is identified by a number *)
Inductive action := Forge | Forward (servers : list N).
Definition route := (list name * action)%type.
Definition suffixes (r : route) : list name := fst r.
Definition act (r : route) : action := snd r.
Definition table := list route.

(* the body of the inner loop *)
Definition step_suffix (ew : name -> name -> bool) (q : name) (i : nat)
    (best : option (nat * name)) (s : name) : option (nat * name) :=
  if ew q s then
    match best with
    | Some (_, bs) =>
      match compare_longest_suffix bs s with
      | Gt => Some (i, s)
      | _ => best
      end
    | None => Some (i, s)
    end
  else best.

Fixpoint select_from (ew : name -> name -> bool) (q : name) (i : nat) (rt : table)
    (best : option (nat * name)) : option (nat * name) :=
  match rt with
  | [] => best
  | r :: rt' => select_from ew q (S i) rt' (fold_left (step_suffix ew q i) (suffixes r) best)
  end.

Definition select (rt : table) (q : name) : option (nat * name) := select_from ends_with q 0 rt None.
Definition select_cs (rt : table) (q : name) : option (nat * name) := select_from ends_with_cs q 0 rt None.

(* what handle_query does with the selected route *)
Inductive rresult :=
| RBlocked                (* Err(Blocked): NXDOMAIN, nothing sent upstream *)
| RNoRoute                (* Err(NoRouteConfigured): SERVFAIL *)
| RNotAuth                (* Err(NotAuthoritative): REFUSED, nothing sent upstream *)
| RForward (srv : N)      (* next.handle_query(msg, dest[0]) *)
| RPanic.                 (* dest[0] on an empty server list *)

Definition act_result (a : action) (rd : bool) : rresult :=
  match a with
  | Forge => RBlocked
  | Forward srvs =>
    if rd then match srvs with s :: _ => RForward s | [] => RPanic end else RNotAuth
  end.

Definition decide_with (sel : table -> name -> option (nat * name)) (rt : table) (q : name) (rd : bool) : rresult :=
  match sel rt q with
  | None => RNoRoute
  | Some (i, _) =>
    match nth_error rt i with
    | Some r => act_result (act r) rd
    | None => RPanic
    end
  end.
Definition decide := decide_with select.
Definition decide_cs := decide_with select_cs.

(* rcode the client sees for the error results (create_in_error) *)
Definition rcode_of (r : rresult) : option N :=
  match r with
  | RBlocked => Some 3 | RNoRoute => Some 2 | RNotAuth => Some 5
  | _ => None
  end.

(* ---- specification side (written from the property text) -------------- *)
(* all (suffix, action) pairs of a table *)
Definition entries (rt : table) : list (name * action) :=
  flat_map (fun r => map (fun s => (s, act r)) (suffixes r)) rt.

(* executable spec: among the entries whose suffix the query ends with
   (whole labels, ASCII case-insensitive) the largest number of labels *)
Definition matching (rt : table) (q : name) : list (name * action) :=
  filter (fun e => ends_with q (fst e)) (entries rt).
Definition max_labels (l : list (name * action)) : nat :=
  fold_right (fun e m => Nat.max (length (fst e)) m) O l.
Definition best_entries (rt : table) (q : name) : list (name * action) :=
  let m := matching rt q in
  filter (fun e => (length (fst e) =? max_labels m)%nat) m.

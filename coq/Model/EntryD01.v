(* Token-level entry point for the pseudo-property D01: the composed DNS pipeline
   (Model/DnsPipeline.v, dns_step) against the real DnsListenerHandler on loopback with a
   scripted upstream (harness/src/bin/d01.rs).  One history per line:
     1 <rules> <table> cur prev nsteps step*
   <rules> as in EntryC08 (count, rules), <table> as in EntryC15, cur/prev: the cookie keys
   step = t_s t_ns_s t_ns_ns t_ins_s t_ins_ns <client addr> port tcp <local addr> b1 b2 <nsid> <issued> <query octets>
          nup {srv tcp <octets>}*                    upstream queries seen, in order
          <udp answer> <tcp answer>                  what the scripted upstream sent: 0 | 1 <octets>
          <reply>                                    what the client got: 0 | 1 <octets>
          sleep_ms nscript script*                   for replay only, not read here
   b1 b2: the limiter's two buckets for the client (hook limiter_buckets).
   The values the implementation picks are read off its behaviour: the upstream query id from
   the first upstream query, the reply's EDNS option list from the reply, and the MAC of the
   cookie data under the current key from the cookie the reply carries.  Definitions only. *)
From Erbium Require Import Lib.Base Model.DnsName Model.DnsCodec Model.DnsForward Model.DnsEncodeSized
  Model.DnsPipeline Model.EntryC08 Model.EntryC15.
From Erbium Require Model.Acl Model.DnsRoute Model.Bucket Model.Cookie Model.DnsCache.

Definition tok_optbytes (ts : list N) : option (option (list N) * list N) :=
  match ts with
  | 0 :: r => Some (None, r)
  | 1 :: r => match tok_bytes r with Some (b, r2) => Some (Some b, r2) | None => None end
  | _ => None
  end.

Definition tok_upq (ts : list N) : option (upq * list N) :=
  match ts with
  | srv :: tr :: r =>
    match tok_bytes r with
    | Some (b, r2) => Some ((srv, negb (tr =? 0), b), r2)
    | None => None
    end
  | _ => None
  end.

Record dstep := {
  d_ts : N; d_tns : N; d_tins : N; d_client : Acl.addr; d_port : N; d_tcp : bool; d_local : Acl.addr;
  d_b1 : N; d_b2 : N; d_nsid : list N; d_issued : list N; d_query : list N; d_ups : list upq;
  d_udp : option (list N); d_tcpa : option (list N); d_reply : option (list N) }.

Definition tok_step (ts : list N) : option (dstep * list N) :=
  match ts with
  | t_s :: ns_s :: ns_ns :: ni_s :: ni_ns :: r =>
    match tok_addr r with
    | Some (cl, port :: tcp :: r) =>
      match tok_addr r with
      | Some (lo, b1 :: b2 :: r) =>
        match tok_bytes r with Some (nsid, r) =>
        match tok_bytes r with Some (iss, r) =>
        match tok_bytes r with
        | Some (q, r) =>
          match tok_counted tok_upq r with
          | Some (ups, r) =>
            match tok_optbytes r with Some (ua, r) =>
            match tok_optbytes r with Some (ta, r) =>
            match tok_optbytes r with Some (rep, _ :: r) =>
            match tok_bytes r with Some (_, r) =>
              Some ({| d_ts := t_s; d_tns := ns_s * 1000000000 + ns_ns; d_tins := ni_s * 1000000000 + ni_ns; d_client := cl; d_port := port;
                       d_tcp := negb (tcp =? 0); d_local := lo; d_b1 := b1; d_b2 := b2; d_nsid := nsid; d_issued := iss; d_query := q;
                       d_ups := ups; d_udp := ua; d_tcpa := ta; d_reply := rep |}, r)
            | None => None end
            | _ => None end | None => None end | None => None end
          | None => None
          end
        | None => None
        end
        | None => None end | None => None end
      | _ => None
      end
    | _ => None
    end
  | _ => None
  end.

(* the implementation's choices, read off what it did *)
Definition reply_opts_of (rep : option (list N)) : option opts :=
  match rep with
  | Some b => match decode b with Ok r => edns r | _ => None end
  | None => None
  end.
(* add_edns for a reply without extended error: NSID if asked, cookie if the query has one *)
Definition expected_opts (q : outcome pkt) (nsid issued : list N) : opts :=
  match q with
  | Ok qq =>
    (if has_opt 3 qq then [(3, nsid)] else [])
    ++ (match cookie_opt qq with
        | Some d => if 8 <=? lenN d then [(10, firstn 8 d ++ issued)] else []
        | None => []
        end)
  | _ => []
  end.
Definition up_id (ups : list upq) : N :=
  match ups with (_, _, a :: b :: _) :: _ => a * 256 + b | _ => 0 end.
Definition oracle_mac (cur issued : list N) (k d : list N) : list N :=
  if bytes_eqb k cur then issued else [256].        (* [256]: equal to no octet string *)

Definition upq_eqb (a b : upq) : bool :=
  (fst (fst a) =? fst (fst b)) && Bool.eqb (snd (fst a)) (snd (fst b)) && bytes_eqb (snd a) (snd b).

Definition put_optbytes (o : option (list N)) : list N :=
  match o with Some b => 1 :: put_bytes b | None => [0] end.

Record acc := { a_fetch : list (DnsCache.key * (N * pkt));   (* per key: the latest observed upstream answer and when *)
                a_src : list (N * (N * N));      (* per IPv4 source: tokens charged so far, time of its first charge *)
                a_viol : N; a_diff : option (list N); a_hit : bool; a_drop : bool; a_aclref : bool; a_tcp : bool; a_fwd : bool }.
Definition first_nz (a b : N) : N := if a =? 0 then b else a.
Definition first_some {A} (a b : option A) : option A := match a with Some _ => a | None => b end.

Definition initial_state (cur prev : list N) : pstate :=
  {| s_cache := []; s_store := []; s_buckets := repeatN 0 256; s_keys := (cur, prev) |}.

Fixpoint run_steps (rules : list Acl.rule) (rt : DnsRoute.table) (cur : list N) (st : pstate) (a : acc)
    (i : N) (steps : list dstep) : acc :=
  match steps with
  | [] => a
  | s :: rest =>
    let c := {| c_acls := rules; c_routes := rt;
                c_hash := fun _ => (N.to_nat (d_b1 s), N.to_nat (d_b2 s)) |} in
    let eo := match reply_opts_of (d_reply s) with
              | Some o => o
              | None => expected_opts (decode (d_query s)) (d_nsid s) (d_issued s)
              end in
    let id := up_id (d_ups s) in
    let u := {| u_udp := match d_udp s with Some b => UpReply b | None => UpTimeout end;
                u_tcp := match d_tcpa s with Some b => UpReply b | None => UpFail 4 end |} in
    let mac := oracle_mac cur (d_issued s) in
    (* the property, on what the implementation did *)
    let q := decode (d_query s) in
    let granted := Acl.spec_granted rules (d_client s) Acl.OpDns in
    let limit := match q with
                 | Ok qq => N.max (response_size_limit (d_tcp s) (bufsize qq)) 512
                 | _ => 65535
                 end in
    let rep_rcode := match d_reply s with
                     | Some b => match decode b with Ok r => Some (rcode r) | _ => None end
                     | None => None
                     end in
    let v1 := if negb granted &&
                 (negb (lenN (d_ups s) =? 0)
                  || match d_reply s with Some _ => negb (opt_eqb N.eqb rep_rcode (Some 5)) | None => false end)
              then 1 else 0 in
    let v3 := match d_reply s with Some b => if limit <? lenN b then 3 else 0 | None => 0 end in
    let v2 := match q with
              | Ok qq =>
                match DnsRoute.decide rt (qname qq) (rd qq) with
                | DnsRoute.RForward srv =>
                  if forallb (fun x : upq => fst (fst x) =? srv) (d_ups s) then 0 else 2
                | _ => if lenN (d_ups s) =? 0 then 0 else 2
                end
              | _ => if lenN (d_ups s) =? 0 then 0 else 2
              end in
    (* D06 on what the implementation sent: REFUSED over UDP to a query without the cookie this
       server issues: the charges must stay within 2*CAP + 2*RATE*(elapsed) per source *)
    let srckey := match d_client s with Acl.A4 x => x | Acl.A6 x => x | Acl.AUnix => 0 end in
    let charge :=
      match d_reply s, q with
      | Some b, Ok qq =>
        let presented := match cookie_opt qq with Some d => if 8 <=? lenN d then Some (dropN 8 d) else None | None => None end in
        let valid := match presented with Some p => bytes_eqb p (d_issued s) && negb (lenN p =? 0) | None => false end in
        if negb (d_tcp s) && opt_eqb N.eqb rep_rcode (Some 5) && negb valid
        then Bucket.cost (lenN (d_query s)) (lenN b) else 0
      | _, _ => 0
      end in
    let old := match find (fun e => fst e =? srckey) (a_src a) with Some e => snd e | None => (0, d_ts s) end in
    let total := fst old + charge in
    let src' := if charge =? 0 then a_src a
                else (srckey, (total, snd old)) :: filter (fun e => negb (fst e =? srckey)) (a_src a) in
    let v4 := if 2 * Bucket.CAP + 2 * (Bucket.RATE * (d_ts s + 1 - snd old)) <? total then 4 else 0 in
    (* D05/D04 on what the implementation sent: records relayed without asking an upstream must be
       the latest upstream answer for the identical key, no older than its smallest TTL, TTLs lowered
       by the whole seconds elapsed (a prefix of each section: the size limit may cut) *)
    let fetch_lookup := fix fl (k : DnsCache.key) (l : list (DnsCache.key * (N * pkt))) : option (N * pkt) :=
      match l with [] => None | (k', v) :: r => if DnsCache.key_eqb k k' then Some v else fl k r end in
    let v5 :=
      match d_reply s, q with
      | Some b, Ok qq =>
        match decode b with
        | Ok r =>
          if (lenN (d_ups s) =? 0) && negb (lenN (answer r ++ nameserver r ++ additional r) =? 0) then
            match fetch_lookup (key_of qq) (a_fetch a) with
            | Some (t0, m) =>
              let el := d_tns s - t0 in
              let d := el / 1000000000 in
              let low := map (fun x => with_ttl x (r_ttl x - d)) in
              if (qclass qq =? 1) && (t0 <=? d_tns s) && (el <=? 1000000000 * DnsForward.min_ttl m)
                 && rrs_eqb (answer r) (firstn (length (answer r)) (low (answer m)))
                 && rrs_eqb (nameserver r) (firstn (length (nameserver r)) (low (nameserver m)))
                 && rrs_eqb (additional r) (firstn (length (additional r)) (low (additional m)))
              then 0 else 5
            | None => 5
            end
          else 0
        | _ => 0
        end
      | _, _ => 0
      end in
    (* D04 on what the implementation sent: when an upstream was asked and its answer (the one [out_query]
       settles on) decodes, the reply carries that answer's rcode and, record for record up to where the
       size limit cut, its sections -- not an error of the resolver's own making *)
    let v6 :=
      match d_reply s, q with
      | Some b, Ok qq =>
        if negb (lenN (d_ups s) =? 0) then
          match fst (out_query (d_tcp s) id u), decode b with
          | UOk m0, Ok r =>
            if (rcode r mod 16 =? rcode m0 mod 16)
               && rrs_eqb (answer r) (firstn (length (answer r)) (answer m0))
               && rrs_eqb (nameserver r) (firstn (length (nameserver r)) (nameserver m0))
               && rrs_eqb (additional r) (firstn (length (additional r)) (additional m0))
            then 0 else 6
          | _, _ => 0
          end
        else 0
      | _, _ => 0
      end in
    (* C07, first sentence, on what the implementation did over TCP (where nothing is ever dropped on purpose:
       no rate limit applies): a well-formed query (QR = 0) from a client the ACL permits got no response at all *)
    let v7 :=
      match d_reply s, q with
      | None, Ok qq => if d_tcp s && granted && negb (qr qq) then 7 else 0
      | _, _ => 0
      end in
    let fetch' :=
      match q with
      | Ok qq =>
        if negb (lenN (d_ups s) =? 0) && (qclass qq =? 1) then
          match fst (out_query (d_tcp s) id u) with
          | UOk m => (key_of qq, (d_tins s, m)) :: filter (fun e => negb (DnsCache.key_eqb (key_of qq) (fst e))) (a_fetch a)
          | UErr _ => filter (fun e => negb (DnsCache.key_eqb (key_of qq) (fst e))) (a_fetch a)
          end
        else a_fetch a
      | _ => a_fetch a
      end in
    match dns_step mac c st (d_tns s) (d_tins s) (d_ts s) (d_client s) (d_port s) (d_local s) (d_tcp s)
                   (d_query s) u id eo with
    | Ok (st', out, qs) =>
      let ok := opt_eqb bytes_eqb out (d_reply s) && list_eqb upq_eqb qs (d_ups s) in
      run_steps rules rt cur st'
        {| a_fetch := fetch'; a_src := src';
           a_viol := first_nz (a_viol a) (first_nz v1 (first_nz v2 (first_nz v3 (first_nz v4 (first_nz v5 (first_nz v6 v7))))));
           a_diff := first_some (a_diff a)
                       (if ok then None else Some (i :: put_optbytes out ++ lenN qs :: flat_map (fun x : upq => [fst (fst x); if snd (fst x) then 1 else 0]) qs));
           a_hit := a_hit a || (match q with
                                | Ok qq => match front c (d_client s) (d_port s) qq with
                                           | Ok (ToServer _) => lenN qs =? 0
                                           | _ => false
                                           end
                                | _ => false
                                end);
           a_drop := a_drop a || (match out, q with None, Ok _ => true | _, _ => false end);
           a_aclref := a_aclref a || negb granted;
           a_tcp := a_tcp a || d_tcp s;
           a_fwd := a_fwd a || negb (lenN qs =? 0) |}
        (i + 1) rest
    | _ =>
      (* the model aborts: reported as a disagreement (D01_total says it cannot) *)
      {| a_fetch := fetch'; a_src := src';
         a_viol := first_nz (a_viol a) (first_nz v1 (first_nz v2 (first_nz v3 (first_nz v4 (first_nz v5 (first_nz v6 v7))))));
         a_diff := first_some (a_diff a) (Some [i; 99]);
         a_hit := a_hit a; a_drop := a_drop a; a_aclref := a_aclref a; a_tcp := a_tcp a; a_fwd := a_fwd a |}
    end
  end.

Definition check_history (ts : list N) : list N :=
  match tok_rules ts with
  | Some (rules, r) =>
    match tok_table r with
    | Some (rt, r) =>
      match tok_bytes r with Some (cur, r) =>
      match tok_bytes r with Some (prev, r) =>
        match tok_counted tok_step r with
        | Some (steps, []) =>
          let a := run_steps rules rt cur (initial_state cur prev)
                     {| a_fetch := []; a_src := []; a_viol := 0; a_diff := None; a_hit := false; a_drop := false; a_aclref := false;
                        a_tcp := false; a_fwd := false |} 0 steps in
          if negb (a_viol a =? 0) then v_viol (a_viol a)
          else match a_diff a with
               | Some d => v_diff d
               | None => v_ok (1 + (if a_hit a then 1 else 0) + (if a_drop a then 2 else 0)
                                 + (if a_aclref a then 4 else 0) + (if a_tcp a then 8 else 0)
                                 + (if a_fwd a then 16 else 0))
               end
        | _ => v_bad
        end
      | None => v_bad end | None => v_bad end
    | None => v_bad
    end
  | None => v_bad
  end.

Definition check_D01 (ts : list N) : list N :=
  match ts with
  | 1 :: r => check_history r
  | _ => v_bad
  end.

(* Reply assembly of the forwarder on the abstract packet: create_in_reply
   and create_in_error (dns/mod.rs:483-605, after the F8 repair), the
   upstream query (outquery.rs:373-398) and TTL ageing
   (dnspkt.rs clone_with_ttl_decrement).  Definitions only.

   add_edns puts an NSID option (the receiving address as text) and a COOKIE
   option (client cookie + HMAC under a process-random key) into the reply's
   OPT record; the model takes the reply's option list as an argument
   [eo] and [edns_accept] says which lists are acceptable (relational). *)
From Erbium Require Import Lib.Base Model.DnsName Model.DnsCodec.

Definition in_reply (q up : pkt) (eo : opts) : pkt :=
  {| qid := qid q; rd := false; tc := tc up; aa := aa up; qr := true; opcode := 0;
     cd := cd up; ad := ad up; ra := ra up; rcode := rcode up; bufsize := 4096;
     edns_ver := match edns_ver q with Some _ => Some 0 | None => None end;
     edns_do := false;
     qname := qname q; qtype := qtype q; qclass := qclass q;
     answer := answer up; nameserver := nameserver up; additional := additional up;
     edns := Some eo |}.

(* rcode and extended-error code per error kind of the verif hook *)
Definition error_rcode (kind : N) : N :=
  match kind with 0 => 5 | 1 => 3 | 2 => 5 | 3 => 2 | _ => 2 end.

Definition in_error (q : pkt) (kind : N) (eo : opts) : pkt :=
  {| qid := qid q; rd := false; tc := false; aa := false; qr := true; opcode := 0;
     cd := false; ad := false; ra := true; rcode := error_rcode kind; bufsize := 4096;
     edns_ver := match edns_ver q with Some _ => Some 0 | None => None end;
     edns_do := false;
     qname := qname q; qtype := qtype q; qclass := qclass q;
     answer := []; nameserver := []; additional := [];
     edns := Some eo |}.

Definition outquery (id : N) (q : pkt) : pkt :=
  {| qid := id; rd := true; tc := false; aa := false; qr := false; opcode := 0;
     cd := false; ad := false; ra := false; rcode := 0; bufsize := 4096;
     edns_ver := Some 0; edns_do := edns_do q;
     qname := qname q; qtype := qtype q; qclass := qclass q;
     answer := []; nameserver := []; additional := [];
     edns := Some [] |}.

(* clone_with_ttl_decrement: `x.ttl - decrement` on u32, checked in the debug profile *)
Fixpoint age_rrs (age : N) (rs : list rr) : outcome (list rr) :=
  match rs with
  | [] => Ok []
  | r :: t =>
    do ttl <- sub_chk (r_ttl r) age;
    do t' <- age_rrs age t;
    Ok ({| r_name := r_name r; r_class := r_class r; r_type := r_type r; r_ttl := ttl; r_data := r_data r |} :: t')
  end.

Definition age_ttls (age : N) (m : pkt) : outcome pkt :=
  do ad_ <- age_rrs age (additional m);
  do ns <- age_rrs age (nameserver m);
  do an <- age_rrs age (answer m);
  Ok {| qid := qid m; rd := rd m; tc := tc m; aa := aa m; qr := qr m; opcode := opcode m;
        cd := cd m; ad := ad m; ra := ra m; rcode := rcode m; bufsize := bufsize m;
        edns_ver := edns_ver m; edns_do := edns_do m;
        qname := qname m; qtype := qtype m; qclass := qclass m;
        answer := an; nameserver := ns; additional := ad_; edns := edns m |}.

Definition min_ttl (m : pkt) : N :=
  fold_right (fun r a => N.min (r_ttl r) a) 4294967295 (answer m ++ nameserver m ++ additional m).

(* which option lists add_edns may produce for query q: NSID (code 3) iff the
   query carried one, then COOKIE (code 10) iff the query carried one (its
   first 8 octets echoed, 32 server octets), then [extra] *)
Definition has_opt (code : N) (q : pkt) : bool :=
  match edns q with Some o => existsb (fun c => fst c =? code) o | None => false end.
Definition client_cookie (q : pkt) : list N :=
  match edns q with
  | Some o => match find (fun c => fst c =? 10) o with Some c => firstn 8 (snd c) | None => [] end
  | None => []
  end.

Definition edns_accept (q : pkt) (eo : opts) (n_extra : nat) : bool :=
  let eo1 := if has_opt 3 q then
               match eo with (3, _) :: r => Some r | _ => None end
             else Some eo in
  match eo1 with
  | None => false
  | Some eo1 =>
    let eo2 := if has_opt 10 q then
                 match eo1 with
                 | (10, d) :: r => if bytes_eqb (firstn 8 d) (client_cookie q) && (lenN d =? 40) then Some r else None
                 | _ => None
                 end
               else Some eo1 in
    match eo2 with
    | None => false
    | Some r => Nat.eqb (length r) n_extra && forallb (fun c => fst c =? 15) r
    end
  end.

Definition strip_ttl (r : rr) : rr :=
  {| r_name := r_name r; r_class := r_class r; r_type := r_type r; r_ttl := 0; r_data := r_data r |}.
